// forkbox.hpp - engine E4: run a piece of harness code in a forked child with a watchdog and classify
// the outcome.  The child reports through a pipe (fb::emit) and through a small shared-memory progress
// area (fb::shm()) that the parent can still read after a hang or a crash.
#pragma once
#include <csignal>
#include <cstdio>
#include <cstdlib>
#include <cstring>
#include <exception>
#include <fcntl.h>
#include <poll.h>
#include <string>
#include <sys/mman.h>
#include <sys/time.h>
#include <sys/wait.h>
#include <time.h>
#include <unistd.h>

namespace fb {

enum Kind { RETURNED = 0, EXCEPTION = 1, SANITIZER = 2, SIGNAL = 3, TIMEOUT = 4, TERMINATE = 5, BADEXIT = 6 };

inline const char* kind_name(int k) {
    static const char* n[] = {"returned", "exception", "sanitizer-report", "fatal-signal", "timeout", "std::terminate", "bad-exit"};
    return n[k];
}

struct Shm {
    volatile long long prog[8];
    char label[512];
};

inline Shm*& shm_ptr() {
    static Shm* p = nullptr;
    return p;
}
inline Shm* shm() {
    if (!shm_ptr()) {
        shm_ptr() = (Shm*)mmap(nullptr, sizeof(Shm), PROT_READ | PROT_WRITE, MAP_SHARED | MAP_ANONYMOUS, -1, 0);
        memset((void*)shm_ptr(), 0, sizeof(Shm));
    }
    return shm_ptr();
}
inline void label(const char* s) {
    strncpy(shm()->label, s, sizeof(shm()->label) - 1);
    shm()->label[sizeof(shm()->label) - 1] = 0;
}

inline int& out_fd() {
    static int fd = -1;
    return fd;
}
inline void emit(const std::string& s) {
    if (out_fd() < 0) return;
    size_t off = 0;
    while (off < s.size()) {
        ssize_t w = write(out_fd(), s.data() + off, s.size() - off);
        if (w <= 0) break;
        off += (size_t)w;
    }
}

struct Result {
    int kind = RETURNED;
    int sig = 0, exit_code = 0;
    std::string out, err, label;
    long long prog[8] = {0};
    double secs = 0;
};

inline double now_s() {
    timespec ts;
    clock_gettime(CLOCK_MONOTONIC, &ts);
    return ts.tv_sec + ts.tv_nsec * 1e-9;
}

// Runs f() in a forked child.  f may call fb::emit().  Exit protocol of the child:
//   0  f returned, 40 f threw std::exception (what() is emitted on stderr pipe), 41 threw something else,
//   42 std::terminate was called; anything else is classified from stderr / signal.
template<class F>
Result run(F f, double timeout_s) {
    Result r;
    shm();
    int po[2], pe[2];
    if (pipe(po) || pipe(pe)) {
        perror("pipe");
        exit(3);
    }
    fflush(nullptr);
    double t0 = now_s();
    pid_t pid = fork();
    if (pid < 0) {
        perror("fork");
        exit(3);
    }
    if (pid == 0) {
        close(po[0]);
        close(pe[0]);
        out_fd() = po[1];
        dup2(pe[1], 2);
        std::set_terminate([] { _exit(42); });
        int code = 0;
        try {
            f();
        } catch (const std::exception& e) {
            std::string w = std::string("EXC:") + e.what() + "\n";
            (void)!write(2, w.data(), w.size());
            code = 40;
        } catch (...) {
            code = 41;
        }
        _exit(code);
    }
    close(po[1]);
    close(pe[1]);
    fcntl(po[0], F_SETFL, O_NONBLOCK);
    fcntl(pe[0], F_SETFL, O_NONBLOCK);
    bool timed_out = false, eo = false, ee = false;
    char buf[65536];
    while (!(eo && ee)) {
        double left = timeout_s - (now_s() - t0);
        if (left <= 0) {
            timed_out = true;
            kill(pid, SIGKILL);
            break;
        }
        pollfd fds[2] = {{po[0], POLLIN, 0}, {pe[0], POLLIN, 0}};
        int pr = poll(fds, 2, (int)std::min(left * 1000 + 1, 200.0));
        if (pr < 0) continue;
        for (int i = 0; i < 2; ++i) {
            if (fds[i].revents & (POLLIN | POLLHUP)) {
                ssize_t n = read(fds[i].fd, buf, sizeof buf);
                if (n > 0) {
                    std::string& dst = i == 0 ? r.out : r.err;
                    if (dst.size() < (i == 0 ? (size_t)1 << 28 : (size_t)1 << 16)) dst.append(buf, (size_t)n);
                } else if (n == 0) {
                    (i == 0 ? eo : ee) = true;
                }
            }
        }
    }
    int st = 0;
    waitpid(pid, &st, 0);
    // drain
    for (int i = 0; i < 2; ++i) {
        int fd = i == 0 ? po[0] : pe[0];
        ssize_t n;
        while ((n = read(fd, buf, sizeof buf)) > 0) (i == 0 ? r.out : r.err).append(buf, (size_t)n);
        close(fd);
    }
    r.secs = now_s() - t0;
    for (int i = 0; i < 8; ++i) r.prog[i] = shm()->prog[i];
    r.label = shm()->label;
    bool san = r.err.find("ERROR: AddressSanitizer") != std::string::npos ||
               r.err.find("runtime error:") != std::string::npos ||
               r.err.find("ERROR: UndefinedBehaviorSanitizer") != std::string::npos ||
               r.err.find("AddressSanitizer:") != std::string::npos;
    if (timed_out) {
        r.kind = TIMEOUT;
    } else if (WIFSIGNALED(st)) {
        r.sig = WTERMSIG(st);
        r.kind = san ? SANITIZER : SIGNAL;
    } else {
        r.exit_code = WEXITSTATUS(st);
        if (san) r.kind = SANITIZER;
        else if (r.exit_code == 0) r.kind = RETURNED;
        else if (r.exit_code == 40 || r.exit_code == 41) r.kind = EXCEPTION;
        else if (r.exit_code == 42) r.kind = TERMINATE;
        else r.kind = BADEXIT;
    }
    return r;
}

}   // namespace fb
