// vrt.cpp - schedex runtime (engine E3); compiled WITHOUT -fsanitize=thread.  See vrt.h.
#include "vrt.h"

#include <climits>
#include <cstdio>
#include <cstdlib>
#include <cstring>
#include <dlfcn.h>
#include <linux/futex.h>
#include <malloc.h>
#include <new>
#include <pthread.h>
#include <sys/mman.h>
#include <sys/syscall.h>
#include <unistd.h>

namespace {

constexpr int MAXT = 12;   // main + up to 11 managed threads (a 9-thread scenario exists: per-thread state handed out modulo 8)
enum { RUNNABLE = 1, BLK_JOIN, BLK_MUTEX, BLK_GUARD, DONE };
enum { K_START = 0, K_OP, K_ATOMIC, K_GUARD, K_MUTEX, K_JOIN, K_END };

struct Thr {
    int id = 0;
    int state = 0;
    volatile int go = 0;
    volatile int exit_go = 0;
    uintptr_t wait_on = 0;
    uint32_t vc[MAXT] = {0};
    pthread_t pt{};
    const std::function<void()>* fn = nullptr;
    const char* op = "";
    uint64_t alloc_seq = 0;
};

Thr g_thr[MAXT];
int g_nthr = 0;
int g_cur = -1;
bool g_active = false;
__thread Thr* tl = nullptr;
__thread int tl_inrt = 0;

struct InRt {
    InRt() { ++tl_inrt; }
    ~InRt() { --tl_inrt; }
};

vrt::Outcome* g_out = nullptr;
const std::vector<int>* g_prefix = nullptr;
size_t g_choice_pos = 0;

// ------------------------------------------------------------------ futex hand-off
void fwait(volatile int* w) {
    while (__atomic_load_n(w, __ATOMIC_ACQUIRE) == 0) syscall(SYS_futex, w, FUTEX_WAIT, 0, nullptr, nullptr, 0);
    __atomic_store_n(w, 0, __ATOMIC_RELEASE);
}
void fwake(volatile int* w) {
    __atomic_store_n(w, 1, __ATOMIC_RELEASE);
    syscall(SYS_futex, w, FUTEX_WAKE, 1, nullptr, nullptr, 0);
}

// ------------------------------------------------------------------ shadow memory
struct Cell {
    uint64_t key;   // granule + 1 (0 = empty)
    uint32_t wclk, wpc;
    uint32_t rclk[MAXT];
    uint32_t rpc[MAXT];
    uint8_t rmask[MAXT];
    uint8_t wtid, wmask, raced, pad;
};
constexpr size_t NCELL = 1u << 21;
Cell* g_cells = nullptr;
size_t g_cells_used = 0;

void* xmap(size_t bytes) {
    void* p = mmap(nullptr, bytes, PROT_READ | PROT_WRITE, MAP_PRIVATE | MAP_ANONYMOUS | MAP_NORESERVE, -1, 0);
    if (p == MAP_FAILED) {
        perror("vrt mmap");
        _exit(97);
    }
    return p;
}

// granules of one 512-byte region share one 4 KiB page of the table (locality: far fewer page faults per execution)
inline size_t hgran(uint64_t g) {
    uint64_t grp = (g >> 6) * 0x9E3779B97F4A7C15ULL;
    return (size_t)((((grp >> 40) << 6) | (g & 63)) & (NCELL - 1));
}

Cell* cell_find(uint64_t gran, bool insert) {
    size_t i = hgran(gran);
    for (;;) {
        Cell& c = g_cells[i];
        if (c.key == gran + 1) return &c;
        if (c.key == 0) {
            if (!insert) return nullptr;
            if (++g_cells_used > NCELL / 2) {
                fprintf(stderr, "vrt: shadow table full\n");
                _exit(96);
            }
            c.key = gran + 1;
            return &c;
        }
        i = (i + 64) & (NCELL - 1);
    }
}

void shadow_clear(uintptr_t a, size_t n) {
    if (!g_cells || n == 0) return;
    uint64_t g0 = a >> 3, g1 = (a + n - 1) >> 3;
    if (g1 - g0 > (1u << 24)) return;
    for (uint64_t g = g0; g <= g1; ++g) {
        Cell* c = cell_find(g, false);
        if (c) {
            uint64_t k = c->key;
            uint8_t raced = c->raced;
            memset((void*)c, 0, sizeof(Cell));
            c->key = k;
            c->raced = raced;
        }
    }
}

// ------------------------------------------------------------------ allocation table (for naming only)
struct Alloc {
    uintptr_t p;
    uint32_t size;
    uint16_t tid;
    uint16_t live;
    uint64_t seq;
};
constexpr size_t NALLOC = 1u << 18;
Alloc* g_alloc = nullptr;
size_t g_nalloc = 0;

void alloc_note(void* p, size_t size) {
    Thr* t = tl;
    if (!t || !g_alloc) return;
    uint64_t seq = t->alloc_seq++;
    if (g_nalloc < NALLOC) g_alloc[g_nalloc++] = Alloc{(uintptr_t)p, (uint32_t)std::min<size_t>(size, UINT_MAX), (uint16_t)t->id, 1, seq};
}

std::string name_of(uintptr_t a) {
    char b[96];
    for (size_t i = g_nalloc; i-- > 0;) {
        const Alloc& al = g_alloc[i];
        if (a >= al.p && a < al.p + al.size) {
            snprintf(b, sizeof b, "heap(t%d#%llu,%uB)+%llu", al.tid, (unsigned long long)al.seq, al.size,
                     (unsigned long long)(a - al.p));
            return b;
        }
    }
    snprintf(b, sizeof b, "static/stack/tls 0x%llx", (unsigned long long)a);
    return b;
}

// ------------------------------------------------------------------ sync variables, mutexes, guards
struct SyncVar {
    uintptr_t addr;
    uint32_t vc[MAXT];
    int owner;   // mutex owner / guard initialiser, -1 = none
    unsigned tidmask;
};
constexpr size_t NSYNC = 1u << 14;
SyncVar* g_sync = nullptr;

SyncVar* sync_find(uintptr_t a) {
    size_t i = (size_t)((a * 0x9E3779B97F4A7C15ULL) >> 50) & (NSYNC - 1);
    for (size_t n = 0; n < NSYNC; ++n) {
        SyncVar& s = g_sync[i];
        if (s.addr == a) return &s;
        if (s.addr == 0) {
            s.addr = a;
            s.owner = -1;
            return &s;
        }
        i = (i + 1) & (NSYNC - 1);
    }
    fprintf(stderr, "vrt: sync table full\n");
    _exit(95);
}

void vc_acquire(Thr* t, const SyncVar* s) {
    for (int i = 0; i < MAXT; ++i)
        if (s->vc[i] > t->vc[i]) t->vc[i] = s->vc[i];
}
void vc_release(Thr* t, SyncVar* s) {
    for (int i = 0; i < MAXT; ++i)
        if (t->vc[i] > s->vc[i]) s->vc[i] = t->vc[i];
    ++t->vc[t->id];
}

// ------------------------------------------------------------------ scheduler
void (*g_fatal)(const vrt::Outcome&) = nullptr;

bool enabled(const Thr& t) {
    switch (t.state) {
    case RUNNABLE: return true;
    case BLK_JOIN: return g_thr[t.wait_on].state == DONE;
    case BLK_MUTEX:
    case BLK_GUARD: return sync_find(t.wait_on)->owner < 0;
    default: return false;
    }
}

// Scheduling point of the running thread `me`.  Returns when `me` is scheduled again.
// If `me` is DONE the function hands control over and returns immediately (the caller exits).
void schedule(Thr* me, int kind, uintptr_t addr = 0) {
    ++g_out->sched_points;
    int en[MAXT], n = 0;
    bool cur_en = enabled(*me);
    if (cur_en) en[n++] = me->id;
    for (int i = 0; i < g_nthr; ++i)
        if (i != me->id && enabled(g_thr[i])) en[n++] = i;
    if (n == 0) {
        bool all_done = true;
        for (int i = 0; i < g_nthr; ++i) all_done &= (g_thr[i].state == DONE || g_thr[i].state == 0);
        if (all_done) return;
        g_out->deadlock = true;
        char b[256];
        std::string info;
        for (int i = 0; i < g_nthr; ++i) {
            snprintf(b, sizeof b, "t%d:state=%d wait=0x%llx op=%s; ", i, g_thr[i].state, (unsigned long long)g_thr[i].wait_on,
                     g_thr[i].op);
            info += b;
        }
        g_out->deadlock_info = info;
        if (g_fatal) g_fatal(*g_out);
        _exit(0);
    }
    int pick = en[0];
    if (n > 1) {
        int idx = 0;
        if (g_choice_pos < g_prefix->size()) {
            idx = (*g_prefix)[g_choice_pos];
            if (idx < 0 || idx >= n) {
                g_out->diverged = true;
                if (g_fatal) g_fatal(*g_out);
                _exit(0);
            }
        }
        ++g_choice_pos;
        pick = en[idx];
        g_out->points.push_back(vrt::Point{n, cur_en ? 1 : 0, idx, pick, kind, (uint64_t)addr});
    }
    if (pick == me->id) return;
    g_cur = pick;
    fwake(&g_thr[pick].go);
    if (me->state == DONE) return;
    fwait(&me->go);
}

void* thread_main(void* arg) {
    Thr* t = (Thr*)arg;
    tl = t;
    fwait(&t->go);
    (*t->fn)();
    {
        InRt g;
        t->op = "(finished)";
        t->state = DONE;
        ++t->vc[t->id];
        schedule(t, K_END);
    }
    // stay alive until the whole execution is over: thread-exit destructors (thread_local caches) must not run
    // concurrently with threads that are still under the scheduler, and must not be attributed to this run
    fwait(&t->exit_go);
    tl = nullptr;
    return nullptr;
}

// ------------------------------------------------------------------ race detector
void race(Thr* t, Cell* c, uintptr_t a, int prev_tid, bool prev_w, uint32_t prev_pc, bool cur_w, uint32_t pc) {
    InRt g;
    if (!c->raced) {
        c->raced = 1;
        ++g_out->racy_granules;
    }
    for (auto& r : g_out->races)
        if (r.pc_prev == prev_pc && r.pc_cur == pc) return;
    if (g_out->races.size() >= 48) return;
    vrt::Race r;
    r.addr = a;
    r.pc_prev = prev_pc;
    r.pc_cur = pc;
    r.tid_prev = prev_tid;
    r.tid_cur = t->id;
    r.prev_write = prev_w;
    r.cur_write = cur_w;
    r.size = 8;
    r.where = name_of(a);
    r.op_prev = g_thr[prev_tid].op;
    r.op_cur = t->op;
    g_out->races.push_back(r);
}

inline void access1(Thr* t, uint64_t gran, uint8_t mask, bool w, uint32_t pc) {
    Cell* c = cell_find(gran, true);
    const int id = t->id;
    if (c->wclk && c->wtid != id && c->wclk > t->vc[c->wtid] && (c->wmask & mask))
        race(t, c, gran << 3, c->wtid, true, c->wpc, w, pc);
    if (w) {
        for (int u = 0; u < MAXT; ++u)
            if (u != id && c->rclk[u] > t->vc[u] && (c->rmask[u] & mask)) race(t, c, gran << 3, u, false, c->rpc[u], true, pc);
        if (c->wtid == id && c->wclk == t->vc[id]) c->wmask |= mask;
        else {
            c->wtid = (uint8_t)id;
            c->wclk = t->vc[id];
            c->wmask = mask;
        }
        c->wpc = pc;
    } else {
        if (c->rclk[id] == t->vc[id]) c->rmask[id] |= mask;
        else {
            c->rclk[id] = t->vc[id];
            c->rmask[id] = mask;
        }
        c->rpc[id] = pc;
    }
}

inline void access(uintptr_t a, size_t size, bool w, void* pcv) {
    Thr* t = tl;
    if (!t || tl_inrt || !g_active) return;
    ++g_out->accesses;
    uint32_t pc = (uint32_t)(uintptr_t)pcv;
    while (size > 0) {
        unsigned off = a & 7;
        size_t n = std::min<size_t>(size, 8 - off);
        uint8_t mask = (uint8_t)(((1u << n) - 1) << off);
        access1(t, a >> 3, mask, w, pc);
        a += n;
        size -= n;
    }
}

void sync_point(Thr* t, int kind, uintptr_t addr) {
    InRt g;
    ++g_out->sync_ops;
    sync_find(addr)->tidmask |= 1u << t->id;
    schedule(t, kind, addr);
}

}   // namespace

// ====================================================================== public API
namespace vrt {

void set_fatal(void (*cb)(const Outcome&)) { g_fatal = cb; }

void op(const char* label) {
    Thr* t = tl;
    if (!t || !g_active) return;
    InRt g;
    t->op = label;
    schedule(t, K_OP);
}

static void join(Thr* me, int i) {
    InRt g;
    while (g_thr[i].state != DONE) {
        me->state = BLK_JOIN;
        me->wait_on = (uintptr_t)i;
        schedule(me, K_JOIN);
    }
    me->state = RUNNABLE;
    for (int k = 0; k < MAXT; ++k)
        if (g_thr[i].vc[k] > me->vc[k]) me->vc[k] = g_thr[i].vc[k];
}

Outcome run(const std::function<void()>& setup, const std::vector<std::function<void()>>& threads,
            const std::vector<int>& prefix) {
    static Outcome out;
    {
        InRt g;
        if (!g_cells) g_cells = (Cell*)xmap(NCELL * sizeof(Cell));
        if (!g_alloc) g_alloc = (Alloc*)xmap(NALLOC * sizeof(Alloc));
        if (!g_sync) g_sync = (SyncVar*)xmap(NSYNC * sizeof(SyncVar));
        out = Outcome();
        g_out = &out;
        g_prefix = &prefix;
        g_choice_pos = 0;
        g_nthr = 1 + (int)threads.size();
        if (g_nthr > MAXT) {
            fprintf(stderr, "vrt: too many threads\n");
            _exit(94);
        }
        for (int i = 0; i < g_nthr; ++i) {
            g_thr[i] = Thr();
            g_thr[i].id = i;
            g_thr[i].state = (i == 0) ? RUNNABLE : 0;   // the others become runnable when they are spawned
            g_thr[i].vc[i] = 1;
        }
        g_thr[0].op = "(setup)";
        g_cur = 0;
        tl = &g_thr[0];
        g_active = true;
    }
    setup();
    Thr* me = &g_thr[0];
    {
        InRt g;
        me->op = "(main: spawn/join)";
        for (int i = 1; i < g_nthr; ++i) {
            Thr& t = g_thr[i];
            for (int k = 0; k < MAXT; ++k) t.vc[k] = std::max(t.vc[k], me->vc[k]);   // create edge
            t.vc[i] = 1;
            t.fn = &threads[(size_t)i - 1];
            t.op = "(not started)";
            t.state = RUNNABLE;
            ++me->vc[0];
            pthread_attr_t at;
            pthread_attr_init(&at);
            pthread_attr_setstacksize(&at, 8u << 20);
            if (pthread_create(&t.pt, &at, thread_main, &t) != 0) {
                perror("pthread_create");
                _exit(93);
            }
        }
        for (int i = 1; i < g_nthr; ++i) join(me, i);
        g_active = false;
        tl = nullptr;
        for (size_t k = 0; k < NSYNC; ++k)
            if (g_sync[k].addr && __builtin_popcount(g_sync[k].tidmask) >= 2) out.shared_sync.push_back(g_sync[k].addr);
        for (int i = 1; i < g_nthr; ++i) fwake(&g_thr[i].exit_go);
        for (int i = 1; i < g_nthr; ++i) pthread_join(g_thr[i].pt, nullptr);
    }
    return out;
}

}   // namespace vrt

// ====================================================================== instrumentation entry points
#define PC __builtin_return_address(0)
extern "C" {
void __tsan_init() {}
void __tsan_func_entry(void*) {}
void __tsan_func_exit() {}
void __tsan_read1(void* a) { access((uintptr_t)a, 1, false, PC); }
void __tsan_read2(void* a) { access((uintptr_t)a, 2, false, PC); }
void __tsan_read4(void* a) { access((uintptr_t)a, 4, false, PC); }
void __tsan_read8(void* a) { access((uintptr_t)a, 8, false, PC); }
void __tsan_read16(void* a) { access((uintptr_t)a, 16, false, PC); }
void __tsan_write1(void* a) { access((uintptr_t)a, 1, true, PC); }
void __tsan_write2(void* a) { access((uintptr_t)a, 2, true, PC); }
void __tsan_write4(void* a) { access((uintptr_t)a, 4, true, PC); }
void __tsan_write8(void* a) { access((uintptr_t)a, 8, true, PC); }
void __tsan_write16(void* a) { access((uintptr_t)a, 16, true, PC); }
void __tsan_unaligned_read2(void* a) { access((uintptr_t)a, 2, false, PC); }
void __tsan_unaligned_read4(void* a) { access((uintptr_t)a, 4, false, PC); }
void __tsan_unaligned_read8(void* a) { access((uintptr_t)a, 8, false, PC); }
void __tsan_unaligned_read16(void* a) { access((uintptr_t)a, 16, false, PC); }
void __tsan_unaligned_write2(void* a) { access((uintptr_t)a, 2, true, PC); }
void __tsan_unaligned_write4(void* a) { access((uintptr_t)a, 4, true, PC); }
void __tsan_unaligned_write8(void* a) { access((uintptr_t)a, 8, true, PC); }
void __tsan_unaligned_write16(void* a) { access((uintptr_t)a, 16, true, PC); }
void __tsan_read_range(void* a, unsigned long n) { access((uintptr_t)a, n, false, PC); }
void __tsan_write_range(void* a, unsigned long n) { access((uintptr_t)a, n, true, PC); }
void __tsan_vptr_update(void** a, void*) { access((uintptr_t)a, 8, true, PC); }
void __tsan_vptr_read(void** a) { access((uintptr_t)a, 8, false, PC); }
void __tsan_ignore_thread_begin() {}
void __tsan_ignore_thread_end() {}

// ---- atomics: scheduling point before the operation; happens-before according to the memory order
static inline bool mo_acq(int mo) { return mo == __ATOMIC_CONSUME || mo == __ATOMIC_ACQUIRE || mo == __ATOMIC_ACQ_REL || mo == __ATOMIC_SEQ_CST; }
static inline bool mo_rel(int mo) { return mo == __ATOMIC_RELEASE || mo == __ATOMIC_ACQ_REL || mo == __ATOMIC_SEQ_CST; }
static void atomic_pre(void* a, int mo, bool is_load, bool is_store) {
    Thr* t = tl;
    if (!t || tl_inrt || !g_active) return;
    sync_point(t, K_ATOMIC, (uintptr_t)a);
    InRt g;
    SyncVar* s = sync_find((uintptr_t)a);
    if (!is_store && mo_acq(mo)) vc_acquire(t, s);
    if (!is_load && mo_rel(mo)) vc_release(t, s);
}
#define ATOMIC_SET(T, N)                                                                                              \
    T __tsan_atomic##N##_load(const volatile T* a, int mo) {                                                         \
        atomic_pre((void*)a, mo, true, false);                                                                       \
        return __atomic_load_n(a, __ATOMIC_SEQ_CST);                                                                 \
    }                                                                                                                \
    void __tsan_atomic##N##_store(volatile T* a, T v, int mo) {                                                      \
        atomic_pre((void*)a, mo, false, true);                                                                       \
        __atomic_store_n(a, v, __ATOMIC_SEQ_CST);                                                                    \
    }                                                                                                                \
    T __tsan_atomic##N##_exchange(volatile T* a, T v, int mo) {                                                      \
        atomic_pre((void*)a, mo, false, false);                                                                      \
        return __atomic_exchange_n(a, v, __ATOMIC_SEQ_CST);                                                          \
    }                                                                                                                \
    T __tsan_atomic##N##_fetch_add(volatile T* a, T v, int mo) {                                                     \
        atomic_pre((void*)a, mo, false, false);                                                                      \
        return __atomic_fetch_add(a, v, __ATOMIC_SEQ_CST);                                                           \
    }                                                                                                                \
    T __tsan_atomic##N##_fetch_sub(volatile T* a, T v, int mo) {                                                     \
        atomic_pre((void*)a, mo, false, false);                                                                      \
        return __atomic_fetch_sub(a, v, __ATOMIC_SEQ_CST);                                                           \
    }                                                                                                                \
    T __tsan_atomic##N##_fetch_and(volatile T* a, T v, int mo) {                                                     \
        atomic_pre((void*)a, mo, false, false);                                                                      \
        return __atomic_fetch_and(a, v, __ATOMIC_SEQ_CST);                                                           \
    }                                                                                                                \
    T __tsan_atomic##N##_fetch_or(volatile T* a, T v, int mo) {                                                      \
        atomic_pre((void*)a, mo, false, false);                                                                      \
        return __atomic_fetch_or(a, v, __ATOMIC_SEQ_CST);                                                            \
    }                                                                                                                \
    T __tsan_atomic##N##_fetch_xor(volatile T* a, T v, int mo) {                                                     \
        atomic_pre((void*)a, mo, false, false);                                                                      \
        return __atomic_fetch_xor(a, v, __ATOMIC_SEQ_CST);                                                           \
    }                                                                                                                \
    int __tsan_atomic##N##_compare_exchange_strong(volatile T* a, T* c, T v, int mo, int) {                          \
        atomic_pre((void*)a, mo, false, false);                                                                      \
        return __atomic_compare_exchange_n(a, c, v, false, __ATOMIC_SEQ_CST, __ATOMIC_SEQ_CST);                      \
    }                                                                                                                \
    int __tsan_atomic##N##_compare_exchange_weak(volatile T* a, T* c, T v, int mo, int) {                            \
        atomic_pre((void*)a, mo, false, false);                                                                      \
        return __atomic_compare_exchange_n(a, c, v, false, __ATOMIC_SEQ_CST, __ATOMIC_SEQ_CST);                      \
    }                                                                                                                \
    T __tsan_atomic##N##_compare_exchange_val(volatile T* a, T c, T v, int mo, int) {                                \
        atomic_pre((void*)a, mo, false, false);                                                                      \
        __atomic_compare_exchange_n(a, &c, v, false, __ATOMIC_SEQ_CST, __ATOMIC_SEQ_CST);                            \
        return c;                                                                                                    \
    }
ATOMIC_SET(uint8_t, 8)
ATOMIC_SET(uint16_t, 16)
ATOMIC_SET(uint32_t, 32)
ATOMIC_SET(uint64_t, 64)
void __tsan_atomic_thread_fence(int) {}
void __tsan_atomic_signal_fence(int) {}

// ---- function-local static initialisation guards (Itanium ABI), modelled by the scheduler
int __cxa_guard_acquire(uint64_t* gv) {
    Thr* t = tl;
    if (!t || tl_inrt || !g_active) {
        // unmanaged phase is single-threaded in our harnesses
        if (*(volatile uint8_t*)gv) return 0;
        return 1;
    }
    sync_point(t, K_GUARD, (uintptr_t)gv);
    InRt g;
    SyncVar* s = sync_find((uintptr_t)gv);
    for (;;) {
        if (*(volatile uint8_t*)gv) {
            vc_acquire(t, s);
            return 0;
        }
        if (s->owner < 0) {
            s->owner = t->id;
            return 1;
        }
        t->state = BLK_GUARD;
        t->wait_on = (uintptr_t)gv;
        schedule(t, K_GUARD);
        t->state = RUNNABLE;
    }
}
void __cxa_guard_release(uint64_t* gv) {
    *(volatile uint8_t*)gv = 1;
    Thr* t = tl;
    if (!t || tl_inrt || !g_active) return;
    InRt g;
    SyncVar* s = sync_find((uintptr_t)gv);
    s->owner = -1;
    vc_release(t, s);
    ++g_out->sync_ops;
}
void __cxa_guard_abort(uint64_t* gv) {
    Thr* t = tl;
    if (!t || tl_inrt || !g_active) return;
    InRt g;
    sync_find((uintptr_t)gv)->owner = -1;
}

// ---- pthread mutexes of managed threads are modelled; everything else goes to libc
typedef int (*mtx_fn)(pthread_mutex_t*);
static mtx_fn real_mtx(const char* n) { return (mtx_fn)dlsym(RTLD_NEXT, n); }
int pthread_mutex_lock(pthread_mutex_t* m) {
    Thr* t = tl;
    if (!t || tl_inrt || !g_active) {
        static mtx_fn f = real_mtx("pthread_mutex_lock");
        return f(m);
    }
    sync_point(t, K_MUTEX, (uintptr_t)m);
    InRt g;
    SyncVar* s = sync_find((uintptr_t)m);
    while (s->owner >= 0 && s->owner != t->id) {
        t->state = BLK_MUTEX;
        t->wait_on = (uintptr_t)m;
        schedule(t, K_MUTEX);
        t->state = RUNNABLE;
    }
    s->owner = t->id;
    vc_acquire(t, s);
    return 0;
}
int pthread_mutex_trylock(pthread_mutex_t* m) {
    Thr* t = tl;
    if (!t || tl_inrt || !g_active) {
        static mtx_fn f = real_mtx("pthread_mutex_trylock");
        return f(m);
    }
    sync_point(t, K_MUTEX, (uintptr_t)m);
    InRt g;
    SyncVar* s = sync_find((uintptr_t)m);
    if (s->owner >= 0) return 16;   // EBUSY
    s->owner = t->id;
    vc_acquire(t, s);
    return 0;
}
int pthread_mutex_unlock(pthread_mutex_t* m) {
    Thr* t = tl;
    if (!t || tl_inrt || !g_active) {
        static mtx_fn f = real_mtx("pthread_mutex_unlock");
        return f(m);
    }
    InRt g;
    SyncVar* s = sync_find((uintptr_t)m);
    s->owner = -1;
    vc_release(t, s);
    ++g_out->sync_ops;
    schedule(t, K_MUTEX);
    return 0;
}

// ---- memory intrinsics (the TSan pass lowers llvm.mem* to plain libc calls)
void* memcpy(void* d, const void* s, size_t n) {
    if (tl && !tl_inrt && g_active && n) {
        access((uintptr_t)s, n, false, PC);
        access((uintptr_t)d, n, true, PC);
    }
    void* r = d;
    __asm__ volatile("rep movsb" : "+D"(d), "+S"(s), "+c"(n) : : "memory");
    return r;
}
void* memmove(void* d, const void* s, size_t n) {
    if (tl && !tl_inrt && g_active && n) {
        access((uintptr_t)s, n, false, PC);
        access((uintptr_t)d, n, true, PC);
    }
    void* r = d;
    if ((uintptr_t)d <= (uintptr_t)s || (uintptr_t)d >= (uintptr_t)s + n) {
        __asm__ volatile("rep movsb" : "+D"(d), "+S"(s), "+c"(n) : : "memory");
    } else {
        unsigned char* dd = (unsigned char*)d + n - 1;
        const unsigned char* ss = (const unsigned char*)s + n - 1;
        __asm__ volatile("std\n\trep movsb\n\tcld" : "+D"(dd), "+S"(ss), "+c"(n) : : "memory");
    }
    return r;
}
void* memset(void* d, int c, size_t n) {
    if (tl && !tl_inrt && g_active && n) access((uintptr_t)d, n, true, PC);
    void* r = d;
    __asm__ volatile("rep stosb" : "+D"(d), "+c"(n) : "a"(c) : "memory");
    return r;
}
}   // extern "C"

// ====================================================================== global allocation functions
static void* vnew(size_t n) {
    void* p = malloc(n ? n : 1);
    if (!p) throw std::bad_alloc();
    if (tl && !tl_inrt && g_active) {
        InRt g;
        alloc_note(p, n);
    }
    return p;
}
static void vdel(void* p) {
    if (!p) return;
    if (tl && g_active) {
        InRt g;
        shadow_clear((uintptr_t)p, malloc_usable_size(p));
    }
    free(p);
}
void* operator new(size_t n) { return vnew(n); }
void* operator new[](size_t n) { return vnew(n); }
void* operator new(size_t n, const std::nothrow_t&) noexcept {
    try {
        return vnew(n);
    } catch (...) {
        return nullptr;
    }
}
void* operator new[](size_t n, const std::nothrow_t&) noexcept {
    try {
        return vnew(n);
    } catch (...) {
        return nullptr;
    }
}
void operator delete(void* p) noexcept { vdel(p); }
void operator delete[](void* p) noexcept { vdel(p); }
void operator delete(void* p, size_t) noexcept { vdel(p); }
void operator delete[](void* p, size_t) noexcept { vdel(p); }
