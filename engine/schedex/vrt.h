// vrt.h - public interface of the schedex runtime (engine E3).
// The code under test and the harness are compiled with `clang++ -fsanitize=thread -c` (instrumentation
// only) and linked against vrt.cpp, which implements the __tsan_* entry points itself:
//   * a serialising scheduler over real threads (exactly one runs; switches only at scheduling points),
//   * a vector-clock happens-before race detector over every instrumented access,
//   * models of the blocking primitives (static-init guards, pthread mutexes, join).
#pragma once
#include <cstdint>
#include <functional>
#include <string>
#include <vector>

namespace vrt {

struct Point {          // one choice point of an execution (>= 2 enabled threads)
    int n_enabled;      // number of alternatives
    int cur_enabled;    // 1 if the running thread could have continued (choosing another one is a preemption)
    int chosen;         // index taken (0 = canonical default: keep running / lowest id)
    int tid;            // thread that was chosen
    int kind;           // reason of the point (see vrt.cpp: K_*): 0 start,1 op,2 atomic,3 guard,4 mutex,5 join,6 end
    uint64_t addr;      // address of the synchronisation variable for atomic/guard/mutex points, else 0
};

struct Race {
    uint64_t addr;
    uint32_t pc_prev, pc_cur;
    int tid_prev, tid_cur;
    int prev_write, cur_write;
    int size;
    std::string where;   // "heap(t0#12)+40", "global 0x...", ...
    std::string op_prev, op_cur;
};

struct Outcome {
    std::vector<Point> points;
    std::vector<Race> races;        // de-duplicated by (pc_prev, pc_cur), first granule each
    uint64_t racy_granules = 0;     // number of distinct racing 8-byte granules
    uint64_t accesses = 0;          // instrumented accesses seen while threads were managed
    uint64_t sync_ops = 0;          // atomics / guards / mutex operations seen
    uint64_t sched_points = 0;      // scheduling points passed (including single-alternative ones)
    std::vector<uint64_t> shared_sync;   // sync addresses operated on by >= 2 threads in this execution
    bool deadlock = false;
    bool diverged = false;          // replay prefix did not fit the execution (hard error)
    std::string deadlock_info;
};

// Run `threads` as managed threads under the scheduler, following `prefix` at choice points and the
// canonical default afterwards.  Must be called from the (unmanaged) main thread of a fresh process
// image (the explorer forks one child per execution).  `setup` runs first as managed thread 0 and may build
// shared objects; it then spawns the others and joins them.
Outcome run(const std::function<void()>& setup, const std::vector<std::function<void()>>& threads,
            const std::vector<int>& prefix);

// called (instead of returning from run) when the execution cannot continue: deadlock or replay divergence
void set_fatal(void (*cb)(const Outcome&));

// harness-level operation boundary: scheduling point + label used in race reports
void op(const char* label);

}   // namespace vrt
