// vf_fork.hpp - glue between vf::Ctx and fb::run: execute one enumerated case (usually a block of
// elementary cases) in a forked child so that a hang or a crash of the code under test is an observed
// outcome of that case instead of the end of the harness.
#pragma once
#include "forkbox.hpp"
#include "vf.hpp"

namespace vf {

struct ChildCtx {
    uint64_t evals = 0, nontriv = 0;
    void fail(const char* site, const std::string& observed, const std::string& expected, const P& detail = P()) {
        std::string d = detail.str();
        fb::emit(std::string("F\t") + site + "\t" + d + "\t" + flat(observed) + "\t" + flat(expected) + "\n");
    }
    void note(const std::string& k, long long add = 1) { fb::emit("N\t" + k + "\t" + std::to_string(add) + "\n"); }
    void worst(const std::string& k, double v) { fb::emit("W\t" + k + "\t" + num(v) + "\n"); }
    static std::string flat(std::string s) {
        for (char& c : s)
            if (c == '\t' || c == '\n') c = ' ';
        return s;
    }
    void done() { fb::emit("S\t" + std::to_string(evals) + "\t" + std::to_string(nontriv) + "\n"); }
};

struct ForkOutcome {
    fb::Result r;
    bool abnormal = false;
};

// runs f(ChildCtx&) in a child; merges its records into ctx under the current case.
// abnormal outcomes (signal, sanitizer report, timeout, terminate) are reported as violations of the
// current check with site `site`; an escaped exception is reported as well (the block bodies catch what
// they expect).  Returns the raw result for callers that want to resume after a hang.
template<class F>
ForkOutcome forked(Ctx& ctx, const char* site, double timeout_s, F f) {
    ForkOutcome o;
    o.r = fb::run(
        [&] {
            ChildCtx c;
            f(c);
            c.done();
        },
        timeout_s);
    std::istringstream in(o.r.out);
    std::string line;
    uint64_t k = 0;
    while (std::getline(in, line)) {
        std::vector<std::string> t;
        size_t a = 0;
        while (true) {
            size_t b = line.find('\t', a);
            if (b == std::string::npos) {
                t.push_back(line.substr(a));
                break;
            }
            t.push_back(line.substr(a, b - a));
            a = b + 1;
        }
        if (t[0] == "F" && t.size() >= 5) {
            P d;
            d.s = t[2].size() >= 2 ? t[2].substr(1, t[2].size() - 2) : "";
            ctx.fail(t[1].c_str(), t[3], t[4], d);
        } else if (t[0] == "N" && t.size() >= 3) {
            ctx.note(t[1], atoll(t[2].c_str()));
        } else if (t[0] == "W" && t.size() >= 3) {
            ctx.worst(t[1], atof(t[2].c_str()));
        } else if (t[0] == "S" && t.size() >= 3) {
            uint64_t ev = strtoull(t[1].c_str(), nullptr, 10), nt = strtoull(t[2].c_str(), nullptr, 10);
            ctx.evaluations += ev ? ev - 1 : 0;   // the block itself was already counted by take()
            ctx.checks[ctx.cur_check].evals += ev ? ev - 1 : 0;
            for (uint64_t i = 0; i < nt; ++i) ctx.nontrivial_key(mix(ctx.cur_hash, ++k));
        }
    }
    if (o.r.kind != fb::RETURNED) {
        o.abnormal = true;
        std::string tail = o.r.err.size() > 600 ? o.r.err.substr(0, 600) : o.r.err;
        ctx.fail(site,
                 fmt("%s (signal %d, exit %d, %.1fs) at %s progress=%lld; stderr: %s", fb::kind_name(o.r.kind), o.r.sig,
                     o.r.exit_code, o.r.secs, o.r.label.c_str(), o.r.prog[0], tail.c_str()),
                 "call returns or throws a C++ exception within the time limit",
                 P().kv("outcome", fb::kind_name(o.r.kind)).kv("at", (long long)o.r.prog[0]).kv("label", o.r.label));
    }
    return o;
}

}   // namespace vf
