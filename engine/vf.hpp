// vf.hpp - common machinery of the bounded-exhaustive harnesses (engines E1/E2).
//
// A harness enumerates a finite space of cases in a fixed order.  For every case it calls
//     if (!ctx.take("check.id", P().kv("n", n)...)) continue;
// which (a) assigns the case to one of the parallel shards by its ordinal number, (b) in replay
// mode selects exactly the recorded case, (c) stops handing out cases after the deadline (the
// run is then reported as capped, never as failed).  Violations are recorded with ctx.fail().
// Nothing here draws random numbers: the same command enumerates the same cases.
#pragma once
#include <algorithm>
#include <chrono>
#include <cinttypes>
#include <cmath>
#include <complex>
#include <cstdarg>
#include <cstdint>
#include <cstdio>
#include <cstdlib>
#include <cstring>
#include <functional>
#include <map>
#include <set>
#include <sstream>
#include <string>
#include <unordered_set>
#include <vector>

namespace vf {

using ld = long double;
using cld = std::complex<long double>;
static const ld PI_L = 3.14159265358979323846264338327950288L;
static const double EPS = 2.220446049250313e-16;

// ---------------------------------------------------------------- small JSON helpers
inline std::string jesc(const std::string& s) {
    std::string o;
    for (char c : s) {
        if (c == '"' || c == '\\') {
            o += '\\';
            o += c;
        } else if (c == '\n') {
            o += "\\n";
        } else if ((unsigned char)c < 0x20) {
            char b[8];
            snprintf(b, sizeof b, "\\u%04x", c);
            o += b;
        } else {
            o += c;
        }
    }
    return o;
}

inline std::string num(double v) {
    if (std::isnan(v)) return "\"nan\"";
    if (std::isinf(v)) return v > 0 ? "\"inf\"" : "\"-inf\"";
    char b[40];
    snprintf(b, sizeof b, "%.17g", v);
    return b;
}

// ordered key/value list rendered as a JSON object; the rendering is the identity of a case
struct P {
    std::string s;
    P& raw(const char* k, const std::string& v) {
        s += s.empty() ? "" : ",";
        s += "\"";
        s += k;
        s += "\":";
        s += v;
        return *this;
    }
    P& kv(const char* k, long long v) { return raw(k, std::to_string(v)); }
    P& kv(const char* k, int v) { return raw(k, std::to_string(v)); }
    P& kv(const char* k, unsigned v) { return raw(k, std::to_string(v)); }
    P& kv(const char* k, unsigned long v) { return raw(k, std::to_string(v)); }
    P& kv(const char* k, long v) { return raw(k, std::to_string(v)); }
    P& kv(const char* k, bool v) { return raw(k, v ? "1" : "0"); }
    P& kv(const char* k, double v) { return raw(k, num(v)); }
    P& kv(const char* k, const char* v) { return raw(k, "\"" + jesc(v) + "\""); }
    P& kv(const char* k, const std::string& v) { return raw(k, "\"" + jesc(v) + "\""); }
    template<class T>
    P& list(const char* k, const std::vector<T>& v) {
        std::string o = "[";
        for (size_t i = 0; i < v.size(); ++i) {
            if (i) o += ",";
            o += num((double)v[i]);
        }
        return raw(k, o + "]");
    }
    std::string str() const { return "{" + s + "}"; }
};

inline uint64_t fnv(const std::string& s, uint64_t h = 1469598103934665603ULL) {
    for (unsigned char c : s) {
        h ^= c;
        h *= 1099511628211ULL;
    }
    return h;
}

inline uint64_t mix(uint64_t h, uint64_t v) {
    h ^= v + 0x9e3779b97f4a7c15ULL + (h << 6) + (h >> 2);
    return h * 0xff51afd7ed558ccdULL;
}

// ---------------------------------------------------------------- run context
struct CheckStat {
    uint64_t evals = 0, viol = 0, stored = 0;
    std::vector<std::string> samples;
};

struct Ctx {
    std::string property, tier = "quick", out;
    int shard = 0, nshards = 1;
    double deadline_s = 1e18;
    bool replay = false;
    std::string r_check, r_params;
    bool replay_hit = false;

    uint64_t caseno = 0, evaluations = 0, violations = 0;
    std::unordered_set<uint64_t> nontriv, states;
    uint64_t transitions = 0, traces = 0;
    std::map<std::string, CheckStat> checks;
    std::map<std::string, long long> notes;   // coverage histograms / counters
    std::map<std::string, double> maxes;      // worst-case margins observed
    std::set<std::string> caps;
    std::vector<std::string> viol_records;
    std::string cur_check, cur_params;
    uint64_t cur_hash = 0;
    std::chrono::steady_clock::time_point t0 = std::chrono::steady_clock::now();
    bool expired = false;

    bool quick() const { return tier != "thorough"; }
    bool thorough() const { return tier == "thorough"; }
    double elapsed() const {
        return std::chrono::duration<double>(std::chrono::steady_clock::now() - t0).count();
    }
    uint64_t deadline_polls = 0;   // per-shard counter (caseno advances for foreign cases too: with 16 shards only one of them would ever poll)
    bool out_of_time() {
        if (!expired && (++deadline_polls & 63) == 0 && elapsed() > deadline_s) {
            expired = true;
            caps.insert("deadline");
        }
        return expired;
    }

    void parse(int argc, char** argv, const char* prop) {
        property = prop;
        for (int i = 1; i < argc; ++i) {
            std::string a = argv[i];
            auto nx = [&]() -> std::string { return (i + 1 < argc) ? argv[++i] : ""; };
            if (a == "--tier") tier = nx();
            else if (a == "--shard") {
                std::string s = nx();
                sscanf(s.c_str(), "%d/%d", &shard, &nshards);
            } else if (a == "--out") out = nx();
            else if (a == "--deadline-s") deadline_s = atof(nx().c_str());
            else if (a == "--replay-check") {
                replay = true;
                r_check = nx();
            } else if (a == "--replay-params") {
                replay = true;
                r_params = nx();
            }
        }
    }

    // does case ordinal `idx` belong to this shard?  (for harnesses that shard by hand)
    bool mine(uint64_t idx) const { return replay || (int)(idx % (uint64_t)nshards) == shard; }

    // cheap pre-filter so that expensive per-group set-up can be skipped for foreign checks in replay mode
    bool wants(const char* check) const { return !replay || r_check == check; }

    bool take(const char* check, const P& p) {
        uint64_t idx = caseno++;
        if (replay) {
            if (r_check != check) return false;
            std::string ps = p.str();
            if (ps != r_params) return false;
            replay_hit = true;
            begin(check, ps);
            return true;
        }
        if ((int)(idx % (uint64_t)nshards) != shard) return false;
        if (out_of_time()) return false;
        begin(check, p.str());
        return true;
    }

    void begin(const char* check, const std::string& ps) {
        cur_check = check;
        cur_params = ps;
        cur_hash = fnv(ps, fnv(cur_check));
        ++evaluations;
        CheckStat& cs = checks[cur_check];
        ++cs.evals;
        if (cs.evals <= 2 || ((cs.evals & (cs.evals - 1)) == 0 && cs.samples.size() < 10)) {
            if (cs.samples.size() < 10) cs.samples.push_back(ps);
        }
    }

    // mark the current case as non-trivial (rule stated by the harness)
    void nontrivial() { nontriv.insert(cur_hash); }
    void nontrivial_key(uint64_t k) { nontriv.insert(k); }
    void state(uint64_t h) { states.insert(h); }
    void note(const std::string& k, long long add = 1) { notes[k] += add; }
    void worst(const std::string& k, double v) {
        auto it = maxes.find(k);
        if (it == maxes.end() || v > it->second) maxes[k] = v;
    }
    void cap(const std::string& what) { caps.insert(what); }

    // detail: extra key/values (e.g. the failing element inside a block case) usable by KNOWN_FINDINGS predicates
    void fail(const char* site, const std::string& observed, const std::string& expected, const P& detail = P()) {
        fail_as(cur_check.c_str(), site, cur_params, observed, expected, detail);
    }
    void fail_as(const char* check, const char* site, const std::string& params, const std::string& observed,
                 const std::string& expected, const P& detail = P()) {
        ++violations;
        CheckStat& cs = checks[check];
        ++cs.viol;
        if (cs.stored >= 400) return;
        ++cs.stored;
        std::string r = "{\"property\":\"" + property + "\",\"check\":\"" + check + "\",\"site\":\"" + site +
                        "\",\"params\":" + params + ",\"params_str\":\"" + jesc(params) + "\",\"detail\":" + detail.str() + ",\"observed\":\"" + jesc(observed) + "\",\"expected\":\"" +
                        jesc(expected) + "\"}";
        viol_records.push_back(r);
    }

    int finish() {
        FILE* f = out.empty() ? stdout : fopen(out.c_str(), "w");
        if (!f) {
            perror("out");
            return 3;
        }
        fprintf(f, "{\"property\":\"%s\",\"tier\":\"%s\",\"shard\":%d,\"nshards\":%d,\n", property.c_str(),
                tier.c_str(), shard, nshards);
        fprintf(f, "\"evaluations\":%" PRIu64 ",\"distinct_nontrivial\":%zu,\"violations\":%" PRIu64 ",\n",
                evaluations, nontriv.size(), violations);
        fprintf(f, "\"states\":%zu,\"transitions\":%" PRIu64 ",\"traces\":%" PRIu64 ",\n", states.size(),
                transitions, traces);
        fprintf(f, "\"elapsed_s\":%.3f,\"replay_hit\":%d,\n", elapsed(), replay_hit ? 1 : 0);
        fprintf(f, "\"caps\":[");
        bool first = true;
        for (auto& c : caps) {
            fprintf(f, "%s\"%s\"", first ? "" : ",", jesc(c).c_str());
            first = false;
        }
        fprintf(f, "],\n\"checks\":{");
        first = true;
        for (auto& kv : checks) {
            fprintf(f, "%s\n \"%s\":{\"evaluations\":%" PRIu64 ",\"violations\":%" PRIu64 ",\"samples\":[",
                    first ? "" : ",", kv.first.c_str(), kv.second.evals, kv.second.viol);
            for (size_t i = 0; i < kv.second.samples.size(); ++i)
                fprintf(f, "%s%s", i ? "," : "", kv.second.samples[i].c_str());
            fprintf(f, "]}");
            first = false;
        }
        fprintf(f, "},\n\"notes\":{");
        first = true;
        for (auto& kv : notes) {
            fprintf(f, "%s\"%s\":%lld", first ? "" : ",", jesc(kv.first).c_str(), kv.second);
            first = false;
        }
        fprintf(f, "},\n\"worst\":{");
        first = true;
        for (auto& kv : maxes) {
            fprintf(f, "%s\"%s\":%s", first ? "" : ",", jesc(kv.first).c_str(), num(kv.second).c_str());
            first = false;
        }
        fprintf(f, "},\n\"violation_records\":[");
        for (size_t i = 0; i < viol_records.size(); ++i) fprintf(f, "%s\n%s", i ? "," : "", viol_records[i].c_str());
        fprintf(f, "]}\n");
        if (f != stdout) fclose(f);
        return 0;
    }
};

// ---------------------------------------------------------------- deterministic data letters
// fixed LCG "dense" letter: values in (-1, 1); the same (tag, i) always gives the same value
inline double lcg_val(uint64_t tag, uint64_t i) {
    uint64_t z = (tag * 0x9E3779B97F4A7C15ULL) ^ (i + 0x632BE59BD9B4E019ULL);
    z = (z ^ (z >> 30)) * 0xBF58476D1CE4E5B9ULL;
    z = (z ^ (z >> 27)) * 0x94D049BB133111EBULL;
    z = z ^ (z >> 31);
    return ((double)(z >> 11) / 9007199254740992.0) * 2.0 - 1.0;
}

// white gaussian-like deterministic letter (sum of 4 uniforms, variance normalised), for "white signal" uses
inline double lcg_gauss(uint64_t tag, uint64_t i) {
    double s = 0;
    for (int k = 0; k < 4; ++k) s += lcg_val(tag * 4 + k + 1000003ULL, i);
    return s * 0.8660254037844386;   // var(uniform(-1,1)) = 1/3, 4 of them -> 4/3
}

// ---------------------------------------------------------------- long-double references
inline cld cis(ld ang) { return cld(cosl(ang), sinl(ang)); }

// exp(-2*pi*i*(a*b mod n)/n) with the product reduced exactly
inline cld twid(long long ab, long long n, int sign = -1) {
    long long r = ab % n;
    if (r < 0) r += n;
    return cis(sign * 2 * PI_L * (ld)r / (ld)n);
}

inline std::vector<cld> dft_ref(const std::vector<cld>& x, int sign = -1) {
    const long long n = (long long)x.size();
    std::vector<cld> tw(n);
    for (long long k = 0; k < n; ++k) tw[k] = twid(k, n, sign);
    std::vector<cld> X(n);
    for (long long k = 0; k < n; ++k) {
        cld acc = 0;
        long long idx = 0;
        for (long long m = 0; m < n; ++m) {
            acc += x[m] * tw[idx];
            idx += k;
            if (idx >= n) idx -= n;
        }
        X[k] = acc;
    }
    return X;
}

inline ld l2(const std::vector<cld>& v) {
    ld s = 0;
    for (auto& z : v) s += std::norm(z);
    return sqrtl(s);
}

inline ld l2diff(const std::vector<cld>& a, const std::vector<cld>& b) {
    ld s = 0;
    for (size_t i = 0; i < a.size(); ++i) s += std::norm(a[i] - b[i]);
    return sqrtl(s);
}

inline bool finite_all(const std::vector<cld>& v) {
    for (auto& z : v)
        if (!std::isfinite((double)z.real()) || !std::isfinite((double)z.imag())) return false;
    return true;
}

inline std::string fmt(const char* f, ...) __attribute__((format(printf, 1, 2)));
inline std::string fmt(const char* f, ...) {
    char b[1024];
    va_list ap;
    va_start(ap, f);
    vsnprintf(b, sizeof b, f, ap);
    va_end(ap);
    return b;
}

template<class V>
inline std::string show(const V& v, size_t maxn = 12) {
    std::ostringstream o;
    o.precision(17);
    o << "[";
    for (size_t i = 0; i < (size_t)v.size() && i < maxn; ++i) o << (i ? "," : "") << v[i];
    if ((size_t)v.size() > maxn) o << ",...(" << v.size() << ")";
    o << "]";
    return o.str();
}

// bit pattern equality for doubles (distinguishes -0 from 0, equal NaNs compare equal)
inline bool biteq(double a, double b) { return std::memcmp(&a, &b, sizeof a) == 0; }

}   // namespace vf

#ifdef VF_WITH_DSPLIB
#include <dsplib.h>
namespace vf {
inline std::vector<cld> to_cld(const dsplib::arr_cmplx& a) {
    std::vector<cld> v(a.size());
    for (int i = 0; i < a.size(); ++i) v[i] = cld(a[i].re, a[i].im);
    return v;
}
inline std::vector<cld> to_cld(const dsplib::arr_real& a) {
    std::vector<cld> v(a.size());
    for (int i = 0; i < a.size(); ++i) v[i] = cld(a[i], 0);
    return v;
}
inline dsplib::arr_cmplx to_arr(const std::vector<cld>& v) {
    dsplib::arr_cmplx a((int)v.size());
    for (size_t i = 0; i < v.size(); ++i) a[(int)i] = dsplib::cmplx_t((double)v[i].real(), (double)v[i].imag());
    return a;
}
inline dsplib::arr_real to_arr_real(const std::vector<cld>& v) {
    dsplib::arr_real a((int)v.size());
    for (size_t i = 0; i < v.size(); ++i) a[(int)i] = (double)v[i].real();
    return a;
}
inline bool bitsame(const dsplib::arr_real& a, const dsplib::arr_real& b) {
    return a.size() == b.size() && (a.size() == 0 || std::memcmp(a.data(), b.data(), a.size() * sizeof(double)) == 0);
}
inline bool bitsame(const dsplib::arr_cmplx& a, const dsplib::arr_cmplx& b) {
    return a.size() == b.size() &&
           (a.size() == 0 || std::memcmp(a.data(), b.data(), a.size() * sizeof(dsplib::cmplx_t)) == 0);
}
inline std::string showc(const dsplib::arr_cmplx& a, int maxn = 8) {
    std::ostringstream o;
    o.precision(12);
    o << "[";
    for (int i = 0; i < a.size() && i < maxn; ++i) o << (i ? "," : "") << a[i].re << (a[i].im < 0 ? "" : "+") << a[i].im << "i";
    if (a.size() > maxn) o << ",...(" << a.size() << ")";
    o << "]";
    return o.str();
}
}   // namespace vf
#endif

// ---- access to private members that a refactored tree may have renamed or removed (harnesses built with
// -fno-access-control use them only for evidence such as state counts): VF_TRY(obj, expression using `o`, default)
// evaluates the expression if it compiles for the object's type and yields the default otherwise.
namespace vf {
inline bool& private_state_missing() {
    static bool b = false;
    return b;
}
template<class T, class F, class D>
auto try_member(T& t, F f, D, int) -> decltype(f(t)) {
    return f(t);
}
template<class T, class F, class D>
D try_member(T&, F, D d, long) {
    private_state_missing() = true;
    return d;
}
}   // namespace vf
#define VF_TRY(obj, expr, dflt) ::vf::try_member(obj, [&](auto& o) -> decltype(expr) { return expr; }, dflt, 0)
