#!/bin/sh
# build the repository the way the baseline does (guard off) and run its 175 gtest cases
set -e
R=${VERIF_REPO:-/repo}
cmake --build $R/_build 2>&1 | tail -2
cd $R/_build/tests && ./dsplib-test 2>&1 | grep -E "^\[  (PASSED|FAILED)|tests ran|FAILED" | head -20
