#!/bin/sh
# Build the repository the way the baseline does (cmake/ninja in $R/_build, verification guard OFF: the
# DSPLIB_VERIF define is never passed by cmake) and run its 175 gtest cases.  Exit status = test status.
R=${VERIF_REPO:-/repo}
cmake --build $R/_build 2>&1 | tail -2 || exit 2
cd $R/_build/tests || exit 2
./dsplib-test --gtest_output=xml:/tmp/dsplib-baseline.junit.xml > /tmp/dsplib-baseline.log 2>&1
rc=$?
grep -E "^\[  (PASSED|FAILED)|tests ran|FAILED" /tmp/dsplib-baseline.log | head -20
exit $rc
