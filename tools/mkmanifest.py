#!/usr/bin/env python3
"""regenerate MANIFEST.json from tools/props.py (single source of truth for the registered checks)"""
import json, os, subprocess, sys
sys.path.insert(0, os.path.dirname(os.path.abspath(__file__)))
import props
V = os.path.dirname(os.path.dirname(os.path.abspath(__file__)))
ids = [json.loads(l)["id"] for l in open(os.path.join(V, "properties.jsonl"))]
hooks = subprocess.run(["git", "-C", "/repo", "log", "--format=%H %s"], capture_output=True, text=True).stdout.splitlines()
hook_commits = [l.split()[0] for l in hooks if "verif hook" in l]
checks, na = [], []
for i in ids:
    c = props.PROPS.get(i)
    if not c or c.get("unclaimed"):
        na.append({"property_id": i, "reason": (c or {}).get("unclaimed", "check under construction in this round; not yet claimed")})
        continue
    checks.append({
        "property_id": i,
        "quick_cmd": "python3 tools/check.py %s --tier quick" % i,
        "thorough_cmd": "python3 tools/check.py %s --tier thorough" % i,
        "evidence_file": "evidence/%s.json" % i,
        "replay_cmd_template": "python3 tools/check.py %s --replay {path}" % i,
        "engine": c.get("engine", "bex"),
        "level_claimed": {"category": c["level"], "text": c["claim"], "design_ref": "DESIGN.md section 4 / %s" % i},
        "level_note": c["note"],
        "technique": c["technique"],
    })
m = {
    "version": 1,
    "setup_cmd": "python3 tools/vbuild.py --setup",
    "hooks": {
        "guard": "DSPLIB_VERIF",
        "enable": "tools/vbuild.py compiles /repo/lib/**/*.cpp directly with -DDSPLIB_VERIF (no cmake); hooks: prime trial-division counter (lib/primes.cpp), LRUCache::keys() (lib/lru-cache.h), plan-cache key accessors (lib/fft/fft.cpp)",
        "baseline_off_cmd": "sh tools/baseline.sh",
        "source_commits": hook_commits,
        "add_only": True,
    },
    "engines": [
        {"name": "bex", "path": "engine/vf.hpp", "serves_properties": [i for i in ids if props.PROPS.get(i, {}).get("engine", "bex") == "bex" and i in props.PROPS],
         "kind_free_text": "E1 bounded-exhaustive enumeration of input shapes / parameter tuples on the real code, long-double reference models"},
        {"name": "hist", "path": "engine/vf.hpp", "serves_properties": [i for i in ids if props.PROPS.get(i, {}).get("engine") == "hist"],
         "kind_free_text": "E2 exhaustive exploration of operation histories / framings / request sequences on real objects, state canonicalisation"},
        {"name": "schedex", "path": "engine/schedex/", "serves_properties": [i for i in ids if props.PROPS.get(i, {}).get("engine") == "schedex"],
         "kind_free_text": "E3 preemption-bounded scheduler + vector-clock race detector as own runtime behind clang's TSan instrumentation"},
        {"name": "forkbox", "path": "engine/forkbox.hpp", "serves_properties": [i for i in ids if props.PROPS.get(i, {}).get("engine") == "forkbox"],
         "kind_free_text": "E4 forked child per case with watchdog under ASan+UBSan; outcome classification"},
    ],
    "checks": checks,
    "not_applicable": na,
    "notes": "All checks rebuild the library from /repo's working tree (tools/vbuild.py). KNOWN_FINDINGS.txt lists open/fixed findings. See DESIGN.md.",
}
json.dump(m, open(os.path.join(V, "MANIFEST.json"), "w"), indent=1)
print("checks:", [c["property_id"] for c in checks], "not_applicable:", [n["property_id"] for n in na])
