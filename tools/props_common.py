COMMON_ASSUME = [
    "default configuration only: real_t=double, exceptions on, x86-64, libstdc++, NDEBUG (as shipped)",
    "library rebuilt from the working tree of $VERIF_REPO (default /repo) by tools/vbuild.py, no cmake",
    "nothing is sampled: VERIF_SEED is recorded but does not influence the enumerated space",
]
