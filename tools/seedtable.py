#!/usr/bin/env python3
"""regenerate the table of DESIGN.md section 7 from seeded/*/meta.json and seeded/FIRST_RUN.json"""
import glob, json, os, re
V = os.path.dirname(os.path.dirname(os.path.abspath(__file__)))
first = json.load(open(os.path.join(V, "seeded", "FIRST_RUN.json")))
rows = ["| seed | what it needs to manifest | caught by (quick tier, patch applied to /repo) | first run |", "|---|---|---|---|"]
n = caught = 0
for mp in sorted(glob.glob(os.path.join(V, "seeded", "C*", "meta.json"))):
    m = json.load(open(mp))
    k = os.path.basename(os.path.dirname(mp))
    det = []
    for c, r in sorted(m.get("results", {}).items()):
        if r["exit"] == 1 and r["violation_lines"] > 0:
            chk = re.search(r"check=(\S+)", r.get("first", ""))
            det.append("%s (%s)" % (c.split("/")[0], chk.group(1) if chk else "violation"))
    n += 1
    caught += bool(det)
    rows.append("| %s | %s | %s | %s |" % (k, m.get("needs_to_manifest", "").replace("|", "\\|"), ", ".join(det) if det else "**not caught**", first.get(k, "caught")))
rows.append("")
rows.append("%d of %d seeded changes are caught by the registered quick checks as of this revision; the others are explained in their rows (C17-F and C10-V: not violations of the statements as we read them; C08-T: made harmless by the repair feff992 of the genuine defect it exploited)." % (caught, n))
p = os.path.join(V, "DESIGN.md")
s = open(p).read()
a = s.index("(`seeded/<id>-<X>/meta.json` has the commands")
a = s.index("\n\n", a) + 2
s = s[:a] + "\n".join(rows) + "\n"
open(p, "w").write(s)
print(rows[-1])
