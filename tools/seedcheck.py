#!/usr/bin/env python3
"""seedcheck.py <Cxx> <A|B> [--tier quick] [--checks Cxx,Cyy]
Validate one seeded change produced by an independent sub-agent (in /tmp/seeds/wt-<id>/seed_out) and run our checks on it:
 1. in the agent's scratch worktree: apply the diff, build, run the repository's 175 tests (must pass), build+run the demo (must fail),
    revert, rebuild, demo must pass;
 2. apply the diff to /repo, run the property's check(s), undo it straight afterwards (git checkout -- .);
 3. store /verif/seeded/<id>-<X>/{patch.diff, demo.cpp, meta.json}.
"""
import json, os, shutil, subprocess, sys, time

V = "/verif"


def sh(cmd, cwd=None, timeout=3600):
    p = subprocess.run(cmd, shell=True, cwd=cwd, stdout=subprocess.PIPE, stderr=subprocess.STDOUT, text=True, timeout=timeout)
    return p.returncode, p.stdout


def main():
    pid, x = sys.argv[1], sys.argv[2]
    tier = "quick"
    checks = [pid]
    for i, a in enumerate(sys.argv):
        if a == "--tier": tier = sys.argv[i + 1]
        if a == "--checks": checks = sys.argv[i + 1].split(",")
    skip_validate = "--skip-validate" in sys.argv
    wt = "/tmp/seeds/wt-%s" % pid
    so = os.path.join(wt, "seed_out")
    diff = os.path.join(so, "%s.diff" % x)
    demo = os.path.join(so, "demo_%s.cpp" % x)
    meta = {"property": pid, "change": x, "validated_at": time.strftime("%Y-%m-%d %H:%M:%S")}
    outdir = os.path.join(V, "seeded", "%s-%s" % (pid, x))
    if os.path.exists(os.path.join(outdir, "meta.json")):
        meta = json.load(open(os.path.join(outdir, "meta.json")))
        skip_validate = skip_validate or meta.get("validated", False)
        if os.path.exists(os.path.join(outdir, "patch.diff")):
            diff = os.path.join(outdir, "patch.diff")   # the stored (possibly rebased) patch wins
    apply_cmd = "git -C /repo apply %s"
    rc, o = sh("git -C /repo apply --check %s" % diff)
    if rc != 0:
        rc, o = sh("git -C /repo apply --3way --check %s" % diff)   # /repo moved on (later fix: commits): merge the change
        if rc != 0:
            print("patch does not apply to /repo HEAD:", o[:500]); return 2
        apply_cmd = "git -C /repo apply --3way %s && git -C /repo reset -q || (git -C /repo reset -q --hard HEAD; false)"
        meta["applied_with_3way_merge"] = True
    if not skip_validate:
        sh("git checkout -- include lib", cwd=wt)
        rc, o = sh("git apply %s" % diff, cwd=wt)
        if rc: print("apply in wt failed", o); return 2
        rc, o = sh("cmake --build _build 2>&1 | tail -3 && cd _build/tests && ./dsplib-test 2>&1 | tail -3", cwd=wt)
        tests_ok = "[  PASSED  ] 175 tests." in o and "FAILED" not in o
        meta["tests_with_change"] = o.strip().splitlines()[-1] if o.strip() else ""
        gpp = "g++ -std=c++17 -O2 -DNDEBUG -I%s/include -I%s/lib -I%s/_build %s %s/_build/libdsplib.a -lpthread -o %s/demo_%s" % (wt, wt, wt, demo, wt, so, x)
        rc, o1 = sh(gpp, cwd=so)
        rc_with, o_with = sh("./demo_%s 2>&1 | tail -5" % x + "; exit ${PIPESTATUS[0]}", cwd=so, timeout=600) if rc == 0 else (None, o1)
        rc_with, o_with = sh("bash -c './demo_%s > demo_out_with.txt 2>&1; echo rc=$?'" % x, cwd=so, timeout=900)
        sh("git checkout -- include lib", cwd=wt)
        rc, o = sh("cmake --build _build 2>&1 | tail -1", cwd=wt)
        sh(gpp, cwd=so)
        rc_wo, o_wo = sh("bash -c './demo_%s > demo_out_without.txt 2>&1; echo rc=$?'" % x, cwd=so, timeout=900)
        meta["demo_with_change"] = o_with.strip()
        meta["demo_without_change"] = o_wo.strip()
        meta["validated"] = bool(tests_ok and "rc=0" not in o_with and "rc=0" in o_wo)
        print("validation: tests_ok=%s demo_with=%s demo_without=%s => %s" % (tests_ok, o_with.strip(), o_wo.strip(), meta["validated"]))
        if not meta["validated"]:
            json.dump(meta, open("/tmp/seeds/%s-%s.rejected.json" % (pid, x), "w"), indent=1)
            return 3
    # ---- run our checks against /repo with the change applied
    rc, o = sh("git -C /repo status --porcelain --untracked-files=no")
    if o.strip():
        print("/repo has local modifications, refusing:", o); return 2
    env = "VERIF_EVIDENCE_DIR=%s/build/seed-evidence VERIF_REPLAY_DIR=%s/build/seed-replays " % (V, V)
    results = meta.get("results", {})
    try:
        rc0, o0 = sh(apply_cmd % diff)
        if rc0 != 0:
            print("apply failed:", o0[:300]); return 2
        for c in checks:
            t0 = time.time()
            rc, o = sh(env + "python3 tools/check.py %s --tier %s" % (c, tier), cwd=V, timeout=7200)
            viol = [l for l in o.splitlines() if l.startswith("VIOLATION")]
            first = [l for l in o.splitlines() if l.strip().startswith("check=")]
            results["%s/%s" % (c, tier)] = {"exit": rc, "violation_lines": len(viol), "first": (first[0].strip()[:400] if first else ""),
                                            "wall_s": round(time.time() - t0, 1)}
            print("%s %s: exit=%d violations=%d %s" % (c, tier, rc, len(viol), first[0].strip()[:300] if first else ""))
    finally:
        sh("git -C /repo checkout -- .")
    meta["results"] = results
    meta["detected"] = any(r["exit"] == 1 and r["violation_lines"] > 0 for r in results.values())
    os.makedirs(outdir, exist_ok=True)
    if os.path.abspath(diff) != os.path.abspath(os.path.join(outdir, "patch.diff")):
        shutil.copy(diff, os.path.join(outdir, "patch.diff"))
    if os.path.exists(demo):
        shutil.copy(demo, os.path.join(outdir, "demo.cpp"))
    readme = os.path.join(so, "README.md")
    if os.path.exists(readme):
        shutil.copy(readme, os.path.join(outdir, "AGENT_README.md"))
    json.dump(meta, open(os.path.join(outdir, "meta.json"), "w"), indent=1)
    return 0


if __name__ == "__main__":
    sys.exit(main())
