#!/bin/sh
# apply_fix.sh <patch> <commit message>: apply a repair to /repo, run the baseline suite, commit if green else revert
set -e
P=$1; MSG=$2
cd /repo
git apply --check "$P"
git apply "$P"
git diff --stat | tail -3
if /verif/tools/baseline.sh | tee /tmp/apply_fix.out | grep -q "PASSED  \] 175 tests"; then
  if grep -q FAILED /tmp/apply_fix.out; then echo "TESTS FAILED"; cat /tmp/apply_fix.out; git checkout -- .; exit 1; fi
  git commit -qam "$MSG"; echo "COMMITTED $(git log --format=%h -1)"
else
  echo "TESTS NOT GREEN"; cat /tmp/apply_fix.out | tail -20; git checkout -- .; exit 1
fi
