#!/usr/bin/env python3
"""Build $VERIF_REPO (default /repo) directly from its working tree, without cmake.

Every check calls build_lib(variant): the library sources are hashed (content of
include/, lib/, cmake/defs.h.in + flags); an archive for that hash is reused if it
exists, otherwise all lib/**/*.cpp are compiled in parallel.  Nothing is taken from
/repo/_build.  Harness binaries are keyed by (harness source hash, engine hash, lib hash).
"""
import fcntl
import hashlib
import os
import re
import shutil
import subprocess
import sys
import time
from concurrent.futures import ThreadPoolExecutor

VERIF = os.path.dirname(os.path.dirname(os.path.abspath(__file__)))
BUILD = os.environ.get("VERIF_BUILD_DIR") or os.path.join(VERIF, "build")
GUARD = "DSPLIB_VERIF"

VARIANTS = {
    # same optimisation/NDEBUG setting as the shipped RelWithDebInfo baseline
    "rel": dict(cxx="g++", flags=["-O2", "-DNDEBUG"], link=[]),
    "asan": dict(cxx="clang++",
                 flags=["-O1", "-g", "-DNDEBUG", "-fsanitize=address,undefined",
                        "-fno-sanitize-recover=undefined", "-fno-omit-frame-pointer"],
                 link=["-fsanitize=address,undefined"]),
    # compile-time TSan instrumentation only; linked against engine/schedex/vrt.cpp
    "vtsan": dict(cxx="clang++", flags=["-O1", "-g", "-DNDEBUG", "-fsanitize=thread"], link=[]),
    "tsan": dict(cxx="clang++", flags=["-O1", "-g", "-DNDEBUG", "-fsanitize=thread"],
                 link=["-fsanitize=thread"]),
}


# gcc (the repository's compiler) accepts some constructs with a warning that clang rejects; keep the clang builds as lenient
CLANG_LENIENT = ["-Wno-c++11-narrowing", "-Wno-error=c++11-narrowing", "-Wno-everything"]


def repo():
    return os.environ.get("VERIF_REPO", "/repo")


def _files(root, sub, exts):
    out = []
    for d, _, fs in os.walk(os.path.join(root, sub)):
        for f in fs:
            if f.endswith(exts):
                out.append(os.path.join(d, f))
    return sorted(out)


def tree_hash(extra=""):
    r = repo()
    h = hashlib.sha256()
    for p in _files(r, "include", (".h",)) + _files(r, "lib", (".h", ".cpp")) + [os.path.join(r, "cmake/defs.h.in"),
                                                                                  os.path.join(r, "CMakeLists.txt")]:
        h.update(os.path.relpath(p, r).encode())
        with open(p, "rb") as f:
            h.update(hashlib.sha256(f.read()).digest())
    h.update(extra.encode())
    return h.hexdigest()[:16]


def gen_defs(dst_dir):
    """cmake/defs.h.in -> dsplib/defs.h (default configuration: exceptions on, float64)."""
    r = repo()
    ver = "0.0.0"
    m = re.search(r"project\(dsplib[^)]*VERSION\s+([0-9.]+)", open(os.path.join(r, "CMakeLists.txt")).read())
    if m:
        ver = m.group(1)
    parts = (ver.split(".") + ["0", "0", "0"])[:3]
    txt = open(os.path.join(r, "cmake/defs.h.in")).read()
    txt = re.sub(r"#cmakedefine\s+(\w+)", r"/* #undef \1 */", txt)
    txt = txt.replace("@CMAKE_PROJECT_VERSION@", ver)
    txt = txt.replace("@CMAKE_PROJECT_VERSION_MAJOR@", parts[0])
    txt = txt.replace("@CMAKE_PROJECT_VERSION_MINOR@", parts[1])
    txt = txt.replace("@CMAKE_PROJECT_VERSION_PATCH@", parts[2])
    os.makedirs(os.path.join(dst_dir, "dsplib"), exist_ok=True)
    with open(os.path.join(dst_dir, "dsplib", "defs.h"), "w") as f:
        f.write(txt)


class Lock:
    def __init__(self, path):
        self.path = path

    def __enter__(self):
        os.makedirs(os.path.dirname(self.path), exist_ok=True)
        self.f = open(self.path, "w")
        fcntl.flock(self.f, fcntl.LOCK_EX)

    def __exit__(self, *a):
        fcntl.flock(self.f, fcntl.LOCK_UN)
        self.f.close()


def _run(cmd):
    p = subprocess.run(cmd, stdout=subprocess.PIPE, stderr=subprocess.STDOUT, text=True)
    if p.returncode != 0:
        sys.stderr.write("BUILD FAILED: %s\n%s\n" % (" ".join(cmd), p.stdout[-6000:]))
        raise SystemExit(2)
    return p.stdout


def _prune(parent, keep=6):
    """keep only the most recent build dirs per variant prefix under parent (disk is limited)."""
    try:
        groups = {}
        for d in os.listdir(parent):
            full = os.path.join(parent, d)
            if os.path.isdir(full) and ".tmp" not in d:
                groups.setdefault(d.split("-")[0], []).append(full)
        for ds in groups.values():
            ds.sort(key=lambda d: os.path.getmtime(d), reverse=True)
            for d in ds[keep:]:
                shutil.rmtree(d, ignore_errors=True)
    except OSError:
        pass


def build_lib(variant="rel", cache_size=4, extra_flags=()):
    """returns dict(dir, lib, inc flags, cxx, cflags, ldflags, hash)"""
    v = VARIANTS[variant]
    r = repo()
    flags = ["-std=c++17", "-D%s" % GUARD, "-DDSPLIB_FFT_CACHE_SIZE=%d" % cache_size] + v["flags"] + list(extra_flags)
    if v["cxx"].startswith("clang"):
        flags += CLANG_LENIENT
    key = "%s-%s" % (variant, tree_hash(" ".join([v["cxx"]] + flags)))
    parent = os.path.join(BUILD, "lib")
    d = os.path.join(parent, key)
    lib = os.path.join(d, "libdsplib.a")
    with Lock(os.path.join(BUILD, "locks", "lib-" + key)):
        if not os.path.exists(lib):
            tmp = d + ".tmp%d" % os.getpid()
            shutil.rmtree(tmp, ignore_errors=True)
            os.makedirs(tmp)
            gen_defs(tmp)
            srcs = _files(r, "lib", (".cpp",))
            inc = ["-I" + os.path.join(r, "include"), "-I" + os.path.join(r, "lib"), "-I" + tmp]
            objs = []
            jobs = []
            for s in srcs:
                o = os.path.join(tmp, os.path.relpath(s, r).replace("/", "_") + ".o")
                objs.append(o)
                jobs.append([v["cxx"]] + flags + inc + ["-c", s, "-o", o])
            with ThreadPoolExecutor(16) as ex:
                list(ex.map(_run, jobs))
            _run(["ar", "rcs", os.path.join(tmp, "libdsplib.a")] + objs)
            for o in objs:
                os.unlink(o)
            shutil.rmtree(d, ignore_errors=True)
            os.rename(tmp, d)
            _prune(parent, keep=12)
        else:
            os.utime(d)
    inc = ["-I" + os.path.join(r, "include"), "-I" + os.path.join(r, "lib"), "-I" + d]
    return dict(dir=d, lib=lib, inc=inc, cxx=v["cxx"], cflags=flags, ldflags=v["link"], key=key)


def _hash_files(paths):
    h = hashlib.sha256()
    for p in paths:
        with open(p, "rb") as f:
            h.update(f.read())
    return h.hexdigest()[:16]


def build_harness(src, libinfo, extra_srcs=(), extra_flags=(), name=None, link_lib=True, extra_link=()):
    """compile harness src (+ engine headers) against the library; returns path of binary."""
    eng = _files(VERIF, "engine", (".hpp", ".h", ".cpp"))
    key = _hash_files([src] + list(extra_srcs) + eng) + "-" + libinfo["key"] + "-" + hashlib.sha256(
        " ".join(list(extra_flags) + list(extra_link)).encode()).hexdigest()[:8]
    name = name or os.path.splitext(os.path.basename(src))[0]
    parent = os.path.join(BUILD, "h", name)
    d = os.path.join(parent, key)
    exe = os.path.join(d, name)
    with Lock(os.path.join(BUILD, "locks", "h-" + name + key)):
        if not os.path.exists(exe):
            os.makedirs(d, exist_ok=True)
            comp = [libinfo["cxx"]] + libinfo["cflags"] + list(extra_flags) + libinfo["inc"] + \
                ["-I" + os.path.join(VERIF, "engine")]
            if libinfo["key"].startswith("vtsan-"):
                # instrumentation at compile time only: link WITHOUT -fsanitize=thread (own runtime in extra_link)
                _run(comp + ["-c", src, "-o", exe + ".o"])
                cmd = [libinfo["cxx"], exe + ".o", "-o", exe + ".tmp"]
            else:
                cmd = comp + [src] + list(extra_srcs) + ["-o", exe + ".tmp"]
            if link_lib:
                cmd += [libinfo["lib"]]
            cmd += libinfo["ldflags"] + list(extra_link) + ["-lpthread"]
            _run(cmd)
            os.rename(exe + ".tmp", exe)
            _prune(parent, keep=6)
        else:
            os.utime(d)
    return exe


def build_vrt():
    """engine/schedex/vrt.cpp compiled WITHOUT thread-sanitizer instrumentation (it is the runtime)."""
    src = os.path.join(VERIF, "engine", "schedex", "vrt.cpp")
    key = _hash_files([src, os.path.join(VERIF, "engine", "schedex", "vrt.h")])
    d = os.path.join(BUILD, "vrt")
    obj = os.path.join(d, "vrt-%s.o" % key)
    with Lock(os.path.join(BUILD, "locks", "vrt")):
        if not os.path.exists(obj):
            os.makedirs(d, exist_ok=True)
            for f in os.listdir(d):
                os.unlink(os.path.join(d, f))
            _run(["clang++", "-std=c++17", "-O2", "-g", "-fno-builtin", "-c", src, "-o", obj + ".tmp"])
            os.rename(obj + ".tmp", obj)
    return obj


if __name__ == "__main__":
    if "--setup" in sys.argv:
        t = time.time()
        os.makedirs(BUILD, exist_ok=True)
        for tool in ("g++", "clang++", "ar"):
            if not shutil.which(tool):
                print("missing tool", tool)
                sys.exit(1)
        info = build_lib("rel")
        print("setup ok: %s (%.1fs)" % (info["lib"], time.time() - t))
    else:
        for v in sys.argv[1:]:
            print(build_lib(v)["lib"])
