import os
import subprocess
import sys
import time

from props_common import COMMON_ASSUME

sys.path.insert(0, os.path.dirname(os.path.dirname(os.path.abspath(__file__))))


def _vrt_link():
    import vbuild
    return [vbuild.build_vrt(), "-no-pie", "-ldl"]


def _free_run_tsan(tier):
    """auxiliary pass (thorough only): the same scenario bodies free-running on std::thread under stock TSan.
    A sample, not the deciding step; a TSan report is still a violation. Returns a synthetic shard result."""
    import vbuild
    lib = vbuild.build_lib("tsan")
    src = os.path.join(vbuild.VERIF, "harness", "C09_threads.cpp")
    exe = vbuild.build_harness(src, lib, extra_flags=["-DVF_WITH_DSPLIB", "-DVRT_FREE_RUN"], name="C09_threads_freerun")
    iters = 200
    t0 = time.time()
    env = dict(os.environ)
    env["TSAN_OPTIONS"] = "halt_on_error=0:report_thread_leaks=0:exitcode=66"
    p = subprocess.run(["setarch", "-R", exe, str(iters)], stdout=subprocess.PIPE, stderr=subprocess.PIPE, text=True, env=env, timeout=3000)
    if p.returncode not in (0, 66) and "unexpected memory mapping" in p.stderr:
        p = subprocess.run([exe, str(iters)], stdout=subprocess.PIPE, stderr=subprocess.PIPE, text=True, env=env, timeout=3000)
    recs = []
    nrep = p.stderr.count("WARNING: ThreadSanitizer: data race")
    if nrep or p.returncode == 66:
        first = p.stderr[p.stderr.find("WARNING: ThreadSanitizer"):][:1500].replace('"', "'")
        recs.append({"property": "C09", "check": "tsan.freerun", "site": "stock-tsan", "params": {"iterations": iters},
                     "params_str": '{"iterations":%d}' % iters, "detail": {"reports": nrep},
                     "observed": "%d ThreadSanitizer data-race reports in the free-running pass; first: %s" % (nrep, first),
                     "expected": "no report"})
    elif p.returncode != 0:
        return {"crash": True, "rc": p.returncode, "cmd": exe, "log": (p.stdout + p.stderr)[-2000:], "pass": "tsan-freerun"}
    return {"pass": "tsan-freerun", "evaluations": iters, "distinct_nontrivial": 0, "states": 0, "transitions": 0, "traces": 0,
            "checks": {"tsan.freerun": {"evaluations": iters, "violations": len(recs), "samples": ['{"iterations":%d}' % iters]}},
            "notes": {"tsan free-run seconds": int(time.time() - t0)}, "worst": {}, "caps": [], "violation_records": recs}


def driver(pid, cfg, tier, seed, replay_rec, deadline):
    import check
    import tempfile
    import shutil
    import vbuild
    t0 = time.time()
    os.makedirs(vbuild.BUILD, exist_ok=True)
    workdir = tempfile.mkdtemp(prefix="run-C09-", dir=vbuild.BUILD)
    pas = dict(name="main", variant="vtsan", extra_link=_vrt_link, shards=16)
    if replay_rec is not None and replay_rec.get("check") == "tsan.freerun":
        results = [_free_run_tsan(tier)]
        results[0]["replay_hit"] = 1
    else:
        results = []
        if replay_rec is None or replay_rec.get("check") != "thread.lifetime":
            results += check.run_pass(pid, cfg, pas, tier, replay_rec, deadline, workdir)
        if replay_rec is None or replay_rec.get("check") == "thread.lifetime":
            results += check.run_pass(pid, cfg, dict(name="lifetime", variant="rel", harness="C09_lifetime.cpp", shards=16),
                                      tier, replay_rec, deadline, workdir)
        if tier == "thorough" and replay_rec is None:
            results.append(_free_run_tsan(tier))
    rc = check.finalize(pid, cfg, tier, seed, results, time.time() - t0, replay_rec)
    shutil.rmtree(workdir, ignore_errors=True)
    return rc


PROP = dict(
    harness="C09_threads.cpp",
    level="model_checking",
    engine="schedex",
    driver=driver,
    technique="stateless model checking of the real code: own preemption-bounded scheduler (iterative context bounding, one forked "
              "execution per schedule) behind clang's TSan instrumentation + vector-clock happens-before race detector on every access",
    claim="for each of 46 two/three/four-thread scenarios (every plan kind shared; free functions hitting and evicting the per-thread plan "
          "caches; function-local statics; per-thread RNG; distinct stateful objects; big lengths >= 4096) every schedule with at most 2 preemptions (of which "
          "at most 1 at an atomic operation in the quick tier, 2 in thorough; thorough raises the total to 3) over all scheduling points "
          "(thread start/end, operation boundaries, atomics, static-init guards, mutexes, join) is executed on the implementation; in every "
          "execution every instrumented load/store/memcpy is checked for happens-before races, results are compared bit-for-bit with the "
          "single-threaded run, every operation must leave the floating-point control state of its thread (MXCSR rounding / FTZ / DAZ, x87 control word) unchanged, and deadlock is detected. A second harness enumerates every thread-LIFETIME history (threads started and joined one after "
          "another, nested, interleaved with main-thread use; 35-letter event alphabet, length <= 3, thorough 4) in fresh processes: "
          "every program run by a fresh thread must return what it returns in a fresh single-threaded process. "
          "Exhaustive within these bounds; says nothing beyond them.",
    note="sequentially consistent interleavings at the scheduling points; weak-memory effects only via the race detector (any unsynchronised "
         "conflicting pair is reported, which is the condition under which SC reasoning is sound). Accesses inside uninstrumented "
         "libstdc++.so/libc code are visible only through the interposed memcpy/memmove/memset/operator new/delete. Partial-order "
         "reduction: preemption alternatives right before atomics on addresses that only one thread ever operates on are parked (counted in "
         "the evidence) and explored only if the address is later seen to be shared. For a scenario whose root execution has > 1000 choice points (a 6000-point shared composite plan: ~6000 reference-count operations) preemptions at atomics are taken only right before the first and the last operation of a library call on each synchronisation address (stated as a note in the evidence).",
    rule="case = one complete execution (schedule) of a scenario in a forked child; all executions are distinct schedules and non-trivial "
         "(>= 2 managed threads running real library code); states = scenarios + distinct result vectors observed; transitions = scheduling "
         "decisions taken at choice points + executions; traces_validated_against_impl = executions (each IS a run of the implementation)",
    bounds=dict(quick="48 scenarios; total preemptions <= 2 (1 for the long free-function mixes), at atomics <= 1; plan objects built in a thread that exits, used later from main and new threads (10 plan kinds x 5 histories x 3 users); thread-lifetime histories: all sequences of <= 3 events over {S(p), M(p), O(p,q)} x 5 programs (43k histories with a thread)",
                thorough="48 scenarios; total preemptions <= 3 (2 for the long mixes), at atomics <= 2 (1 for scenarios whose root execution has > 150 choice points); thread-lifetime histories as quick plus all length-4 sequences over S/M; plus 200 free-running iterations under stock TSan (auxiliary sample)"),
    deadline=dict(quick=200, thorough=2400),
    mc_note="no separate model: every explored schedule is an execution of the implementation under the schedex runtime; a failing schedule is replayed once more before it is reported",
    assumptions=COMMON_ASSUME + [
        "clang -fsanitize=thread instrumentation is complete for the library and harness translation units",
        "a schedule that stalls for 30 s is re-run alone with a 300 s limit; a reproducible stall is reported as inconclusive (cap), not as a violation",
    ],
)
