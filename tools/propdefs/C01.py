from props_common import COMMON_ASSUME

PROP = dict(
    harness="C01_fft.cpp",
    level="exploration",
    engine="bex",
    technique="bounded-exhaustive enumeration of transform lengths (each its own plan tree) x entry points x a finite letter alphabet "
              "with closed-form transforms (all unit impulses = whole matrix for small n) + O(n^2) long-double DFT oracle",
    claim="every length in the stated set is run through every forward entry point (fft complex/real, rfft, FftPlan/FftPlanR solve(array), "
          "solve(pointers), operator(), fft(x,n'), czt/CztPlan) on every letter of the stated alphabet and compared with the exact DFT under the "
          "property's 32*n*eps relative-l2 bound; for n <= 256 (quick 64) the impulse letters determine the complete transform matrix. "
          "Exhaustive within the bound (lengths, letters, resize targets, czt grid), silent outside it; nothing is sampled.",
    note="the transform is linear with data-independent control flow, so the impulse alphabet pins the matrix for n <= 256; above that the "
         "alphabet (boundary / split-position impulses and tones, 5 closed-form dense letters) is a finite witness set, not a proof for all inputs. "
         "Trusts the long-double closed forms (cross-checked against the O(n^2) oracle by the dense letter sharing the same comparison code).",
    rule="a case is a block (check, n, input domain) or (czt: n, m, w); evaluations = library results compared with the oracle. "
         "Non-trivial = block with n >= 2 (every block then contains at least one letter with a non-constant spectrum, e.g. an impulse at m >= 1, "
         "a tone, the dense letter). Plan kinds / factor-tree shapes reached are listed in path_histogram (one count per block).",
    bounds=dict(
        quick="lengths: every n in 1..512 plus 61 listed lengths in (512, 2^17] (primes at 2^k, 2p, p^2, p^3, 3^k, 5^k, 7^k, 2^k*p, highly composite, "
              "pq, 131071, 131072); entry points: all 9 forward entry points per letter; letters: impulses and bin-centred tones at every index for "
              "n <= 64, else at {0,1,2,n/2-1,n/2,n/2+1,n-2,n-1} + top-level split positions {P,Q,P+1} of the length and of the half length; constant, "
              "alternating, geometric |r|=1 and |r|=1-4/n, 1e+150/1e-150; dense letter with O(n^2) oracle for n <= 256; fft(x,n')/rfft(x,n'): every "
              "n' in 1..2n for n <= 64 (dense letter + 2 impulses), n' in {1,n-1,n,n+1,2n} above (geometric letter + 2 impulses); czt: n <= 16, "
              "m in 1..2n, 12 w = exp(-2 pi i p/q) (incl. 1/m), a in {0.5,1,2} x 4 angles plus exactly real a in {-1,-0.5,-2,-1.25,0.5,2,1.25} and exactly imaginary a = +-i*{1,0.5,2} (25 values), 3 letters. "
              "Quick only, listed lengths above 512: impulses/tones at {1, n/2+1, n-1, P, Q, P+1 (+ half-length split)}, entry points fft(x) and "
              "plan.solve(array) only, resize targets {n-1, n+1}. "
              "BIG SIZES in quick: all 61 listed lengths are above 512, 60 above 4096 and 19 above 65536 (up to 131072) for fft/rfft/FftPlan/FftPlanR "
              "solve(array); the complete 9-entry-point set (operator(), pointer solve, rfft) with the full position set at n in {4099, 8192, 10000, "
              "65537, 65538, 100000, 131072}; fft(x,n')/rfft(x,n') pad a 100- and a 500-sample input to n' in {4099, 65537, 100000}, truncate "
              "131072 / 100000 samples to {4097, 70001}, and n' = n+-1 for every listed n (up to 131073); czt.big: (n,m) in {(5000,7),(7,5000),"
              "(4097,4097),(70000,3),(3,70000)} x 3 w x a in {1, -1, 0.6+0.8i, -(1+32/n), i/(1+32/n)} x {dense, impulse@n-1} against the double sum; czt.nearroot: w with angle 2*pi*j/base*(1+d) "
              "(not a root of unity), base in {n, m}, j in {1, 3, base-1}, d in {+-1e-8, +-1e-10, +-1e-12, +-4eps}, (n,m) in {16,64,100,257,1000}^2 "
              "diagonal + (16,31),(64,63),(64,65),(100,17),(48,96),(257,300),(1000,999), a in {1,-1,0.6+0.8i,0.5e^0.7i}, oracle = double sum "
              "with the actual double w; czt.amag: n in {540, 600, 1026, 1100, 2000} x m in {5, n} x w in {1/m, 7/100} x |a| in {0.5, 0.6, 1.5, 2} x "
              "angle in {0 exactly, pi exactly, 0.7, pi/2 exactly}: result finite and within the usual tolerance (+ an underflow floor of "
              "4*sqrt(m)*n*DBL_MIN); skipped (counted) only where |a|^-(n-1)*n*n2 exceeds 2^1000, i.e. the sum itself leaves the double range",
        thorough="as quick (no light mode: every listed length gets all entry points and positions) with every n in 1..12288, 46 + 45 listed "
                 "lengths above 12288 (adds n around 46341 where n*n overflows int, primes / 2*prime around 65536 and 46349, 100003, 251*521, "
                 "p^4, 29^3..43^3, round composites 15000..128000), all impulses/tones for n <= 256, dense oracle for n <= 2048, czt.def n <= 48, "
                 "czt.big adds n in {64,100,127,128,255,256,257,500,1000,1024,2047,4096,5000} x m in {1,17,n-1,n,n+1,2n} and (8192,8192), "
                 "(10000,9999), (131072,5), (5,131072), (65537,64), (64,65537), (46341,3); czt.nearroot adds (32,32),(128,128),(500,500),(2048,2048),(4096,4096),(1000,2000),(4099,64),(64,4099)"),
    deadline=dict(quick=150, thorough=3000),
    assumptions=COMMON_ASSUME + [
        "real-input vs complex-input agreement and conjugate symmetry are judged at 64*n*eps relative l2 (what two results within 32*n*eps of the "
        "exact DFT imply), not bit equality",
        "czt 'same kind of accuracy' is read weakly: l2 error <= 32*(n2+max(m,n)^2)*eps*sqrt(m)*sum_j|x_j a^-j| with n2 the internal power-of-two "
        "convolution length (never smaller than the literal 32*n*eps*||X||_2); w^(jk) is evaluated as exp(i*j*k*arg(w)) for the double w passed",
        "czt is only given |w| = 1 to double rounding (the statement's domain); for |w| = 1 + 1e-12 the defining sum contains |w|^(jk) and "
        "legitimately differs from an angle-only evaluation by j*k*1e-12, so such w are not generated",
        "where the reference transform is exactly zero (impulse removed by truncation) the result must be exactly zero",
    ],
)
