from props_common import COMMON_ASSUME

PROP = dict(
    harness="C07_fir_xcorr.cpp",
    level="exploration",
    engine="bex",
    technique="bounded-exhaustive enumeration of (coefficient length, coefficient letter, input length, input letter) on the real "
              "FirFilter<T>/FftFilter/xcorr/MAFilter started from rest; long-double defining sums as oracle",
    claim="every coefficient length 2..64 (and 9 lengths up to 1024 around powers of two), every unit-impulse coefficient vector "
          "(nh <= 64), symmetric / sparse / dense letters, real and complex, every input length across three FFT blocks (nh <= 16) "
          "resp. the block-boundary lengths and 10^5, every impulse position (nh <= 16); xcorr for every length pair up to 48x48 with "
          "every impulse pair (the whole bilinear map) plus dense letters and 7 large pairs; MAFilter n = 1..64, 100, 1000. "
          "Exhaustive within the bound, silent outside it.",
    note="trusts the long-double sums of the harness; tolerances are rounding bounds (a wrong tap, lag, conjugate or block offset is "
         "orders of magnitude above them)",
    rule="a case is one (filter kind, nh, coefficient letter, input length) resp. (n1, n2) resp. (n, len); inside it every input letter "
         "(all impulse positions for nh <= 16, boundary positions above, dense LCG, 1e+-100 two-level) is filtered by FirFilter and "
         "FftFilter from rest and every output sample compared with sum_k conj(c[k]) x[i-k]; xcorr cases evaluate all n1*n2 impulse "
         "pairs with complex and real weights and dense letters against sum_n a[n+lag] conj(b[n]); a 'fftfilter.seq' case is one (real/complex, nh) with all call sequences x streams inside (always non-trivial); non-trivial = the case contains an "
         "evaluation whose coefficient vector and input both have >= 2 non-zero elements (FIR), n1, n2 >= 2 (xcorr), n, len >= 2 (MAFilter)",
    bounds=dict(
        quick="FIR real+complex: nh 1..64 (nh = 1: a one-tap filter is a gain; FirFilter and FftFilter both accept it) and {100,127,128,129,255,256,257,512,1024}; coefficient letters: every delta_j (nh<=64; ends only "
              "above), symmetric, sparse, dense (complex: rotated per tap); input lengths 0..3*block+2 (nh<=16), else {0,1,block-1,block,"
              "block+1,2*block,3*block+1,20000} (the 20000 length only with end taps/sym/sparse/dense); inputs: all impulse positions "
              "(nh<=16) or 8 boundary positions, LCG, 1e+-100; FirFilter multi-call (real+complex, dense coefficients, one object from rest): nh in {1,2,3,4,5,8,16,17,31,32,33,64,100,257}, streams {LCG, impulse at 0, impulse at nh}, all sequences of 3 calls with frame lengths in {0,1,2,nh-1,nh,nh+1,30,64} (<= 512) plus 3 longer alternating sequences: every call returns len samples equal to the defining sum over the stream fed so far (direct-form tolerance); FftFilter multi-call (real+complex, dense coefficients, from rest): every nh 1..64 and the 9 large nh, streams {LCG, impulse at 0, impulse at block}, all 216 sequences of 3 calls with lengths in {1,block-1,block,block+1,2block,2block+3} plus [r,block,block,2block-r] for r 1..min(block-1,8): after each call floor(fed/block_size)*block_size samples emitted, all equal to the defining sum (FFT tolerance) and to FirFilter on the concatenated input; LARGE DYNAMIC RANGE (check 'fir.burst'): direct FirFilter::process and FirFilter::conv, real+complex, dense taps, nh in {256,257,512}, ONE call of 16nh, 18nh+5, 20nh samples of unit noise with a single sample of 1e8 / 1e12, or three samples of 1e100 in 1e-100 noise, at positions nh/2, 5nh+3, len-2nh: every output within the PER-SAMPLE bound (nh+8)*eps*sum_k|c[k]||x[i-k]|; RETUNING (check 'firfilter.retune'): FirFilterR/FirFilterC with nh in {1,2,3,5,8,16,33}; (h0,h1) in {zeros->dense, dense->zeros, leading-zero->dense, trailing-zero->dense, dense->leading/trailing-zero, dense<->sparse, end tap->other end (both ways), dense->dense*2^-60, dense*2^200->dense}; h1 installed through the non-const coeffs() by whole-array assignment and by element-wise writes, (a) before any processing, (b) mid-stream after 2 frames with h0, (c) h0 installed back; streams LCG and impulse at 0; every output against the sum of the taps in force over the true input history; coeffs() const read-back; SCALE INVARIANCE (check 'scale'): FirFilter::process, FirFilter::conv, FftFilter::process (real+complex, nh in {1,2,3,8,17,64,129}, input 3*block+1 LCG samples), xcorr(a,b) for 5 length pairs up to (100,129)/(300,7), xcorr(a) n in {5,16,33,129,300}, MAFilter n in {1,2,7,16,64,129}; first operand letters dense, sparse, nearly symmetric (symmetric + 1e-3 antisymmetric), single tap at either end; operands scaled by 2^ec, 2^ex with ec, ex in {0,-60,-200,-600,+200} (all 24 combinations whose product stays within 2^-850..2^800; xcorr also 2^+-600 against 2^-+600 and 2^400 against 2^-600): output scaled back must meet the unit-scale a-priori bound and, for |ec+ex| <= 700, equal the unit-scale output times 2^(ec+ex) bit for bit; BIG SIZES (both tiers): FirFilter and FftFilter, real+complex, dense coefficients with nh = 33, 4097 and 5000 taps on ONE frame of 70000 samples (dense LCG input and an impulse at input index 65536; FFT length up to 16384, 6 blocks); FirFilter<T>::conv with operands 70000x9, 9999x5000 and 4097x4097 (every output against the direct sum); xcorr dense letters for (70000,9), (9,70000), (5000,5000), (65536,2), (65537,1) (every lag against the direct sum), auto-correlation n=5000; MAFilter n in {7,100,1000,4097} over 70000 samples (LCG and 1e+100-burst letters); xcorr all (n1,n2) in 1..16^2 x all impulse pairs + dense, 12 large pairs "
              "up to (70000,9), auto-correlation n 1..16 + 6 large; MAFilter n 1..64,100,1000, lengths 0..3n+2 (n<=16) or 8 boundary lengths up to 5n+3, real and complex, array and scalar "
              "overload, letters impulse, LCG, constant, 1e+-100 alternating, 1e+100 burst followed by 1e-100",
        thorough="FIR real+complex: every nh 1..128 with every delta_j plus {129,255,256,257,512,1024,2048} (end taps), symmetric, sparse, dense; every "
                 "input length 0..3*block+2 with every impulse position for nh <= 32, else the 7 block-boundary lengths and one input of 10^5 samples "
                 "for every coefficient letter (nh > 96: delta_j only for j in {0,1,nh/2,nh-2,nh-1}); big sizes as quick; FirFilter multi-call: 23 nh in 1..257, all 4096 sequences of 4 calls over "
                 "{0,1,2,nh-1,nh,nh+1,30,64}; FftFilter multi-call: nh 1..128 and the 7 large nh, all 729 sequences of 3 calls over {1,2,block-1,block,"
                 "block+1,2block-1,2block,2block+3,3block} plus [r,block,block,2block-r]; xcorr all (n1,n2) in 1..96^2 x all impulse pairs + dense, "
                 "the 12 large pairs, auto n 1..96 + 6 large; MAFilter n 1..128 and 1000 (every length 0..3n+2 for n <= 32) + the big cases; scale invariance with 14 nh / 14 xcorr pairs up to (1000,1000) / 12 auto lengths / 13 MAFilter n"),
    deadline=dict(quick=150, thorough=3000),
    assumptions=COMMON_ASSUME + [
        "'to rounding accuracy': direct form |err_i| <= eps*max(8*|c|2*|x|2, (nh+8)*sum_k|c_k||x_(i-k)|); FFT forms (FftFilter, xcorr) "
        "|err_i| <= 64*log2(fft_len)*eps*|c|2*|x|2 (global norms: low-level parts of the 1e+-100 letter are only required to be finite and "
        "within that bound); MAFilter |err_i| <= (2n+8)*eps/n*sum_{k<2n}|x[i-k]| (running sum re-accumulated every n samples)",
        "scale invariance: power-of-two scaling of an operand commutes with every rounding of a threshold-free linear computation, so bit-identical scaled outputs are demanded in addition to the (scale-free) rounding bound; this is sharper than the statement and is kept because the unchanged tree satisfies it at every entry point (an absolute threshold, floor or flush inside the computation breaks it)",
        "taps written through the public non-const FirFilter::coeffs() (same length) are coefficient vectors in the sense of the statement; after a mid-stream change the output is the sum of the new taps over the true past input (the delay line of the unchanged tree stores input samples); FftFilter has no setter",
        "nh = 1 is in scope ('for every coefficient vector'): FirFilter with one tap threw from process() on the pinned tree (fixed: /repo 350d4c0, fixes/C07-firfilter-single-tap.patch); FftFilter(h) with one tap works (fft length 2, block 2) and is checked like any other nh",
        "the statement holds the direct filter ('FirFilter ... to rounding accuracy for every coefficient vector and input', 'large-dynamic-range content') to a bound on each sample's own terms: in check fir.burst |err_i| <= (nh+8)*eps*sum_k|c[k]||x[i-k]| alone (met by every double dot product in any order); FftFilter keeps its block-level bound 64*log2(N)*eps*|c|2*|x|2",
        "real filters are fed real inputs and complex filters complex inputs (mixed FftFilter overloads are not claimed by the statement)",
        "one process() call from rest per FIR case; FirFilter (changing frame lengths) and FftFilter additionally over short call sequences (pending samples, aligned/unaligned frames); general framing invariance is property C06",
        "'in multiples of its block size' is read with the size FftFilter::block_size() reports (output length floor(len/bs)*bs); the "
        "enumerated input lengths are placed around 2^nextpow2(2*nh)-nh+1, the block size of the pinned implementation",
    ],
)
