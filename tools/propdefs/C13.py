from props_common import COMMON_ASSUME

PROP = dict(
    harness="C13_spectrum.cpp",
    level="exploration",
    engine="bex",
    technique="bounded-exhaustive enumeration of (nfft, window, window length, overlap, signal length, input kind, scaling, overload) tuples "
              "and of tone frequencies (4 per bin) on the real welch / mscohere; own time-domain segmentation and exact long-double Welch estimate",
    claim="every tuple of the stated grids is executed on the implementation: sizes, non-negativity, frequency axis, density-scaling power "
          "identity against the harness's own segmentation (1e-10), power-scaled peak of bin-centred tones (1e-9), label of the peak for "
          "every tone on a quarter-bin grid (real and complex), coherence range and unity for scaled copies. No sampling. Exhaustive within "
          "the bound, silent outside it (other nfft, window parameters, off-grid frequencies, noise-like signals other than the fixed letters).",
    note="trusts the harness's segmentation rule (floor((N-winlen)/stride)+1 full segments, remainder ignored) and its long-double DFT; a tone "
         "case is judged only when the exact Welch estimate itself has a clear peak at the nearest bin (label) / no image leakage (peak value)",
    rule="a case is one (check, parameter tuple). Non-trivial = the windowing or the segmentation matters (>= 2 segments or a non-rectangular "
         "window), a tone case that the exact estimate makes decidable, every coherence case, every expected-rejection case",
    bounds=dict(
        quick="welch grid: nfft {8,16,32,64,256,1024,4096}; for nfft<=32 every window length 2..nfft and every overlap 0..winlen-1, above "
              "winlen {nfft/4,nfft/2,nfft-1,nfft} x overlap {0,1,winlen/2,winlen-1}; 10 windows (rect, hamming, hann, kaiser 5, blackman, "
              "blackmanharris, cosine, gauss 2.5, tukey 0.5, periodic hann; 4 for nfft>256); signal lengths winlen+j*stride+r, j in {0,1,3}, "
              "r in {0,stride-1}; real and complex; density sum (Psd) and shape (Power). Overload forms for winlen 2..66 and "
              "{100,200,255,256,257,1000,1024}. Tone sweep nfft {8,16,32,64}: every frequency q/(4 nfft) in (0,0.5) real / (-0.5,0.5) "
              "complex, 4x4 segment grid, 10 windows, amplitudes {1e-3,1,1e3} inside each case. mscohere: same segment grids (full for "
              "nfft<=16), 4 windows, y in {-3x,1e-3x,x,1e3x,1e-15x,-1e-13x,1e-10x,1e10x,1e13x,-1e15x, the pair (1e-8x,1e8x), filtered, "
              "independent}, 4 overload forms; default-argument forms also for the non-power-of-two window lengths "
              "{3,5,6,7,9,12,17,24,31,33,48,63,65,100,129,200,255,257,1000}. BIG sizes: signals of 70000 and 140000 samples with nfft 256 "
              "and nfft 8192 (window length = nfft, overlap nfft/2 and 7/8 nfft, hamming and periodic hann, real and complex): density "
              "power identity, power-scaled level of a bin-centred tone at bin nfft/3, label of real tones at nfft/3 + {0,1/4,3/4} bin, "
              "mscohere of scaled copies (1e3, -1e-13), filtered and independent letters. Power-scaled peak for window lengths that are not "
              "powers of two: winlen {129,201,257,258,333,511,1001} x nfft {nextpow2, 2*nextpow2} x {rect, hamming, periodic hann, kaiser 5} x "
              "overlap {0,winlen/2} x bin-centred tones (complex bins nfft/3, -nfft/8: exactly A^2; real bins nfft/8, nfft/3: A^2/2 within "
              "the image leakage of the exact estimate) x 3 amplitudes. SILENT SEGMENTS (exact zeros): records of 8 segments with letters "
              "{zero run of winlen+hop aligned to a segment start / starting hop/2 later, short run, leading, trailing silence, burst of one "
              "window inside silence, single non-zero sample, all-zero record} x nfft {16,64,256} x (winlen,overlap) {(n,0),(n,n/2),(n/2,0),"
              "(n-3,2),(n/2,n/2-1)} x {rect, hamming, hann, kaiser 5} x real/complex: density sum over ALL segments (all-zero record: zero "
              "spectrum, also with power scaling), power-scaled peak of gated bin-centred tones (complex; real for rect/winlen=nfft/no overlap), "
              "mscohere of 3x / filtered / independent with silent segments in x. EVERY PUBLIC OVERLOAD: the 4 welch overloads of "
              "spectrum.h {(x,winlen), (x,win), (x,winlen,nov,nfft), (x,win,nov,nfft)} x scale {omitted, Psd, Power} x real/complex = 24 "
              "overload x type combinations, each compared bit for bit (pxx and f) with welch(x, win_array, noverlap, nfft, type) for the "
              "documented defaults, winlen {2,3,5,8,16,17,31,32,33,64,65,100,129,200,256,257,1000}, long forms with overlap "
              "{0,1,winlen/2,winlen-1} x nfft {nextpow2, 2 nextpow2}; the 3 shorter mscohere overloads bit for bit against "
              "mscohere(x,y,win_array,noverlap,nfft) on the same grid",
        thorough="welch grid: nfft {8,16,32,64,128,256,512,1024,2048,4096}; for nfft<=128 every window length 2..nfft (every overlap for "
                 "winlen<=64, else 7 overlaps), above 7 window lengths {nfft/4,nfft/3,nfft/2,nfft/2+1,3nfft/4,nfft-1,nfft} x 7 overlaps "
                 "{0,1,wl/4,wl/2,3wl/4,wl-2,wl-1}; 10 windows at every nfft; signal lengths j in {0,1,2,5}; long signals (N=100000 at nfft "
                 "1024/4096, stride-1 cases N=20000/50000) and the BIG sizes of the quick tier. Overload forms for every winlen 2..300 and "
                 "{500,513,1000,1023,1024,1025,2000,3000,4095,4097}. Tone sweep nfft {8,16,32,64,128,256}: every frequency q/(8 nfft) "
                 "(8 per bin), 4x4 segment grid, 10 windows, 3 amplitudes; nfft 512: 8 per bin, winlen {256,512} x overlap {0,winlen/2} x {rect, hamming, periodic hann}; nfft 1024 and 4096: 10 (real) / 20 (complex) frequencies next to "
                 "DC, next to +-0.5, bin-centred and off-centre. mscohere: segment grid as welch (full for nfft<=64, every overlap for "
                 "winlen<=32), 10 windows, the quick letters plus {-x, (3x,-7x), (1e5x,1e-5x), 1e6x, -1e-6x, delayed by 3, x+0.5*independent}, "
                 "4 overload forms; default-argument forms for every non-power-of-two winlen 2..300 and {500,513,1000,1023,1025,2000,3000,"
                 "4095,4097}. Power-scaled peak for every window length 129..600 (hamming, rect; nfft = nextpow2; overlap {0,winlen/2}; real and "
                 "complex) in addition to the quick set. Silent-segment letters for nfft {8,16,32,64,256,1024} and all 10 windows. The 24 welch overload x type combinations and the 3 "
                 "mscohere overloads for every winlen 2..300 and {500,513,1000,1023,1024,1025,2000,4095,4097}"),
    deadline=dict(quick=150, thorough=3000),
    assumptions=COMMON_ASSUME + [
        "window lengths <= nfft, signal length >= window length, noverlap < winlen (in-domain inputs only); windows whose largest weight "
        "is < 1e-3 (hann(2)) are not used",
        "tone labelling is judged only where the exact (long-double) Welch estimate of the same segments peaks, by a relative margin of 1e-9, "
        "at the bin(s) nearest the tone: flat windows (hann(3)) and real tones whose image interferes near DC/Nyquist are counted as skipped; "
        "ties at half-bin offsets are accepted either way",
        "power-scaled peak is compared with A^2/2 (real) / A^2 (complex) only where the exact estimate equals it within 1e-12 (no leakage "
        "of the negative-frequency image into the bin); other real-tone cases are counted as skipped",
        "power peak with window lengths that are not powers of two: complex tones are held to A^2 within 1e-9 (exact for every non-negative "
        "window); real tones to A^2/2 within 1e-9 plus the relative image leakage of the exact (long-double) Welch estimate of the same segments",
        "gated tones (silent segments): the power-scaled peak of a bin-centred complex tone is compared with A^2 mean_seg (sum_n w[n] g[n])^2 / "
        "(sum w)^2 for the gate g and the harness's own segmentation (equal to the statement's A^2 for an ungated tone); an all-zero "
        "record must give an all-zero spectrum (the power identity with zero power); coherence of an all-zero record is undefined and not generated",
        "overload forms: the header documents the shorter overloads as the explicit form with defaults (hamming(winlen), noverlap = winlen/2, "
        "nfft = 2^nextpow2(winlen), scale = Psd), so bit-for-bit equality with the explicit call (window = the library's own "
        "window::hamming for the winlen forms) is demanded",
        "nfft that is not a power of two is documented as unsupported; an exception or a well-formed result is accepted",
        "coherence letters are dense, so every bin has non-zero power; a non-finite coherence is reported as a failure",
        "complex frequency vector: any arithmetic progression of bin frequencies m/nfft inside [-0.5, 1) is accepted; the label check "
        "works modulo 1",
    ],
)
