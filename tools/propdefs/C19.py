from props_common import COMMON_ASSUME

PROP = dict(
    harness="C19_noise_measure.cpp",
    level="exploration",
    engine="bex",
    technique="enumeration of a fixed seed set x SNR x signal power x signal letter x length on the real awgn with a 6-standard-error band; "
              "every call program of <= 3 generator calls replayed after rng(seed); closed-form multi-tone signals through thd/sinad/snr",
    claim="for every seed of the enumerated set, every listed SNR, signal power, signal letter and length, the noise y - x of the real and the "
          "complex awgn is measured (power, mean, lag-1 autocorrelation) against the requested power within 6 standard errors; for every seed "
          "and every program of <= 3 calls over 9 generator operations the values are bit-identical on replay and prefix-stable; randi stays "
          "inside 5 ranges over 10^4 draws x 20 seeds; thd/sinad/snr are evaluated on every listed (length, fundamental position, off-bin "
          "offset, harmonic count, level pattern, phase letter) x 5 amplitude scales against the closed-form ratio. The seed set is fixed, "
          "so the statement decided is about exactly these streams (deterministic); it is exhaustive within the bound and silent outside it.",
    note="the calibration is a statistical statement: a correct generator exceeds a 6-standard-error band with probability ~2e-9 per test; "
         "the normalised noise of a given (seed, length, type) is the same stream for every SNR / power / letter, so the number of "
         "independent statistics is seeds x lengths x 2, the largest observed deviation is reported in worst_observed",
    rule="awgn: a case is (type, seed, N, signal letter) and contains 3 signal powers x 7 SNR values (count in path_histogram), first failure "
         "of each class reported; rng: a case is (seed, program); measurement: a case is one multi-tone configuration analysed at 5 amplitude "
         "scales by thd, sinad and snr. Non-trivial = every awgn / measurement case, programs of >= 2 calls, randi ranges with > 1 value",
    bounds=dict(
        quick="awgn real+complex: seeds 0..99 x snr {-10,0,10,20,40,60,80} dB and the fractional values {-3.5,-0.5,0.5,6.6,12.7,59.9} dB "
              "(the parameter is real-valued) x signal power {1e-6,1,1e6} x 7 signal letters (zero-mean: tone, "
              "constant modulus, broadband; with DC: unipolar broadband 0.5+0.5*lcg, tone on a 3x offset, constant, carrier leak = constant "
              "offset larger than the modulation; complex only, unequal I/Q power: Q 20 dB below I, real signal as complex with Q = 0) x N=10^4, "
              "plus seeds 0..1 at the BIG sizes N=65537 and N=200000; awgn.tones: N in {131072, 200000, 262144} x real tone / complex I-only tone x "
              "f in {1/4,1/3,1/6,1/8,1/10,3/10} cycles/sample (periods 3..10: any strided level estimate aliases) x phase {0, pi/2, 0.3} x "
              "amplitude {1, 1e-3} x snr {10, 20.5} dB, one seed each, 6-standard-error band (< 2 %); rng replay: seeds 0..99 x all 819 programs of <= 3 calls over {rand(), rand(3), rand({a,b},2), randn(), "
              "randn(3), randi(5), randi({-2,2},3), awgn(real), awgn(complex)}; randi ranges {[1,1],[-3,-3],[-5,5],[0,1],[-2^30,2^30]} and "
              "randi(imax) imax {1,2,6,1000}, 10^4 draws x 20 seeds; rand({a,b},n) with 6 fractional ranges x 20 seeds inside [a,b]; randi.alternate: 600 SCALAR "
              "draws interleaving the ranges of a group (9 groups: shared upper bound -3 / -1 / 0 / 7 with different lower bounds, shared lower "
              "bound -10 / 0 / 5 with different upper bounds, single-value ranges for negative k incl. -2147483647, mixed) x 20 seeds, every "
              "draw inside its own range and the sequence replays after rng(seed); thd/sinad/snr: N {2048,4096,5000,8192} x 3 fundamental positions x "
              "offsets {0,0.1,0.25,0.5,0.73} bin x 1..5 harmonics x <= 8 level patterns from {-10,-20,-30,-40} dBc x 3 phase letters x "
              "scales {1,1e-4,1e4,2^-13,2^13} (6480 configurations); odd lengths N {2049,4095,5001,8191 (prime),10001} on a reduced grid "
              "(3 positions x offsets {0,0.25,0.73} x H {1,3,5} x 2 level patterns x 2 phase letters = 108 configurations each), same oracles; "
              "low-fundamental grid measure.lowfund: N {2^15, 2^17} x fundamental bin {110,150,200} x offsets {0,0.25} x non-monotone level "
              "patterns {-40,-10,-30,-20} and {-30,-40,-10} dBc; every configuration also checks each harmonic's level "
              "harmpow[k]-harmpow[0] within 0.1 dB of its true dBc; BIG records N {65536, 100000, 131072} on a mini grid (3 positions x offsets "
              "{0,0.25} x H {1,5} x 2 level patterns = 24 configurations each, 5 scales)",
        thorough="awgn.tones also at N = 10^6 and 2^20; awgn (7 real / 9 complex letters; the fractional snr values at signal power 1 only) seeds 0..999 at N=10^4, 0..49 at N=10^5, 0..4 at N=10^6, 0..9 at N=200000, 0..19 at N in "
                 "{9973 (prime), 10001, 65536, 65537, 131072}; rng replay and seed_matters seeds 0..9999 (8.19M call programs); randi, randi.alternate and rand({a,b}) 200 "
                 "seeds per range / group; measurement: for N {2048,4096,5000} every combination of the first three harmonic levels "
                 "(4+16+64+64+64 patterns, further levels derived), plus the 8-pattern set (1620 configurations each) at N in {3000, 6000, "
                 "8192, 10000, 16384} and the odd lengths {2049,4095,5001,8191,10001}, and the reduced grid (108 configurations) at N in "
                 "{32767, 32768, 65536, 65537, 100000, 100003, 131071 (prime), 2^17}; measure.lowfund: N {2^14,2^15,2^17,40000} x bins {110,130,150,170,200} "
                 "x all 5 offsets x 4 non-monotone level patterns x 3 phase letters"),
    deadline=dict(quick=150, thorough=3000),
    assumptions=COMMON_ASSUME + [
        "signal power P_x is mean |x|^2 (1/N); noise = y - x computed in long double",
        "6-standard-error bands: noise power 6*sqrt(2/N) (real) / 6*sqrt(1/N) (complex, both components summed) relative; mean 6*sigma/sqrt(N); "
        "lag-1 autocorrelation 6/sqrt(N)",
        "'bin' for the 100-bin separation and the 0.1-bin frequency tolerance is 1/N of the record (N <= nfft): components are >= 100/N "
        "apart and from DC / Nyquist (at least as strict as the FFT grid); reported harmonic frequencies are compared in bins of the signal "
        "length: |harmfreq*N - true frequency*N| <= 0.1, for even, odd, prime and power-of-two N alike",
        "thd and snr are called with nharm = number of components present; sinad is compared with the fundamental-to-harmonics ratio; "
        "the per-harmonic entries of ThdRes.harmpow are compared relative to harmpow[0] (level in dBc) with the 0.1 dB of the thd statement",
        "scale invariance is required within 1e-6 dB for thd, sinad and for snr with one harmonic left in the noise; snr of a noise-free "
        "signal with every component removed measures the rounding floor of the scaled samples and is only required to be unchanged "
        "under power-of-two scalings (exact); its change under 1e+-4 is reported, not judged",
        "the harness uses no randomness of its own; the library generator is always seeded explicitly",
    ],
)
