from props_common import COMMON_ASSUME

PROP = dict(
    harness="C02_inverse.cpp",
    level="exploration",
    engine="bex",
    technique="bounded-exhaustive enumeration of lengths x entry points x closed-form letter alphabet (ifft/irfft vs definition and as round trip), "
              "odd-n rejection in forked children (second pass under ASan+UBSan), stft/istft over the full window/overlap/range/method/length grid",
    claim="every length 1..N is run through ifft/IfftPlan and every even length through irfft/IfftPlanR (both input forms) on every letter of the "
          "stated alphabet and compared with the exact inverse under 64*n*eps relative l2; every odd n is passed to irfft/IfftPlanR in a forked "
          "child and must raise a C++ exception; every (nfft, window, overlap accepted by iscola, range, method, signal length) of the grid is "
          "round-tripped through stft/istft. Exhaustive within the bound, silent outside it; nothing is sampled.",
    note="for n above 256 (quick 64) the letter alphabet is a finite witness set (boundary/split impulses, tones, 5 closed-form letters, dense "
         "round trip), not the full matrix; stft/istft windows all have nwin = nfft and nfft is a multiple of 4",
    rule="a case is a block (check, n[, input form]) / (odd-n block of 32 lengths) / (call history around n) / (stft.history: nfft, overlap, method, window/signal sequence) / (nfft, window, overlap, range, method, j, r); evaluations = "
         "library results compared with the oracle. Non-trivial = block with n >= 2, every irfft/istft block, every call whose expected outcome "
         "is an exception. Plan kinds reached and stft configurations are listed in path_histogram.",
    bounds=dict(
        quick="ifft: every n in 1..256 (columns/impulses at every index for n <= 64, else boundary + split positions; 5 closed-form spectra; extreme-magnitude columns c*amp*column_m, m in {0,n/2,n-1}, c in {min(2*DBL_MAX/n, DBL_MAX/2), 1e-300, 4n*DBL_MIN}; round trip of 1e300 and 1e-300 impulses; dense "
              "O(n^2) oracle; round trip of 4 letters); irfft: every even n in 2..256 x {all n bins, first n/2+1 bins} x {impulses, tones, 5 "
              "closed-form, dense, round trip of 4 letters} x {irfft(X,n), irfft(X), IfftPlanR solve/operator()}; odd n in 1..257 must throw "
              "(2 forms x 2 APIs, forked; repeated under ASan); wrong bin counts for 13 n (crash only); irfft.after_reject: every even n in 2..256, in one process: irfft(X,n), then rejected "
              "irfft(.,n+1)/irfft(.,n-1)/IfftPlanR(n+1)/IfftPlanR(n-1), valid calls at n+2 and n-2 in 6 orders; every later irfft(X,n) / "
              "IfftPlanR(n).solve(X) (and those at n-2, n+2) bit-identical to the first and within the value oracle; "
              "stft/istft: nfft in {8,12,16,20,24,32,48,64} "
              "x 11 windows (hann/hamming/blackman/cosine/kaiser5 sym+periodic, rect) x every overlap 0..nfft-1 accepted by iscola(ola or wola) x 3 "
              "ranges x 2 methods x lengths nfft+j*hop+r, j in {0,1,3}, r in {0,1,hop-1}; letters: ramp, dense, every impulse when length <= 96; plus a sparse grid at "
              "nfft in {512, 1024}: periodic hann and blackman, overlap nfft/2 and 3nfft/4 (when iscola accepts), ola and wola, onesided, length "
              "nfft+3*hop+hop-1, ramp + dense. Every sample with reference weight > 16*nseg*eps*max(wmax,1) is judged with a condition-aware "
              "tolerance (no relative weight threshold). stft.history: in one thread, all ordered pairs of distinct COLA "
              "windows from {hann, hamming, blackman, rect, 2*hann} (periodic) written in place into ONE persistent window buffer, plus "
              "signal-only control pairs, for (nfft, overlap) in {(16,8),(16,12),(64,48),(256,192),(256,128)} x {ola, wola}, length nfft+3*hop+hop-1; "
              "each round trip passes the istft value oracle and is bit-identical to the same call made first in a fresh thread. "
              "ASan pass: everything forked, n <= 64, nfft in {8,12,16} (stft.history nfft <= 64). "
              "BIG SIZES in quick (main pass): ifft/IfftPlan additionally at n in {4098, 4099, 4100, 5000, 8192, 16384, 46342, 65536, 65537, 65538, 70000, "
              "99991, 100000, 131072} and irfft/IfftPlanR (both forms, definition + round trip + after_reject) at the even ones, with the "
              "boundary/split position set, closed-form and extreme-magnitude letters; odd n in {4097, 4099, 46341, 65535, 65537, 70001, 131071} must "
              "throw; sparse stft/istft grid also at nfft 4096, and two long-signal cases: nfft 256 with 77183 / 38783 samples and nfft 4096 with "
              "1071103 / 537599 samples (signal length x nfft/2 exceeds 2^31); stft.history also at (4096, 2048). "
              "istft.shortwin: window shorter than nfft: nfft in {16, 64, 256}, nwin in {nfft-1, nfft/2, 3}, windows hann-sym/hann-per/hamming-sym/rect, "
              "every overlap accepted by iscola (nfft 16) or hops {(nwin-1)/2, nwin/2, nwin/4, 1} (64, 256), ola and wola, signal length EXACTLY "
              "nwin + k*hop for k in {0, 1, 5} and one sample more / less, ramp + dense. stft.overloads: every public overload and default-argument "
              "form of stft / istft (stft(x,nfft[,range]), stft(x,win,overlap,nfft), istft(X,nfft[,range[,method]]), istft(X,win,overlap,nfft[,range])) "
              "bit-identical to the fully explicit call it documents (periodic hann(nfft), overlap nfft/2, Onesided, Wola) and the round trip through "
              "the short forms, nfft in {8,16,64,256,1024} x 3 ranges x 2 methods x 2 lengths",
        thorough="as quick with every n in 1..8192 for ifft, irfft (even n), after_reject and odd-n rejection (1..8193) plus the big lengths above 8192 "
                 "(all columns/impulses for n <= 256, dense oracle n <= 1024); stft/istft full grid (every accepted overlap, 3 ranges, 9 lengths) "
                 "for nfft in {8,12,16,20,24,32,48,64,96,128,192,256,384,512,1024,2048}, sparse grid at 4096 and 8192, the two long-signal "
                 "cases; stft.history adds (512,256), (1024,768), (24,18), (96,72), (128,96), (128,64), (1024,512), (2048,1536), (4096,3072), "
                 "(8192,4096) and all window triples with distinct neighbours; istft.shortwin also at nfft 1024; ASan pass n <= 256"),
    deadline=dict(quick=150, thorough=3000),
    passes=[dict(name="main"), dict(name="asan", variant="asan", args=["--asan-pass"])],
    assumptions=COMMON_ASSUME + [
        "'reproduces x' is judged at 64*n*eps relative l2 for ifft, irfft and both round trips (the statement gives no number)",
        "istft: every sample whose reference accumulated weight w_i (sum of win^(a+1) over the floor((nx-overlap)/hop) complete frames, long double) "
        "exceeds 16*nseg*eps*max(wmax,1) is compared with tolerance tol_i = 1e-9*max|x| + 64*log2(nfft)*eps*max_f||frame_f*win||_2*sum_f|win^a|/w_i "
        "and judged when tol_i <= 1e-3*max|x| (others counted in path_histogram); weights in (0, 16*nseg*eps*max(wmax,1)] are at the rounding "
        "level of a double-precision weight accumulation and are read as zero (weaker reading of 'non-zero')",
        "irfft.after_reject demands bit-identical results for identical arguments on one thread (a pure function of its arguments) in addition "
        "to the value oracle",
        "a wrong number of bins passed to irfft is outside the statement: only a crash / sanitizer report / hang is a failure there",
        "odd n: std::exception or any other C++ exception counts as rejection",
    ],
)
