from props_common import COMMON_ASSUME

PROP = dict(
    harness="C02_inverse.cpp",
    level="exploration",
    engine="bex",
    technique="bounded-exhaustive enumeration of lengths x entry points x closed-form letter alphabet (ifft/irfft vs definition and as round trip), "
              "odd-n rejection in forked children (second pass under ASan+UBSan), stft/istft over the full window/overlap/range/method/length grid",
    claim="every length 1..N is run through ifft/IfftPlan and every even length through irfft/IfftPlanR (both input forms) on every letter of the "
          "stated alphabet and compared with the exact inverse under 64*n*eps relative l2; every odd n is passed to irfft/IfftPlanR in a forked "
          "child and must raise a C++ exception; every (nfft, window, overlap accepted by iscola, range, method, signal length) of the grid is "
          "round-tripped through stft/istft. Exhaustive within the bound, silent outside it; nothing is sampled.",
    note="for n above 256 (quick 64) the letter alphabet is a finite witness set (boundary/split impulses, tones, 5 closed-form letters, dense "
         "round trip), not the full matrix; stft/istft windows all have nwin = nfft and nfft is a multiple of 4",
    rule="a case is a block (check, n[, input form]) / (odd-n block of 32 lengths) / (nfft, window, overlap, range, method, j, r); evaluations = "
         "library results compared with the oracle. Non-trivial = block with n >= 2, every irfft/istft block, every call whose expected outcome "
         "is an exception. Plan kinds reached and stft configurations are listed in path_histogram.",
    bounds=dict(
        quick="ifft: every n in 1..256 (columns/impulses at every index for n <= 64, else boundary + split positions; 5 closed-form spectra; dense "
              "O(n^2) oracle; round trip of 4 letters); irfft: every even n in 2..256 x {all n bins, first n/2+1 bins} x {impulses, tones, 5 "
              "closed-form, dense, round trip of 4 letters} x {irfft(X,n), irfft(X), IfftPlanR solve/operator()}; odd n in 1..257 must throw "
              "(2 forms x 2 APIs, forked; repeated under ASan); wrong bin counts for 13 n (crash only); stft/istft: nfft in {8,12,16,20,24,32,48,64} "
              "x 11 windows (hann/hamming/blackman/cosine/kaiser5 sym+periodic, rect) x every overlap 0..nfft-1 accepted by iscola(ola or wola) x 3 "
              "ranges x 2 methods x lengths nfft+j*hop+r, j in {0,1,3}, r in {0,1,hop-1}; letters: ramp, dense, every impulse when length <= 96. "
              "ASan pass: everything forked, n <= 64, nfft in {8,12,16}",
        thorough="as quick with n <= 2048 (all columns/impulses for n <= 256, dense oracle n <= 1024), odd n in 1..2049, stft adds nfft 128, 256, 1024; "
                 "ASan pass n <= 256"),
    deadline=dict(quick=150, thorough=1500),
    passes=[dict(name="main"), dict(name="asan", variant="asan", args=["--asan-pass"])],
    assumptions=COMMON_ASSUME + [
        "'reproduces x' is judged at 64*n*eps relative l2 for ifft, irfft and both round trips (the statement gives no number)",
        "istft: compared where the reference accumulated weight (sum of win^(a+1) over all complete frames) is >= 1e-3 of its maximum, tolerance "
        "1e-9*max|x| (weaker than 'non-zero weight'); frames = floor((nx-overlap)/hop) complete frames",
        "a wrong number of bins passed to irfft is outside the statement: only a crash / sanitizer report / hang is a failure there",
        "odd n: std::exception or any other C++ exception counts as rejection",
    ],
)
