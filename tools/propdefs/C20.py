from props_common import COMMON_ASSUME

PROP = dict(
    harness="C20_dynamics.cpp",
    level="exploration",
    engine="bex",
    technique="bounded-exhaustive parameter boxes x level grids x signal letters x step histories on the real Compressor/Limiter/NoiseGate/Agc; "
              "long-double documented static law + output-only monotonicity/continuity oracles",
    claim="every configuration of the stated parameter boxes is run on the real objects: the zero-time static law on a 0.5 dB grid with 0.01 dB "
          "refinement at every knee breakpoint (both signs, ascending and descending order), the gain-range / ceiling invariants for all "
          "attack x release combinations on seven fixed signal letters (incl. bursts separated by exact zeros), step histories for the time constants, "
          "burst / exact-zero silence / quiet-tone histories (one call and three calls) for the release through digital silence, gate hold, and the Agc settling "
          "box. Exhaustive within the bound, silent outside it; nothing is sampled.",
    note="trusts the harness's long-double rendering of the documented static characteristic (cross-checked by output-only oracles that do not use it)",
    passes=[dict(name="main", flags=["-fno-access-control"])],
    rule="a case is one (processor configuration, letter/history) pair executed on the real object in frames of cycling sizes "
         "{1,2,7,64,512,3001}; static.curve cases are blocks of ~300 levels, the first failing level per (sub-oracle, region) is reported. "
         "Non-trivial = the processor attenuated at least one sample (compressor/limiter), the gate both opened and closed, "
         "or the Agc case required a gain below max_gain and was checked for settling / received a non-silent letter",
    bounds=dict(
        quick="static law: T{-50,-30,-10,-3,0} x R{1,2,5,50} x W{0,1,10,20} x fs{8k,192k} x both signs, levels every 0.5 dB in [-100,20] + every 0.01 dB "
              "within 0.1 dB of T-W/2, T, T+W/2, an exact 0.0 interleaved after every 5th level (out 0, gain 1); static.exact: {compressor R1, R5, limiter} x T x W x release{0,0.2}, every amplitude among the 200 doubles around db2mag(E), "
              "E in {T, T-W/2, T+W/2}, whose library level mag2db(a+eps) equals E bit-exactly, fed as [a,-a,a,a/2,a] (hit counts per E in path_histogram; none exists for T=-50); "
              "static.together: ALL processors of the static box (every kind x T x R x W, fs 8k) alive at once, levels every 0.5 dB in [-100,20] with alternating signs looped outside and processors inside, one sample per call, ascending and descending: each output on its own documented law and bit-identical to the same configuration driven alone; "
              "gain.range: the same box x attack,release in {0,1e-3,0.2,4}^2 x 7 letters of 10^4 samples; "
              "smooth.step: T{-30,-10} x R{2,5,50} x W{0,10} x fs{8k,192k} x attack,release in {0,1e-3,0.01,0.2,4}^2 (no 4 s at 192 kHz), "
              "4 step phases each, plus attack = release = f/fs for fractional f = fs*t in {1.5,1.92,2.5,3.3,7.7,10.5} (gate.step likewise, hold{0,1e-3}); smooth.silence: T{-30,-10} x R{2,5,50}/limiter x W{0,10} x fs{8k,192k} x attack{0,0.01} x release{1e-3,0.01,0.2} x "
              "k{1,5,50} release times of exact zeros x {1 call, 3 calls}; gate.silence: thr{-40,0} x fs{8k,192k} x attack{1e-3,0.05} x release{0,1e-3} x hold{0,1e-3,0.05} x k{1,5,50} x {1,3 calls}; gate: thr{-140,-40,0} x fs{8k,192k} x attack,release,hold in {0,1e-3,0.05}^3, step history + 7 letters of 10^4; "
              "stream: LONG STREAMS - 140 000 samples (above the 4096 and 65 536 thresholds) through Compressor(48 kHz, T-20, R4, W6, 5/50 ms), Limiter(48 kHz, T-10, W3, zero attack, 100 ms), "
              "Limiter(8 kHz, T-30, 2/300 ms), NoiseGate(8 kHz, hold 1000 samples: closes at 65 000 and 130 500 so that the holds span 65 536 and 131 072), Agc real and complex entry points "
              "(averaging window 1000, level switches at 65 000 and 131 000, one max_gain clamp episode), each fed (a) in one call and (b) in frames of 1000, every sample against the reference "
              "recursion (static law + one-pole dB smoothing / documented gate recursion / exact sliding-window power + log-domain loop, long double); gate.bursts: thr{-40,0} x fs{8k,192k} x "
              "attack{0,1e-3,0.01} x release{0.01,0.05} x hold{1e-3,0.01,0.05} x burst length {1 sample, 0.1, 0.5, 0.9 release times}, gaps shorter and longer than the hold, every sample against "
              "the gate reference recursion; "
              "Agc: target{0.01,1,100} x absolute input amplitude -100..+20 dBFS (1e-5..10) step 10 dB x avg{1,10,100,1000} x max_gain{20,60,140} (140 dB keeps the required "
              "gain below max_gain for every target x amplitude pair) x 3 constant-envelope letters (real +A, real +-A, "
              "complex A e^{j0.7k}), 20000 samples; gain bound: target x avg{1,2,3,7,10,100,1000} x max_gain x {silence, burst, level blocks, modulated bursts + silence}",
        thorough="static.curve / static.exact: T{-50,-40,-30,-20,-10,-6,-3,-1,0} x R{1,2,3,4,5,8,10,20,50} x W{0,0.5,1,3,6,10,15,20} x fs{8k,44.1k,192k} x both signs, level grid "
                 "additionally every 0.001 dB within 0.05 dB of T-W/2, T, T+W/2; gain.range: T{-50,-30,-10,-3,0} x R{1,2,3,5,10,50} x W{0,1,3,10,20} (+ limiter) x fs{8k,44.1k,192k} x "
                 "attack,release in {0,1e-4,1e-3,0.2,4}^2 x 7 letters of 10^5 samples; smooth.step: T{-40,-30,-20,-10,-3} x R{2,3,5,10,50} x W{0,3,10,20} x fs{8k,44.1k,192k} x "
                 "attack,release in {0,1e-4,1e-3,0.01,0.2,4}^2 (4 s above 8 kHz only on the quick-tier configurations) x 7 step phases + the fractional fs*t grid; smooth.silence: "
                 "T{-40,-30,-20,-10} x R{2,5,10,50}/limiter x W{0,3,10} x fs{8k,44.1k,192k} x attack{0,1e-3,0.01} x release{1e-3,0.01,0.05,0.2} x k{1,5,50} x {1,3 calls}; gate.silence: "
                 "thr{-140,-80,-40,-20,0} x fs x attack{1e-4,1e-3,0.01,0.05} x release{0,1e-3,0.01} x hold{0,1e-4,1e-3,0.05,0.5} x k x calls; gate.step / gate.range: thr{-140,-80,-40,-20,0} x fs x "
                 "attack,release,hold in {0,1e-4,1e-3,0.01,0.05,0.5}^3 (7 letters of 10^5); gate.bursts: thr{-140,-80,-40,-20,0} x fs x attack{0,1e-4,1e-3,0.01,0.05} x release{1e-3,0.01,0.05,0.2} x "
                 "hold{1e-4,1e-3,0.01,0.05,0.2} x burst length {1 sample, 0.1, 0.5, 0.9 release times}; streams with frames {one call, 1000, 4097, 65536}; Agc: target{0.001,0.01,0.1,1,10,100} x "
                 "amplitude -100..+20 dBFS step 5 dB x avg{1,2,10,100,1000,5000} x max_gain{6,20,60,140} (required gains from -70 dB, far below -max_gain, to +120 dB) x 3 letters x "
                 "(t_rise,t_fall) in {(0.01,0.01),(0.1,0.002)}; gain bound with the same targets and max_gains"),
    deadline=dict(quick=150, thorough=2400),
    assumptions=COMMON_ASSUME + [
        "ratio is an int in the API; integer ratios are enumerated",
        "'gain in [0,1]' is read to rounding: gain <= 1 + 1e-12 (the dB-domain gain computer of a ratio-1 compressor returns +1 ulp on the pinned tree; "
        "the worst excess is recorded)",
        "continuity is tested on the level grid as 'output step <= input step + 1e-6 dB' (the documented curve has slope in [1/R,1]) and monotonicity as "
        "'output step >= -1e-6 dB'; both use outputs only",
        "digital silence: exact 0.0 input is below every threshold, so the static target is 0 dB (gate: closed) from the first zero sample on; after "
        "fs*t (+1 sample +1 %) samples of zeros >= 0.8 of the step (the 10->90 % fraction; a one-pole covers 0.889) must be released, n90-n10 = fs*t as in "
        "smooth.step, and under zero attack/release a zero sample reports gain 1 (|gain-1| <= 1e-12) and out 0",
        "time constants are additionally measured from the per-sample decay ratio (g[k+1]-G)/(g[k]-G) toward the constant static target G (dB gain for "
        "compressor/limiter, linear gain for the gate): the median ratio w over the samples farther than 1e-6 of the step from G must imply "
        "t_est = -ln 9/(fs ln w) within 2 % of the configured time (t = 0: ratio 0); the spread of the ratios is recorded, not judged",
        "10%->90% time is measured in samples on the dB gain (compressor/limiter) or linear gain (gate) and must be fs*t +- (1 sample + 1 %)",
        "reference recursions (stream, gate.bursts): compressor/limiter gain within 1e-9 dB, gate gain within 1e-12, Agc gain within 1e-9 relative of the long-double recursion; the gate "
        "reference is only applied to histories in which a hold is never interrupted while the gain is exactly 1 (the library does not restart the hold counter there; not judged); "
        "the Agc stream steps down by at most 20 dB because the library's recurrent window sum leaves a rounding residue ~eps*n*P_old that is not judged here",
        "NoiseGate hold: the gain is frozen for floor(hold*fs) samples after the level falls below the threshold, measured on a gate whose hold "
        "counter was reset by a preceding opening phase (weaker reading; interrupted holds are not judged)",
        "Agc: 'required gain' = 10 log10(target/input power) dB compared with max_gain - 0.01 dB; settling judged on the mean power of the last 1000 of 20000 samples; "
        "gain bound 10^(max_gain/20)(1+1e-12) and finiteness on every sample of every letter",
    ],
)
