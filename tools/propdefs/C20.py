from props_common import COMMON_ASSUME

PROP = dict(
    harness="C20_dynamics.cpp",
    level="exploration",
    engine="bex",
    technique="bounded-exhaustive parameter boxes x level grids x signal letters x step histories on the real Compressor/Limiter/NoiseGate/Agc; "
              "long-double documented static law + output-only monotonicity/continuity oracles",
    claim="every configuration of the stated parameter boxes is run on the real objects: the zero-time static law on a 0.5 dB grid with 0.01 dB "
          "refinement at every knee breakpoint (both signs, ascending and descending order), the gain-range / ceiling invariants for all "
          "attack x release combinations on seven fixed signal letters (incl. bursts separated by exact zeros), step histories for the time constants, "
          "burst / exact-zero silence / quiet-tone histories (one call and three calls) for the release through digital silence, gate hold, and the Agc settling "
          "box. Exhaustive within the bound, silent outside it; nothing is sampled.",
    note="trusts the harness's long-double rendering of the documented static characteristic (cross-checked by output-only oracles that do not use it)",
    passes=[dict(name="main", flags=["-fno-access-control"])],
    rule="a case is one (processor configuration, letter/history) pair executed on the real object in frames of cycling sizes "
         "{1,2,7,64,512,3001}; static.curve cases are blocks of ~300 levels, the first failing level per (sub-oracle, region) is reported. "
         "Non-trivial = the processor attenuated at least one sample (compressor/limiter), the gate both opened and closed, "
         "or the Agc case required a gain below max_gain and was checked for settling / received a non-silent letter",
    bounds=dict(
        quick="static law: T{-50,-30,-10,-3,0} x R{1,2,5,50} x W{0,1,10,20} x fs{8k,192k} x both signs, levels every 0.5 dB in [-100,20] + every 0.01 dB "
              "within 0.1 dB of T-W/2, T, T+W/2, an exact 0.0 interleaved after every 5th level (out 0, gain 1); static.exact: {compressor R1, R5, limiter} x T x W x release{0,0.2}, every amplitude among the 200 doubles around db2mag(E), "
              "E in {T, T-W/2, T+W/2}, whose library level mag2db(a+eps) equals E bit-exactly, fed as [a,-a,a,a/2,a] (hit counts per E in path_histogram; none exists for T=-50); "
              "gain.range: the same box x attack,release in {0,1e-3,0.2,4}^2 x 7 letters of 10^4 samples; "
              "smooth.step: T{-30,-10} x R{2,5,50} x W{0,10} x fs{8k,192k} x attack,release in {0,1e-3,0.01,0.2,4}^2 (no 4 s at 192 kHz), "
              "4 step phases each, plus attack = release = f/fs for fractional f = fs*t in {1.5,1.92,2.5,3.3,7.7,10.5} (gate.step likewise, hold{0,1e-3}); smooth.silence: T{-30,-10} x R{2,5,50}/limiter x W{0,10} x fs{8k,192k} x attack{0,0.01} x release{1e-3,0.01,0.2} x "
              "k{1,5,50} release times of exact zeros x {1 call, 3 calls}; gate.silence: thr{-40,0} x fs{8k,192k} x attack{1e-3,0.05} x release{0,1e-3} x hold{0,1e-3,0.05} x k{1,5,50} x {1,3 calls}; gate: thr{-140,-40,0} x fs{8k,192k} x attack,release,hold in {0,1e-3,0.05}^3, step history + 7 letters of 10^4; "
              "Agc: target{0.01,1,100} x absolute input amplitude -100..+20 dBFS (1e-5..10) step 10 dB x avg{1,10,100,1000} x max_gain{20,60,140} (140 dB keeps the required "
              "gain below max_gain for every target x amplitude pair) x 3 constant-envelope letters (real +A, real +-A, "
              "complex A e^{j0.7k}), 20000 samples; gain bound: target x avg{1,2,3,7,10,100,1000} x max_gain x {silence, burst, level blocks, modulated bursts + silence}",
        thorough="as quick with R{1,2,3,5,10,50}, fs{8k,44.1k,192k}, letters of 10^5 samples, smooth.step including 4 s at 192 kHz, "
                 "Agc amplitudes in 5 dB steps and additionally with (t_rise,t_fall) = (0.1,0.002)"),
    deadline=dict(quick=150, thorough=1500),
    assumptions=COMMON_ASSUME + [
        "ratio is an int in the API; integer ratios are enumerated",
        "'gain in [0,1]' is read to rounding: gain <= 1 + 1e-12 (the dB-domain gain computer of a ratio-1 compressor returns +1 ulp on the pinned tree; "
        "the worst excess is recorded)",
        "continuity is tested on the level grid as 'output step <= input step + 1e-6 dB' (the documented curve has slope in [1/R,1]) and monotonicity as "
        "'output step >= -1e-6 dB'; both use outputs only",
        "digital silence: exact 0.0 input is below every threshold, so the static target is 0 dB (gate: closed) from the first zero sample on; after "
        "fs*t (+1 sample +1 %) samples of zeros >= 0.8 of the step (the 10->90 % fraction; a one-pole covers 0.889) must be released, n90-n10 = fs*t as in "
        "smooth.step, and under zero attack/release a zero sample reports gain 1 (|gain-1| <= 1e-12) and out 0",
        "time constants are additionally measured from the per-sample decay ratio (g[k+1]-G)/(g[k]-G) toward the constant static target G (dB gain for "
        "compressor/limiter, linear gain for the gate): the median ratio w over the samples farther than 1e-6 of the step from G must imply "
        "t_est = -ln 9/(fs ln w) within 2 % of the configured time (t = 0: ratio 0); the spread of the ratios is recorded, not judged",
        "10%->90% time is measured in samples on the dB gain (compressor/limiter) or linear gain (gate) and must be fs*t +- (1 sample + 1 %)",
        "NoiseGate hold: the gain is frozen for floor(hold*fs) samples after the level falls below the threshold, measured on a gate whose hold "
        "counter was reset by a preceding opening phase (weaker reading; interrupted holds are not judged)",
        "Agc: 'required gain' = 10 log10(target/input power) dB compared with max_gain - 0.01 dB; settling judged on the mean power of the last 1000 of 20000 samples; "
        "gain bound 10^(max_gain/20)(1+1e-12) and finiteness on every sample of every letter",
    ],
)
