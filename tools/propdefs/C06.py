from props_common import COMMON_ASSUME

PROP = dict(
    harness="C06_framing.cpp",
    level="model_checking",
    engine="hist",
    technique="exhaustive exploration of call histories on real objects: all 2^(k-1) framings of a k-granule stream, all (prefix, frame) pairs of "
              "a longer stream, all interleavings of 2-3 instances; every history replayed on a fresh object and compared with the one-call output",
    claim="for ~330 configurations of the 20 stateful processors and 5 data letters (dense LCG, impulse train, step, 180 dB click in low-level noise, loud burst followed by a quiet passage), every composition of a k-granule stream (k = 11 quick, 14 "
          "thorough), every (prefix, next-frame) pair of a 40/96-granule stream and every interleaving of 2 (and 3) instances with 3 frames each is "
          "executed on the implementation; outputs must concatenate to the one-call output (same length, |delta| <= 1e-9 max|y|) and instances "
          "must reproduce their solo runs bit for bit; for decimating processors frames of a non-documented length interleaved with valid frames must be rejected and leave the object unchanged (mode reject). Exhaustive within these bounds.",
    note="frame contents come from six fixed letters (dense LCG, impulse train, step, click, burst+quiet, loud with short dips); a boundary defect that needs special sample values "
         "beyond these is not excluded. Private state is hashed only to count canonical states (evidence), never to raise an alarm.",
    rule="case = one framing history (list of frame sizes) of one configuration and letter, replayed on a fresh object; non-trivial = more than "
         "one frame; states = distinct (configuration, letter, prefix length, private-state hash) after each frame; transitions = process() calls "
         "executed; traces_validated_against_impl = histories executed",
    bounds=dict(quick="comp: k = 11 (1024 framings) x 6 letters x all configurations; pair: 40 granules, all ~1600 (p,f,tail) histories, light "
                      "configurations; iso: 2 instances x 20 interleavings all configurations, 3 instances x 1680 for every 2nd; copy: 9 histories with a copy-constructed / copy-assigned / move-constructed processor (source destroyed, left alone, fed other data, interleaved) for every copyable configuration, accepted if ALL calls follow value semantics or ALL follow handle semantics, both computed on the implementation; long: a stream of > 70 000 samples under 5 framings (boundary at 65 535/65 536, one frame longer than 65 536, uniform ~1000, alternating 1/64 granules) for the first configuration of every processor kind",
                thorough="comp: k = 16 (32768 framings); pair: 128 granules (~16000 histories) for all configurations; iso: 3 instances for all; long: all configurations"),
    deadline=dict(quick=150, thorough=3000),
    passes=[dict(name="main", flags=["-fno-access-control"])],
    assumptions=COMMON_ASSUME,
)
