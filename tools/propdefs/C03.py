from props_common import COMMON_ASSUME

PROP = dict(
    harness="C03_arith.cpp",
    level="exploration",
    engine="bex",
    technique="bounded-exhaustive instantiation of the operator x operand-type grid on the real templates, every length 0..64 (+1000, +10000) over a "
              "value alphabet with all ordered value pairs, scalar long-double oracle; exhaustive expression trees (depth<=2) and left-deep chains "
              "(depth<=6) through a variant-typed interpreter against a std::complex<long double> interpreter with forward error bound; second pass under ASan+UBSan",
    claim="every operator/operand-type/side/form combination the library accepts (116 binary+compound instantiations, 12 compound forms that would change the element type rejected at "
          "compile time) is executed for every length 0..64 (0..128 thorough), 1000, 5000, 70000 (10000, 200000 thorough) on an alphabet {0,-0,+-1,+-0.5,+-3,+-1e-100,+-1e100} (complex: axes, "
          "diagonals, 16 mixed points) in which every ordered pair of values occurs, and every element is compared with the scalar definition; all "
          "length mismatches 0..8 x 0..8; copy/move/aliasing; all concatenations of 2..5 parts of length 0..3; all 2^n masks (n<=10 thorough); all index lists of "
          "length 1..3 over n<=5 (1..5 over n<=7 thorough); all 20.8k expression trees of depth<=2 (thorough: 12M of depth 3), all 4*17^d left-deep chains of "
          "depth d<=7 (thorough) and all sequences of <=6 aliasing statements (a op= a, a op= b, a = a op a, a = a op b, a = b op a, a = -a) on one array variable; "
          "both tiers contain arrays of 5000, 70000 and 200000 elements for the element-wise operators, concatenation, mask and index-list selection. Exhaustive within "
          "these bounds, silent outside.",
    note="the set of combinations that compile was established by test-compiling each of the 132 combinations separately (g++ -fsyntax-only) and is hard-coded "
         "in the harness (std::is_invocable cannot see errors inside the operator bodies); a combination the library newly accepts would not be exercised",
    rule="a case is one (expression form, operand types, operator, length[, scalar value]) instantiation run over a whole array, one (n1,n2) mismatch, one "
         "concatenation shape, one block of 64 masks, one index-list length, one expression-tree family or one chain prefix with its whole DFS subtree; "
         "non-trivial = at least two non-zero elements are judged, or the expected outcome is an exception",
    bounds=dict(
        quick="grid: all instantiations the tree accepts (116 binary+compound forms incl. arr_real {+,-,/} std::complex<double>) x lengths 0..64, 1000 and the BIG sizes "
              "5000 (>4096) and 70000 (>65536) (all scalar values at lengths 0-3,5,8,16,33,64,1000, two per other length); unary -/+ bit-exact at all these lengths + "
              "extended alphabet; 106 sibling forms + 20 std::complex==cmplx_t equivalence forms x 7/49-letter extended alphabet; mismatches 0..8^2; copy/move n<=16, 5000, 70000; "
              "aliasing a op= a / a op a at all lengths, a |= a at n<=64, 5000, 70000; scalar operand = element of the same array (alias.elem: a op= a[k], a op a[k], a[k] op a, complex a op= a[k].re, a.slice = a[k]; k first/middle/last, n in 1,2,5,64; expected uses a[k] before the statement); concat 2..5 parts x lengths 0..3; BIG concatenation shapes (5000,3) (3,5000) (70000,70000) "
              "(0,70000,1,5000,2) (4096,4097,65535,65537) (200000,1) through concatenate, |, |=, zeropad, and mixed real|complex (70000,5000); zeropad 9x13; masks n<=8 and 8 mask "
              "patterns on n=5000, 70000, 200000; index lists len 1..3, n<=5 and 5 index-list shapes (reversed, stride permutation, 70001 repeats, single, every 4097th) on "
              "n=5000, 70000, 200000; trees depth<=2 (20.8k); chains depth<=5 (5.7M programs); aliasing statement programs (21 statement kinds on one array variable) depth<=4 "
              "x 3 type pairs (0.6M); asan pass: the same",
        thorough="as quick plus every length 0..128, 10000 and 200000 in the grid; masks n<=14 (asan 12); index lists len 1..5 over n<=7; depth-3 trees (t2 op t1),(t1 op t2) "
                 "(12M); chains depth<=7 (1.7G programs; asan pass depth<=6); aliasing statement programs depth<=6 (270M; asan pass depth<=5)"),
    deadline=dict(quick=150, thorough=3000),
    passes=[dict(name="main"), dict(name="asan", variant="asan", args=["--asan-pass"])],
    assumptions=COMMON_ASSUME + [
        "binary + and - are compared with == against the componentwise IEEE operation (+0/-0 not distinguished there, see the sibling check); real*real, real/real exactly",
        "unary minus / plus: BIT FOR BIT (NaN of any payload == NaN) against the component-wise sign flip and against the library's scalar operator-, for arr_real and "
        "arr_cmplx, at every length over the grid alphabet (which contains (v,+-0), (+-0,v)) and over all 7 / 49 combinations of {+0,-0,1,-1,inf,-inf,NaN}; the same "
        "bit-level condition is a side condition of every unary-minus node of the expression programs",
        "check 'sibling': every array form without std::complex<double> (106 forms, binary and compound) is compared bit for bit with the library's scalar operator on the "
        "same operand types over the 7/49-letter extended alphabet; asserted for the 92 forms where the unchanged tree agrees, recorded in the notes for the 14 forms "
        "(real operand promoted to (x,+0): real-valued {+,-,*} complex-valued, cmplx_t {+,*} arr_real) where the unchanged tree already differs in the sign of a zero",
        "-arr_cmplx is instantiated directly when cmplx_t is not constructible from std::vector<cmplx_t> (the compile-time fingerprint of the original non-compiling tree); "
        "otherwise only the run-time compile probe observes it",
        "complex products/quotients: textbook formula in long double, 8 eps (|a.re b.re|+|a.im b.im|) per component resp. 8 eps |a|/|b|",
        "division by an exactly zero divisor and program values outside 1e-100..1e100 are outside the domain (executed, not judged)",
        "combinations rejected at compile time (compound forms that would change the element type) are recorded in the path histogram, not reported as violations; "
        "arr_real {+,-,/} std::complex<double> are part of the regular grid when ResultType<real_t,std::complex<double>> is cmplx_t and cmplx_t is not constructible "
        "from std::vector (compile-time fingerprints of a tree that accepts them), otherwise they are left to the run-time compile probes",
        "check 'stdc.equiv': every form with a std::complex<double> operand must be bit-identical (NaN==NaN) to the same form with cmplx_t(z), over the grid and the extended alphabet",
        "random expression programs are replaced by all trees of depth<=2 and all left-deep chains of depth<=6 with leaf values from a fixed 16-letter alphabet",
        "the empty index list is the misuse case F7 of C05 and is not generated here",
        "forms the pinned tree rejects at compile time are observed by compiling (and, if accepted, running) a 40-line probe program per form at run time "
        "with the compiler of the pass against $VERIF_REPO/include; unary minus of a complex array inside expression programs is skipped (counted in the notes)",
        "a sanitizer report / fatal signal in the harness process is recorded as a violation of the case in progress and stops that shard (capped)",
    ],
)
