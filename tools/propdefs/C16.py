from props_common import COMMON_ASSUME

PROP = dict(
    harness="C16_order.cpp",
    level="exploration",
    engine="bex",
    technique="bounded-exhaustive enumeration of weak orders / permutations / ternary streams on the real sort, median, MedianFilter, "
              "medfilt and corr; brute-force window medians and O(n^2) long-double definitions of r, rho, tau as oracles",
    claim="every weak order of n <= 6 elements and every permutation of n <= 8 is sorted in both directions, tested with issorted and "
          "median; every ternary stream up to the stated length and every permutation of 1..7 is run through MedianFilter for every "
          "listed order / initial value in 3 framings; every pair of permutations up to the stated length goes through corr (all three "
          "types, both argument orders). A comparison-based implementation depends only on the weak order of its input, so the weak orders "
          "of a length exhaust its behaviours at that length; because the implementation need not be comparison based (absolute tolerances, "
          "narrowing casts), every weak order / stream / permutation is additionally run through 5 monotone value maps (1e-18 steps, "
          "1e-300 scale, adjacent doubles below 0.5 and above 1, 1e300 scale) and compared bit-exactly. corr is also run on long tie-free "
          "samples (n up to 20000, thorough 100000) around the sizes where 32-bit products of n overflow. Exhaustive within the bound, "
          "silent outside it (other value scales and longer inputs only through the listed letters).",
    note="trusts the harness's brute-force median and the long-double correlation definitions; Pearson is compared with a "
         "condition-aware tolerance 16*n*eps*kappa (kappa = n*sqrt(Sxx*Syy)/sqrt(Vx*Vy) of the moment formula)",
    rule="a case is one input (array / stream / block of all y-permutations for one x-permutation and one coefficient) passed to the real "
         "function; non-trivial = array with >= 2 distinct values (sort/median), stream with >= 2 non-zero samples (MedianFilter/medfilt), "
         "correlation block with n >= 3. Correlation blocks report the first failing pair of each failure class; the number of pairs "
         "evaluated is in path_histogram",
    bounds=dict(
        quick="sort/issorted/median: all weak orders n<=6 (5316), all permutations n<=8 (46k), 9 structured letters x lengths "
              "{1,2,9,10,1000,2000}; sort.nearly (both directions): an ordered run of L in {31,32,33,40,100,1000} (ascending / descending, "
              "strict / with repeats) followed or preceded by T in {1,2,5,20,L-1} unordered values below / inside / above the run, and two "
              "concatenated ordered runs (L1 in {32,40,100}, L2 in {1,31,40,100}, all 16 direction / repeat combinations); MedianFilter orders 3..12 x init {0,-1,5} x every sequence over {0,1,2}^k k<=6 and every permutation "
              "of 1..7, 3 framings each; long streams 2000 samples (8-level LCG) orders 3..12,16,33,64 x 2 letters x 4 framings; "
              "every sequence over {0,1,2,3}^k k<=4; medfilt n 3..9 x every sequence over {-1,0,2}^L L<=6 + 7 letters x every (n, length) pair of "
              "3..12 x 1..24; BIG sizes 70000 and 200000 elements (closed-form letters reversed ramp, two-valued, rotated ramp, ramp): sort both "
              "directions + issorted + median, medfilt n in {3,8}, MedianFilter orders {5,16,33} (whole and 65537-sample blocks), Pearson and "
              "Spearman in corr.large; corr: all pairs of permutations n<=5 and "
              "identity x all 5040 permutations n=7 (both sides), Pearson with 9 letter pairs (linear/cubic/exponential), Spearman, Kendall; "
              "every sort / median / MedianFilter / medfilt case above x 14 value maps {plain, r*1e-18, 1e-300*(r+1), 0.25+r*2^-54, "
              "-(1+r*eps), r*1e300/8, the unit changes plain*2^k for k in {-1000,-540,-300,300,1000}, the SUBNORMAL maps r*2^-1074 and "
              "r*2^-1060 (small integer multiples of the smallest subnormal, odd multiples and repeats) and the huge map r*2^1020 (not for "
              "the 7 medfilt letters, whose ranks reach 48)}; median.near_dbl_max: 10 pairs whose sum exceeds DBL_MAX, observed only; corr.units: every pair of "
              "permutations n<=5 (n=6,7: identity, reversal and every 90th / 720th x-permutation x all y) x the 10 non-plain maps applied to "
              "x, to y and to both x Pearson/Spearman/Kendall; corr.large: n in {100,1000,1290,1291,1625,2000,2048,5000,20000,70000,200000} (Kendall in this grid up to 20000) x {increasing linear, decreasing "
              "linear, increasing cubic, decreasing exponential, 2 independent LCG permutation pairs} x Pearson/Spearman/Kendall; corr.kendall.big: Kendall at n = 65537 (both argument "
              "orders) and n = 70000 with x[i]=i, y[i]=(7919*i) mod n and with a strictly decreasing relation",
        thorough="as quick with all weak orders n<=8 (545835 at n=8), all permutations n<=10 (3.6M at n=10), each x 14 value maps (n = 10, ternary k = 10 and quaternary k = 8: the 6 maps without the unit changes) and both "
                 "directions; corr.units over every pair of permutations n<=7 (25.4M pairs at n=7 x 30 map placements x 3 coefficients); MedianFilter orders + {16,33,64}, ternary streams k<=10, quaternary streams k<=8, long streams 10^4 samples for "
                 "every order 3..64, medfilt sequences L<=8 for n 3..12, corr all pairs of permutations n<=6 (518k pairs per coefficient and letter pair) and all 25.4M pairs "
                 "of permutations of length 7 for Pearson (linear x exponential letters), Spearman and Kendall; length 8: identity, reversal and every 63rd permutation (641 x-permutations) x all "
                 "40320 y-permutations for the three coefficients; corr.large also n in {65537, 100000, 1000003} (Pearson, Spearman); corr.kendall.big also "
                 "n = 70000 in both orders, n = 100000 (both letters) and n = 200000"),
    deadline=dict(quick=150, thorough=3000),
    assumptions=COMMON_ASSUME + [
        "median of an even window is the mean of the two middle elements (MATLAB/NumPy convention; the statement says 'true median'); the "
        "oracle is that mean computed exactly in long double and rounded once to double, which is representable whenever the two elements are "
        "(subnormal elements included). Where the SUM of the two middle elements exceeds DBL_MAX the library's (a+b)/2 returns inf although "
        "the median is representable: observed and counted in median.near_dbl_max, not judged (reported as a candidate finding)",
        "medfilt(x,n) window is x[j-n/2 .. j+n-1-n/2] with zeros outside (medfilt1 'zeropad' convention for odd and even n)",
        "range check 'to rounding': |corr| <= 1 + max(4 eps, value tolerance) (Pearson's moment formula returns 1 + 8.4e-15 for two "
        "collinear points, observed and reported, not judged a violation); symmetry tolerance 1e-12 as in the design; tie-free data only for corr",
        "sort stability is not part of the statement and not checked",
        "corr.units: Spearman and Kendall depend only on the two orders, so the mapped data must give the reference of the plain pair (sign "
        "flipped per decreasing map) within 64*n*eps / 8 eps; identical bits are expected but not demanded. Pearson is judged wherever the "
        "squares of the data, the sums of squares and the two variances n*Sxx-Sx^2, n*Syy-Sy^2 EACH stay within [1e-290,1e290] and the "
        "tolerance 16*n*eps*kappa is below 1e-3; the product of the two variances may leave the range (units 2^+-300 on both samples are "
        "judged). Units whose squares are not representable in double (2^+-540, 2^+-1000, the 1e-300 and 1e300 scales, on one or both "
        "samples) and the adjacent-double maps (kappa ~ 1e32) are only counted as finite / non-finite results, not judged)",
        "corr.large: references are O(n) long-double moments (Pearson), the exact integer closed form on O(n log n) ranks (Spearman) and a "
        "64-bit merge-sort inversion count (Kendall, cross-checked against the O(n^2) definition for every n <= 2000; a mismatch aborts the "
        "harness); tolerance 16*n*eps*kappa for the moment formulas, 8 eps for Kendall. The library's Kendall loop is O(n^2), so the 6-relation "
        "grid runs Kendall up to n = 20000 only and corr.kendall.big adds a handful of calls beyond 65536 elements (pair counts above 2^31)",
    ],
)
