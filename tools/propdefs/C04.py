from props_common import COMMON_ASSUME

PROP = dict(
    harness="C04_slices.cpp",
    level="model_checking",
    engine="hist",
    technique="bounded-exhaustive sweep of (n, i1, i2, step) on the real slice classes against a transcription of CPython's "
              "slice.indices; exhaustive (destination slice, source slice) pairs and the closure over all array contents on "
              "one array, every transition executed on the real array and compared with a copy-first model; second pass under ASan+UBSan",
    claim="every (n, i1, i2, step) of the box of the property (n<=10, i1,i2 in [-n-3,n+3], step in [-5,5], real/complex, const/mutable, "
          "end placeholder; thorough n<=32, steps -8..8), every right-hand-side kind and length relation, and every ordered pair of equal-count slices on one array "
          "(n<=10 thorough, all in-range index spellings, steps up to +-n) is executed on the implementation and compared element by "
          "element (bit patterns) with Python's selection; for n<=6 additionally every array content reachable by sequences of such "
          "assignments. Exhaustive within the bounds, silent outside them (large n only on a 13x13x20 lattice for n=1000, 5000, 200000 in both tiers, 100000 thorough).",
    note="trusts the 20-line transcription of PySlice_AdjustIndices (cross-checked once against python3 over the whole box) and, in the "
         "rel pass, the 8 guard elements behind the data for seeing stray writes (writes before the data are only seen by the asan pass)",
    mc_note="states = distinct configurations (element type, source kind, n, destination slice spelling, source slice spelling, array "
            "content before the assignment) of the same-array pair sweep plus distinct (type, kind, n, content) reached by the closure; "
            "transitions = slice assignments executed on the real array and compared element-wise with the model (all right-hand-side kinds); "
            "traces = the same-array (aliasing) executions among them, each compared with the copy-first model; all three are counted in the rel "
            "pass only (the asan pass repeats a subset and adds nothing to these counters)",
    rule="a case is one (type, constness, n, i1, i2, step) tuple (reads), one destination tuple with all its right-hand sides (writes), "
         "one destination slice with all equal-count source slices on the same array (pairs), one (type, n) closure or one tuple with all array=slice forms (self.assign); "
         "non-trivial = the expected selection has >= 2 elements or the statement lists the situation as throwing, resp. a "
         "right-hand side of unequal count",
    bounds=dict(
        quick="reads: whole box n<=10, i1,i2 in [-n-3,n+3], step -5..5 x {real,cmplx} x {const,mutable} + end forms; scalar/array/list right-hand sides for every valid "
              "destination n<=10 (lengths 0..count+2); slices of another array: destination n<=8 x all valid source tuples n2<=4, mutable and "
              "const; array = slice of itself (check self.assign: x = x.slice, x = cx.slice through a const reference, both twice in a row, x = *x.slice, x = y.slice with x of length "
              "0,1,n-2,n,n+3, x = array(x.slice)*2, x = array(x.slice)+array(x.slice [shifted])) for every valid tuple n<=8, steps -5..5, plus 10 big tuples on n=70000 (reversed, "
              "steps -1,-2,-7,-65537, 1, 3, 65537); same-array pairs n<=6, closure n<=4; BIG arrays (both passes): lattice i1,i2 in {0,+-1,+-2,+-n/2,+-(n-1),+-n,+-(n+1)} x step +-{1,2,3,7,n/2,n-1,n,n+1,...} on "
              "n=1000, n=5000 (>4096) and n=200000 (>65536; extra steps +-65537, +-70000; counts 200000, 100000, 66667 exceed 65536) with read, scalar/array/slice "
              "assignment and same-array shifted / reversed strided assignment. asan pass: lists n<=6, other-array n<=6 x n2<=3, pairs n<=5, closure n<=3, same BIG lattice",
        thorough="reads: n<=32 (asan pass 16), i1,i2 in [-n-3,n+3], step -8..8 (4.3M tuples); scalar/array right-hand sides n<=16 (asan 12), lists n<=10; other-array "
                 "destination n<=12 x n2<=7 (asan 10 x 4); self.assign n<=12, steps -8..8 (asan 10) and big n=70000, 200000; same-array pairs n<=10 (steps -n..n, all in-range spellings; asan n<=8); closure over all reachable contents n<=6 "
                 "(5.1G transitions; asan n<=5); BIG lattice additionally n=100000"),
    deadline=dict(quick=150, thorough=3000),
    # symbolize=0: a sanitizer report of a forked child costs ~6 ms instead of ~120 ms (the report text still names the error kind)
    passes=[dict(name="main"),
            dict(name="asan", variant="asan", args=["--asan-pass"],
                 env={"ASAN_OPTIONS": "detect_leaks=0:abort_on_error=0:allocator_may_return_null=1:symbolize=0"})],
    assumptions=COMMON_ASSUME + [
        "where the statement lists a situation as 'throws' both an exception and Python's selection are accepted",
        "after a rejected (unequal count) assignment only the elements outside the designated positions are required to be unchanged",
        "x.slice(0,n) = x (the array object itself as source) may throw or be a no-op",
        "indexing::end stands for i2 = n; random triples for n up to 1e5 are replaced by a fixed 13 x 13 x 20 lattice of boundary values on n = 1000, 5000, 200000 (100000)",
        "a slice is read through size(), begin()/end() iteration, operator*, array construction and assignment to an array",
        "self.assign: an array assigned from a slice of itself (or an expression of materialised slices of itself) must equal Python's selection of the OLD contents, "
        "with the new length; slices have no arithmetic operators, so the expression forms materialise them explicitly (array(x.slice) * 2, array(x.slice) + array(x.slice))",
        "a sanitizer report / fatal signal in the harness process is recorded as a violation of the case in progress and stops that shard (capped)",
    ],
)
