from props_common import COMMON_ASSUME

PROP = dict(
    harness="C10_cache.cpp",
    level="model_checking",
    engine="hist",
    technique="explicit exploration of ALL request histories up to a depth on the real per-thread plan caches (one fresh thread per history), "
              "for cache sizes 1, 2, 4; hook-observed LRU discipline + bit-identical results against a fresh thread",
    claim="for K in {1,2,4} (three builds) and six alphabets (complex, real, mixed, zero-padded/truncated fft(x, n) with inputs of different lengths, one whose histories contain rejected requests - odd irfft lengths, a plan applied to another length - and two with long-lived plan objects: FftPlan/FftPlanR/IfftPlan, and IfftPlanR/CztPlan) every request "
          "sequence of length <= 6 (thorough 8; 5/6 for the 10-letter alphabets) is executed in a fresh thread and its last request is checked for "
          "(1) bit-identical result versus a brand-new thread and (2) the LRU discipline of both caches read through the DSPLIB_VERIF accessor; "
          "a key that newly appears in a cache must be one the request itself creates when it is the first request of a fresh process (measured on the implementation in forked children), and other threads' requests must leave the calling thread's caches untouched (thread.isolation); plus a deterministic 10^4-request sequence over 40 lengths with held plans, and an ASan pass (use after eviction). Exhaustive "
          "within the depth; longer histories are covered only by the long sequence.",
    note="trusts the DSPLIB_VERIF key accessors (read-only, add-only hook); the LRU oracle takes the weak reading: at most K keys, "
         "requested plan most recent, untouched keys keep their recency order, only least-recently-used keys disappear (evicting more than "
         "necessary is not flagged)",
    rule="case = one request history (sequence of letters) replayed on fresh thread_local caches; non-trivial = length >= 2; "
         "states = distinct (K, alphabet, complex key list, real key list) reached; transitions = histories executed (each checks its last "
         "request); traces_validated_against_impl = the same executions (no separate model)",
    bounds=dict(quick="K in {1,2,4}; alphabets A,B,C,E,G: all sequences of length <= 6 over 6 letters (55986 each); J (requests on 1e308-scale data that overflow, then ordinary ones): length <= 4; D, F: length <= 5 over 10 letters; "
                      "alphabet H (lengths 65536, 65552, 131072, 98304, prime 4099): length <= 3; alphabet I (70747 = 263*269, 66049 = 257^2, prime 100003, 2*66049, 66047, 263^2): length <= 2; alphabet K (nested composite lengths 35|105, 55|165, 15|105|165, rfft 210 over 105): length <= 5; long sequence 2 x 2000 requests; ASan pass depth 4",
                thorough="J: length <= 6; alphabets A,B,C,E,G: length <= 9 (12.1M each per K); D, F: length <= 6 (1.1M each per K); H: length <= 4; I: length <= 3; K: length <= 7; long sequences 4 x 10^4; ASan pass depth 5"),
    deadline=dict(quick=300, thorough=3300),
    passes=[
        dict(name="k1", cache_size=1, args=["--configured-k", "1"]),
        dict(name="k2", cache_size=2, args=["--configured-k", "2"]),
        dict(name="k4", cache_size=4, args=["--configured-k", "4"]),
        dict(name="asan", variant="asan", cache_size=2, args=["--asan-pass", "--configured-k", "2"], env={"ASAN_OPTIONS": "detect_leaks=0:symbolize=0"}),
    ],
    assumptions=COMMON_ASSUME + ["a history is replayed from a fresh thread, so per-thread cache state at the start is empty"],
)
