from props_common import COMMON_ASSUME

PROP = dict(
    harness="C17_elementary.cpp",
    level="exploration",
    engine="bex",
    technique="bounded-exhaustive evaluation of every elementary / reduction / shape function and overload named in the statement on a "
              "product of value classes and on every shape tuple of a box, compared with long double libm (principal values, atan2 conventions)",
    claim="every scalar and array overload of abs, abs2, angle, exp, expj, log/log2/log10, the 12 power overloads, tanh, round, the dB and "
          "degree conversions, real/imag/conj/complex is evaluated on the full grid {0,-0,+-1e-100..+-1e100}(^2 for complex arguments, plus "
          "48 generic arguments at 3 radii and points next to the branch cut) x every integer and half-integer exponent in [-8,8], and on "
          "every array length of the bound; sum/cumsum/dot/mean/stddev/rms/norm/min/max/argmin/argmax/peak2peak on 8 letters x every "
          "length; upsample/downsample/linspace/arange/repelem/flip/zeropad/delayseq on every shape tuple of the stated boxes with "
          "index-tagged contents. Exhaustive within the bound, silent outside it (values between grid points are not examined).",
    note="oracle is 80-bit long double libm; tolerance 8 rounding units (8*eps*|ref|), multiplied by a stated condition number only where "
         "an argument has to be rounded before the operation (db2pow/db2mag exponent v/10, complex power p*Log z: 1+|p|(1+|arg z|), "
         "norm p=3 exponent 1/3); accumulations (n+8)*eps*sum|terms|; shapes and index contents exact",
    rule="(main pass) a case is one argument tuple of a scalar overload, or one array call (array length / shape tuple / (start,step) block of the integer "
         "arange over all stops); array cases report the first failing element of each failure class. Non-trivial = argument not in {0, +-1} "
         "(scalars), exponent not in {0,1} (power), array length >= 2 or shape parameters that change the shape (factor >= 2, delay != 0 ...). "
         "(asan pass, ASan+UBSan build) a case is one array length n in 0..64, 255, 1000: every reduction, element-wise array overload and shape "
         "function is called on exact-fit arrays of that length in a forked child; a sanitizer report (read / write past the end) is the "
         "violation, values are judged in the main pass",
    bounds=dict(
        quick="real grid 24 values (+ per-function extras), complex grid 24x24 + 144 generic arguments + 18 near-cut points, exponents every "
              "k/2 in [-8,8] (real, int, scalar^array, array^array, array^scalar overloads), array lengths every 1..32, 100, 1000, the "
              "full grid and the BIG sizes 70000 and 200000 (every element-wise array overload and every reduction, long-double references); "
              "reductions 15 letters (index, constant, alternating, two-level, LCG, max/min ties at "
              "both ends, negative index, all +0, all -0, mixed signed zeros, a single non-zero element first / middle / last, extremes at positions n-3 / n-2 = beyond "
              "index 65536 for the big sizes) x real/complex x lengths 1..32,100,1000,70000,200000 x 3 kinds of operand storage (exact fit; "
              "spare capacity with stale 1e6 values behind the end = arr(std::move(vector)) of a shrunk vector; result of a mask selection from "
              "a bigger array) with norm p in {default,1,2,3,4,8}; dot sweep: every n in 0..64, 65, 127, 129, 1001, 65537 x 2 letters x 3x3 storage "
              "kinds of the two operands x real/complex; aliased calls with ONE object as both operands: dot(x,x) (real and complex, the same n "
              "sweep x 2 letters x 3 storage kinds: value as for two different arrays and equal to the call with an equal-valued copy), "
              "power(x,x) and complex(x,x) for real arrays; element-wise array checks rotate the three storage kinds with the array length; upsample/downsample len<=12 x factor<=12 x phase<min; "
              "linspace n=1..100 x 5 endpoint pairs; integer arange every (start,stop,step) in [-12,12]^3 and arange(stop) stop in [-12,12]; "
              "fractional arange 4 starts x 6 dyadic steps x count 0..20 (3 template instantiations); long fractional arange starts "
              "{0,-5,2.5,1e6} x non-dyadic steps {0.1,0.01,0.6,1/3,-0.7,1e-3} x counts {100,1000,10000,100000} and the decimal grid starts "
              "{0,1,-5,2.5} x steps {0.1,0.01,0.3,0.7,1e-3,-0.1,-0.3} x every count 1..200 (exact element count wherever (stop-start)/step is "
              "within 1e-9 of an integer, stop not included, every element against start+k*step in long double within "
              "8 eps*max(|start|,|k*step|,|result|)); repelem len<=6 x n<=5; flip len<=12; "
              "zeropad len<=8 x pad<=8; delayseq (real and complex) N<=10 x delay in [-12,12]; big shapes (real and complex): upsample 70000 x3 "
              "-> 210000 and back, downsample 200000 /3, repelem 70000 x3, flip 200000, zeropad 70000->200000, delayseq N=200000 with delays "
              "{1,65536,70000,-65537,199999,-200000}; linspace n in {65537,70001,200000}; integer arange with 200000, 66667, 70000 and 200000 "
              "(descending) elements",
        thorough="as quick with: 120 magnitudes (every 2 decades 1e-100..1e100, a cluster around 1 incl. 1+-eps, the libm regime changes "
                 "20, 355, 400, 709, 1e3) = real grid 242 values, complex grid 242x242 + 1344 generic arguments (every pi/96 at 7 radii) + "
                 "near-cut points (about 60k points) for every scalar and array overload; exponents every k/8 in [-8,8] plus +-{1/3, pi/2, "
                 "7.9, 0.1} (137 values) for all 12 power overloads; array / reduction lengths every 1..1024, 4096, 10000, 70000, 200000; "
                 "upsample/downsample len<=32 x factor<=32; repelem len<=16 x n<=12; flip len<=64; zeropad 24x24; delayseq N<=32 x delay in "
                 "[-40,40]; linspace n=1..400; integer arange [-40,40]^3; dyadic fractional arange count<=64; long fractional arange also "
                 "count 10^6, decimal grid counts 1..2000"),
    deadline=dict(quick=150, thorough=3000),
    passes=[dict(name="main"), dict(name="asan", variant="asan", args=["--asan-pass"])],
    assumptions=COMMON_ASSUME + [
        "principal argument with the atan2 conventions for signed zeros, including the sign of a zero or +-pi result: angle(-a,-0) = -pi, "
        "angle(-a,+0) = +pi, angle(+a,-0) = -0, angle(-0,+0) = pi, angle(-0,-0) = -pi; complex powers use that argument (lower edge of the "
        "cut: conjugate branch); z^p = exp(p Log z), 0^p = 0 for p > 0; 0^p for p <= 0, negative real base with "
        "fractional exponent in the real overload, log of non-positive numbers and overflowing results (|ref| > 1e300) are not generated",
        "results below 1e-305 are compared absolutely (gradual underflow is not held against the library)",
        "round at exact ties accepts either neighbour; argmin/argmax/min/max accept any position of a tie (no first-occurrence rule), but "
        "max(x) must be an element of maximal value/magnitude, agree in magnitude with x[argmax(x)] and in value when all maximal elements "
        "are equal (likewise min); complex min/max order by modulus; "
        "complex dot accepts sum x*y, sum conj(x)*y or sum x*conj(y) (the library computes the bilinear form)",
        "stddev uses the n-1 normalisation (n >= 2 only), rms the n normalisation",
        "linspace(x1,x2,1) may be {x2} (MATLAB) or {x1}; its elements are compared at the scale max(|x1|,|x2|)",
        "fractional arange is only exercised with exactly representable (dyadic) steps so that the count (stop-start)/step is integral in "
        "exact arithmetic, as the quantifier requires; the long and decimal-grid aranges use stop = start + count*step rounded to double: where "
        "(stop-start)/step evaluated in long double from the double arguments is within 1e-9 of an integer k the result must have exactly k "
        "elements and exclude stop; otherwise the rounding is ambiguous and floor or ceil of the quotient is accepted",
    ],
)
