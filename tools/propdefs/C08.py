from props_common import COMMON_ASSUME

PROP = dict(
    harness="C08_multirate.cpp",
    level="exploration",
    engine="bex",
    technique="bounded-exhaustive enumeration of (class, L, M, h) configurations, impulse/dense input letters and framings on the real "
              "converters; long-double zero-stuff/filter/decimate chain as oracle with an existentially quantified fixed phase; "
              "resample() length, identity and alignment (pulse centroid, tone phase) for every (p, q, n)",
    claim="every reduced L/M in the box and the audio ratios, for the concrete class and the class selected by FIRResampler, with the "
          "default design and every symmetric impulse pair / a dense symmetric h of every stated length, is run on impulses at every "
          "position of the first 2M+2 samples, an LCG and a ramp letter, one-shot and framed, and decided against the textbook chain "
          "(exists t, for all letters and framings); resample() is called for every (p, q, n) of the box (unreduced too). "
          "Exhaustive within the bound, silent outside it.",
    note="trusts the long-double chain of the harness; the phase t is not prescribed, only required to be one integer per configuration; "
         "alignment is measured on two fixed band-limited signals (exact for symmetric filters)",
    rule="a 'chain' case is one (class, L, M, h): every input letter x framing is processed by a fresh object and the set of integer "
         "phases t (|t| <= len(h)+L+M) with |y[i]-w[iM+t]| <= 1e-12 max|w| is intersected over all runs (empty = violation); each call must "
         "return len*L/M samples; 'chain.reject': every frame length 0..2M+1 (non-multiples of M must throw); 'chain.reject.state': one object per (decimating class or FIRResampler mode with M > 1, L, M, h in {default, dense symmetric of length 2, max+1, 2max+3, 4max+1; audio: default, max+1}) is fed good frame, rejected frame (every non-multiple length <= 2M+1 in turn, must throw), good frame, ...; the good frames' outputs must be bit-identical to a fresh object fed the good frames only (a rejected call leaves the converter unchanged); 'chain.long': ONE frame of 70000 / 140000 input samples (rounded up to a multiple of M) through FIRRateConverter 3/2, 2/3, 5/7, 3/4, 7/5, 16/15, FIRInterpolator(3), FIRDecimator(3), FIRResampler 3/2, 2/3, 3/1, 1/3 with the default and a dense symmetric h: every output compared with the chain evaluated directly in long double (phase from the first 256 outputs) and with the same stream fed in frames of 4096*M (quick: rate converter 3/2, 2/3, interpolator, decimator, FIRResampler 3/2 at 70000, default h); 'resample.band': default designs (resample(x,p,q), resample(x,p,q,12,9.0), FIRResampler(L,M), FIRRateConverter(L,M)/FIRDecimator(M)) for L/M in {2/3, 2/5, 3/7, 3/8, 5/16, 160/441, 147/320, 1/2, 1/3, 1/8}: a tone at 0.4 of the new Nyquist rate must come out with amplitude 1 +- 0.05 and no other content above the stop-band bound, a tone at 0.5*(1+L/M) of the old Nyquist rate must come out with rms <= the stop-band bound; 'resample.rates': unreduced sample-rate pairs {48000/44100, 44100/48000, 96000/44100, 16000/48000, 48000/16000, 22050/8000} x input lengths {1000, 44100, 44739, 44740, 88200, 100000} (both tiers; thorough adds 192000/44100, 44100/192000, 32000/48000, 11025/48000, 2000000/3000000, 65536/65535 (inputs of 1 and 1000 samples), the reduced 441/160 with 4870000 samples (ceil(len/q')*q'*p' >= 2^31) and lengths 1, 22369, 22370, 32768, 65536, 131072, 200000) through resample(x,p,q), resample(x,p,q,8,7.0), resample(x,p,q,h) with a designed and a dense symmetric h: output length p'*ceil(len/q') and samples equal (1e-12 max|y|) to the call with the reduced ratio; FIRResampler(P,Q) fed one frame of floor(len/q')*q' samples against FIRResampler(p',q'); 'chain.scale': every configuration of the box (default h, dense symmetric h of max+1 and 4max+1 taps; audio ratios default h) with an LCG record of >= 12 M samples fed in frames of M, 2M and the mixed patterns (M,3M,2M), (4M,M,M,2M): the record multiplied by 2^-110, 2^-300, 2^-600, 2^+300 must give the unit-scale output times the same power of two (1e-12 max|y|, and bit for bit); 'getters': next_size / "
         "prev_size for 0..4M, rates, simplify; 'resample.len'/'resample.h': every (p,q,n) resp. (p,q,len(h)) x input lengths "
         "{1,q-1,q,q+1,5q+3,200q}; 'resample.align': every (p,q,n), p != q. Non-trivial = configuration with len(h) >= 2 and L*M > 1, "
         "M > 1 (reject/getters), p != q (resample)",
    bounds=dict(
        quick="L, M in 1..8 (all coprime pairs: FIRRateConverter and FIRResampler; FIRInterpolator L 1..8; FIRDecimator M 1..8; 5 unreduced "
              "FIRResampler argument pairs); h: default design, every symmetric pair delta_j+delta_(n-1-j) and a dense symmetric letter for "
              "every length 2..2max(L,M)+3 and {4,12,40}*max+{0,1}; inputs: impulse at every position 0..2M+1 (one-shot and frame M), LCG and "
              "ramp (one-shot and frames M..6M); audio ratios 160/441, 441/160, 147/160, 160/147, 320/147 (+interp 147,160,320,441, decim "
              "147,160,441): default h and 3 lengths x <= 5 pairs + dense, 8 boundary impulse positions; resample: p, q in 1..8, n 1..12 "
              "(beta 0/5/9 for n in {1,10}), custom h lengths 2..2max+3, 4max, 4max+1, 12max+1; alignment p, q in 1..8 + 7 audio pairs, n 1..12",
        thorough="L, M in 1..24 (all coprime pairs: FIRRateConverter and FIRResampler; FIRInterpolator L 1..24; FIRDecimator M 1..24); h as quick for "
                 "max(L,M) <= 16, above that every pair/dense for lengths 2..2max+3, 4max, 4max+1 and 5 pairs + dense for 12max(+1), 40max(+1); framings: "
                 "impulses one-shot, frames M, 2M and the mixed pattern (M,3M,2M); LCG and ramp one-shot, frames M..8M and three mixed patterns "
                 "(M,3M,2M), (4M,M,M,2M), (2M,0,3M,0,M); audio ratios 160/441, 441/160, 147/160, 160/147, 320/147, 80/147, 147/80, 147/320, 640/147 "
                 "(+interp 147,160,320,441, decim 147,160,441): default h and 11 lengths {2,3,max-1,max,max+1,2max+3,4max,4max+1,12max+1,40max,40max+1} "
                 "x <= 5 pairs + dense, impulse at every position 0..2M+1 for the default h and len(h) <= 4max+1; chain.long additionally 270000-sample "
                 "frames for the five basic forms; resample: p, q in 1..32 (unreduced too), n 1..12 each with beta in {default, 0, 2.5, 9, 14}, custom h "
                 "lengths 2..2max+3, 4max, 4max+1, 12max+1; alignment p, q in 1..32 + 7 audio pairs, n 1..12; band limitation for every reduced "
                 "L/M in [0.3, 2/3] and every 1/M with M <= 16 plus 160/441, 147/320, 80/147"),
    deadline=dict(quick=150, thorough=3000),
    assumptions=COMMON_ASSUME + [
        "'a fixed phase': one integer t per (class, L, M, h), any value with |t| <= len(h)+L+M (weakest reading); tolerance 1e-12 relative "
        "to max|w| of the undecimated reference (>= max|y|)",
        "h is symmetric with non-zero sum (the classes normalise by sum(h)); custom h with L = M = 1 through FIRResampler is excluded "
        "(the wrapper by-passes: 'returns x itself when p = q')",
        "'aligned to within one output sample': |shift| <= 1 (+1e-6) where shift = centroid(y) - centroid(x)*p/q for a Gaussian pulse "
        "(sigma = 4q input samples) and -phase/(2 pi f) for a tone at 10 % of the narrower Nyquist frequency; both are exact for symmetric "
        "filters, so the polyphase decimator's inherent (M-1)/M advance is inside the bound by construction (margin 1/M)",
        "'approximating the band-limited signal' is only checked weakly: pulse area within [0.5, 2], tone amplitude within [0.25, 2]",
        "'rejecting' a frame is read as: exception and no state change (checked bit for bit against a fresh object; FIRInterpolator and the interpolating / by-pass modes of FIRResampler have M = 1 and no rejectable length)",
        "'approximating the band-limited signal' for the default designs: stop-band bounds are 10 x the largest leakage measured on the unchanged tree for the tone half-way between the new and the old Nyquist rate (input amplitude 1): resample(x,p,q) [n=10, beta=5] measured 8.5e-4 -> bound 8.5e-3; resample(x,p,q,12,9.0) measured 9.2e-3 -> 9.2e-2; FIRResampler / FIRRateConverter / FIRDecimator default design (hlen 12, 90 dB) measured 9.1e-3 -> 9.1e-2 (the wider Kaiser main lobe puts the 2/3 tone at the edge of the transition band); a cut-off at the old instead of the new Nyquist rate gives 0.707",
        "resample() inputs have length >= 1",
        "known findings F10/F11 are keyed on the exact failure signature computed by the harness (detail keys f10shift, f11, f11dl): any "
        "other misalignment, exception, wrong length, or the same exception at arguments the floor-padding mechanism does not predict, "
        "is a violation",
    ],
)
