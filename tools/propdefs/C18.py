import json
import os
import subprocess
import sys
import tempfile
import time

from props_common import COMMON_ASSUME

PROBE_CHECK = "delayseq.cmplx.compiles"
PROBE_PARAMS = {"T": "cmplx_t"}


def _probe(vbuild, lib):
    """F26: does dsplib::delayseq instantiate for complex arrays?  Compile-only (-fsyntax-only) probe of a 5-line TU."""
    src = os.path.join(vbuild.VERIF, "harness", "C18_delayseq_cmplx_probe.cpp")
    cmd = [lib["cxx"]] + list(lib["cflags"]) + list(lib["inc"]) + ["-fsyntax-only", src]
    p = subprocess.run(cmd, stdout=subprocess.PIPE, stderr=subprocess.STDOUT, universal_newlines=True)
    first = ""
    for ln in p.stdout.splitlines():
        if "error" in ln:
            first = ln.strip()
            break
    return p.returncode == 0, first[-300:]


def _probe_shard(ok, msg, replay_hit):
    """shard-shaped result of the probe so that check.finalize treats it like any other case"""
    recs = []
    if not ok:
        ps = json.dumps(PROBE_PARAMS, separators=(",", ":"))
        recs.append({"property": "C18", "check": PROBE_CHECK, "site": "delayseq", "params": PROBE_PARAMS, "params_str": ps,
                     "detail": {"kind": "compile"}, "observed": "does not compile: " + msg,
                     "expected": "harness/C18_delayseq_cmplx_probe.cpp (delayseq(arr_cmplx, int)) compiles"})
    return {"pass": "probe", "evaluations": 1, "distinct_nontrivial": 1, "states": 0, "transitions": 0, "traces": 0,
            "violations": len(recs), "replay_hit": 1 if replay_hit else 0, "caps": [],
            "checks": {PROBE_CHECK: {"evaluations": 1, "violations": len(recs), "samples": [json.dumps(PROBE_PARAMS, separators=(",", ":"))]}},
            "notes": {"probe: delayseq<cmplx_t> compiles" if ok else "probe: delayseq<cmplx_t> does NOT compile": 1},
            "worst": {}, "violation_records": recs}


def _driver(pid, cfg, tier, seed, replay_rec, deadline):
    import vbuild
    chk = sys.modules.get("check") or sys.modules.get("__main__")
    if chk is None or not hasattr(chk, "run_pass"):
        import check as chk
    t0 = time.time()
    os.makedirs(vbuild.BUILD, exist_ok=True)
    lib = vbuild.build_lib("rel")
    ok, msg = _probe(vbuild, lib)
    results = []
    if replay_rec is not None and replay_rec.get("check") == PROBE_CHECK:
        results.append(_probe_shard(ok, msg, True))
    else:
        if replay_rec is None:
            results.append(_probe_shard(ok, msg, False))
        workdir = tempfile.mkdtemp(prefix="run-%s-" % pid, dir=vbuild.BUILD)
        pas = dict(name="main_cmplx" if ok else "main", flags=["-DVERIF_DELAYSEQ_CMPLX"] if ok else [])
        results += chk.run_pass(pid, cfg, pas, tier, replay_rec, deadline, workdir)
        for xp in cfg.get("extra_passes", []):
            results += chk.run_pass(pid, cfg, xp, tier, replay_rec, deadline, workdir)
        import shutil
        shutil.rmtree(workdir, ignore_errors=True)
    extra = ["delayseq<cmplx_t> %s on this tree: complex delayseq cases %s" % (
        "compiles" if ok else "does not compile", "are part of the run" if ok else "are skipped, complex shifts are made by the harness")]
    return chk.finalize(pid, cfg, tier, seed, results, time.time() - t0, replay_rec, extra_assumptions=extra)


PROP = dict(
    harness="C18_delay_detect.cpp",
    driver=_driver,
    level="exploration",
    engine="bex",
    technique="bounded-exhaustive enumeration of (length, shift, letter, noise level, fs) for finddelay/gccphat, shape boxes for "
              "delayseq/peakloc, and (preamble, end position modulo frame length, floor, amplitude, threshold, framing) for "
              "PreambleDetector on the real code; long-double evaluation of the documented detector statistic; compile probe "
              "for the complex delayseq instantiation",
    claim="every tuple of the stated finite sets is executed on the implementation and compared with an exact / long-double "
          "oracle; no sampling. Exhaustive within the bound, silent outside it (other signals than the fixed white LCG "
          "letters, other preamble families, more than one preamble per stream).",
    note="finddelay/gccphat are not linear in the data, so the three white letters are evidence for 'a white signal', not a proof "
         "for all of them; the structural parameters (length, every shift, sign, lag-unwrap boundary, frame offset) are enumerated "
         "completely. Detector configurations for which the documented statistic itself is ambiguous (within 1e-6 of the threshold, "
         "or above it away from the preamble end) are excluded and counted in path_histogram",
    rule="case = one (len, d, letter, noise, [fs]) call of finddelay / gccphat; one (N, d) of delayseq; one (n, idx, cyclic, "
         "triple) of peakloc; one stream (preamble, end frame, offset, floor, amplitude) of the detector = 8 detector objects "
         "(4 thresholds x 2 framings) run over 4 frames each; for detector.reset the same after a history (earlier traffic + reset()) "
         "applied to each of the 8 objects, for detector.reject with one rejected (throwing) call inserted between the valid calls. Non-trivial = d != 0 (estimators), 0 < |d| < N (delayseq), every "
         "peakloc triple, every stream with a preamble or a noise floor",
    bounds=dict(
        quick="finddelay (real, complex) and gccphat (fs 1, 8000, 48000): len {128,129,200,256,500} x every d in [-len/4, len/4], "
              "len {1000,5000} x d in {0,+-1,+-len/8,+-(len/4-1),+-len/4}; 3 white letters x {clean, noise -40 dB, -30 dB}; 2-channel "
              "gccphat per (len,d); delayseq real N <= 16, d in [-N-2,N+2] (complex too when it compiles); peakloc n 3..6, every idx, "
              "cyclic on/off, every triple over {-2,-1,0,1,2,5} with curvature != 0; detector: Zadoff-Chu {17,31,63,64,127,139,256,512} "
              "x roots {1,5} and m-sequences {31,63,127,255,511}; preamble end at every offset modulo frame_len (length <= 64) or 32 "
              "offsets incl. 0,1,frame_len-1 and around nh (longer), in frame 1 of 4; silence / -40 dB floor; amplitudes 1e-3,1,1e3; "
              "thresholds 0.3,0.5,0.7,0.9; 1 and 2 frames per call; streams without preamble; reset histories on one detector object: "
              "{a: 4-frame stream with a preamble at another offset, b: 4 frames of noise at the preamble's power, c: one frame ending "
              "in the middle of a preamble, d: nothing} then reset() then a preamble stream, for every preamble x end offsets "
              "{0, nh/2, nh-1, frame_len-1} x silence / floor x 3 amplitudes x 4 thresholds x 2 framings; rejected calls on one object: one "
              "call of L_bad in {1, 5, frame_len-1, frame_len+1} noise samples (must throw) placed {a: before the stream, b: after the "
              "first call, c: right before the call in which the preamble completes} of a 4-frame stream whose preamble ends in frame 2, "
              "same preambles / offsets / floor / amplitudes / thresholds / framings; BIG: finddelay (real, complex), gccphat (fs 48000) "
              "and 2-channel gccphat on signals of 70000 samples with d in {+-1, +-9999, +-17500} and 80000 samples with d in {+-1, "
              "+-9999, +-20000} (FFT length 131072), clean and -30 dB noise; delayseq of 100000 samples, d in {0, +-1, 4096, 65535, "
              "+-65536, -65537, +-99999, 100000, 100001}, real and complex; detector: streams of 140250 (zc139) / 140562 (zc512) "
              "samples fed 1 and 2 frames per call with the preamble ending on sample 65535, starting on sample 65536 and straddling "
              "it, silence / floor, thresholds 0.5, 0.9; EXACT-ZERO frames: streams [2 frames of traffic][1, 2 or 5 frames exactly zero in every "
              "sample][2 frames of traffic], traffic = noise 40 / 20 dB below the preamble power, preamble absent / ending on the last "
              "sample before the gap / ending mid-frame before the gap / starting on the first sample after the gap, every preamble, 3 "
              "amplitudes, 4 thresholds, 1 and 2 frames per call; in the silence variant of the preamble streams every frame without "
              "preamble samples is exactly zero; FIRST SAMPLES: detector.first - the preamble on samples 0..nh-1 (no lead-in) of the stream "
              "of a fresh detector and right after reset() following a preamble stream / noise traffic, every preamble, silence / floor, 3 "
              "amplitudes, the thresholds, 1 and 2 frames per call: detection in call 0 at offset nh-1; SCALE: detector.refscale - every preamble handed to the constructor as c*h, c in {1e-3, "
              "0.1, sqrt 2 (the +-1+-j QPSK mapping), 10, 1e3}, stream carrying c*h / the unit-scale h / no preamble, end offsets "
              "{0, nh/2, nh-1, frame_len-1}, silence / floor, thresholds 0.5 and 0.9, 1 and 2 frames per call; peakloc(real): every "
              "case of the grid repeated with the data times 2^k, k in {-1000,-300,-60,-50,-40,40,300,1000}, location bit-identical "
              "to unit scale; peakloc(complex): n {3,5}, every idx, cyclic on/off, every triple over 6 complex values with non-zero "
              "denominator, data times 2^k, k in {-300,-60,-50,-40,40,300}, bit-identical",
        thorough="estimators: every len in 128..1100 (3 letters x {clean, -40 dB, -30 dB}), "
                 "len {2047,2048,2049,4095,4096,5000,8191,8192} (1 letter x {clean, -30 dB}) - i.e. every power of two 128..8192 and the "
                 "lengths just below / above - each with every d in [-len/4, len/4], fs {1, 8000, 48000}, and the BIG lengths of quick; "
                 "shifts beyond the statement, len/4 < |d| < len/2, for len {128,255,256,257,511,512,513,1000,1023,1024,2047,2048} "
                 "(finddelay real and complex, clean) wherever the linear cross-correlation peak at d exceeds 4x every other lag; "
                 "delayseq N <= 40 and the BIG set; peakloc n 3..8, triples over {-5,-2,-1,0,1,2,3,5}; detector: Zadoff-Chu lengths "
                 "{16,17,23,31,32,33,47,63,64,100,127,128,139,199,255,256,300,511,512} x 2 roots and m-sequences {31,63,127,255,511} "
                 "(frame lengths 17..725), every offset modulo frame_len (incl. preamble starting on the first sample of a frame), "
                 "preamble ending in frame 1 and in frame 2, thresholds {0.3,0.4,0.5,0.6,0.7,0.8,0.9,0.95}; reset histories a-d and "
                 "rejected-call histories (3 placements x 4 L_bad) at the 32 boundary/spread offsets per preamble; long streams and "
                 "exact-zero-frame streams as quick over the larger preamble / threshold grid; detector.refscale at the 32 offsets per "
                 "preamble; peakloc scale letters on the thorough grids (complex: n {3,4,5,6,8})"),
    deadline=dict(quick=150, thorough=3000),
    assumptions=COMMON_ASSUME + [
        "white signal = fixed deterministic letters (sum of 4 LCG uniforms, unit variance); noise = another such letter 30 / 40 dB below",
        "gccphat exists for real data only; its complex peak interpolation is exercised through it",
        "shifts with len/4 < |d| < len/2 (check finddelay.beyond, thorough) exceed the statement; they are checked only where any "
        "estimator returning the lag of the largest cross-correlation value must answer d (peak at lag d > 4x the magnitude at every "
        "other lag of the harness's own linear cross-correlation); other pairs are skipped and counted",
        "fractional delays are not part of the statement; a band-limited fractional-delay grid for gccphat exists in the harness behind "
        "-DVERIF_GCCPHAT_FRAC and is NOT enabled: on the pinned tree gccphat's sub-sample refinement moves away from the true delay "
        "(delay 0.375 samples -> tau = -0.52), reported to the lead as an observation outside C18",
        "peakloc non-cyclic at idx 0 / n-1 has no three samples around the index: not checked (statement silent)",
        "scale letters: multiplying the data by a power of two is exact, so peakloc must return the bit-identical location (held by the "
        "pinned tree for every case; the complex overload is limited to 2^+-300 because its division squares the operands, and only its "
        "scale invariance is checked - the statement does not define it); gccphat's refinement works on the PHAT-normalised "
        "correlation, which does not scale with the data, so it gets no scale letters here (the purity pass covers 2^+-100)",
        "the reference given to the PreambleDetector constructor is a free input: the documented statistic is evaluated with the "
        "scaled reference and the library's rms() of it, which makes the expected score independent of the reference scale",
        "detector reference = header formula with the matched (flipped, conjugated) preamble, normalised by the library's own rms(h) "
        "(its n-1 normalisation belongs to C17); score must be within 1e-9 of the reference and in [0.95, 1]; frame = the argument of one "
        "process() call (1 or 2 multiples of frame_len())",
        "the returned preamble is compared bit-exactly with the received stream samples (transmitted preamble + floor)",
        "reset(): the header gives no contract; it is read as 'afterwards the object handles a stream like a freshly constructed "
        "detector', checked with the same oracle and tolerances as a fresh object (score within 1e-9, not bit-identical: the moving-average "
        "recalculation phase is not reset). Earlier traffic has the same amplitude scale as the stream that follows",
        "rejected calls: the header requires the length of sig to be a multiple of frame_len() and the implementation (and the "
        "repository's own test) answer anything else with an exception; the check requires that exception and that the object is "
        "unchanged by the rejected call (valid frames handled as if it had never been made)",
    ],
)
