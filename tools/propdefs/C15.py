from props_common import COMMON_ASSUME

PROP = dict(
    harness="C15_primes.cpp",
    level="exploration",
    engine="bex",
    technique="bounded-exhaustive enumeration of integer arguments on the real functions, each block in a forked child with watchdog; sieve / Miller-Rabin oracle; hook step counter",
    claim="every argument in the stated ranges (all n <= 2^26 thorough, boundary windows at 2^16, 2^24, 2^31, 65521^2, 2^32, a 32-bit lattice, "
          "semiprimes around 2^16, pseudoprime families; thorough: every base-2 Fermat pseudoprime below 2^32) is executed on the implementation and compared with an exact oracle, including a deterministic cost oracle; "
          "no sampling. Exhaustive within the bound, silent outside it.",
    note="trusts the harness's sieve/Miller-Rabin (cross-checked against each other on the overlap) and the DSPLIB_VERIF step-counter hook placement",
    rule="every argument of a stated integer range is passed to the real function in a forked child with a watchdog and "
         "compared with a sieve / deterministic Miller-Rabin / 64-bit trial division; the cost oracle is the trial-division "
         "counter of the DSPLIB_VERIF hook (<= 32*sqrt(n)+4096 per primality test). A case is one argument; non-trivial = "
         "argument that is prime or has >= 2 prime factors (isprime/factor), has >= 2 primes below it (primes), is "
         "composite (nextprime), or m > 2 (pow2 helpers)",
    bounds=dict(
        quick="isprime/factor: every n in [0,2^20], every n within 1024 of 2^16, 2^24, 2^31, 65521^2, 2^32-1, lattice 4099*64*k+17 "
              "over 32 bits, all p*q<2^32 of the 40 primes nearest 2^16; adversarial composites < 2^32: every p*q with q-1=m(p-1), m<=16, every p*q*r with (r-1)|(pq-1), p<q<2000, "
              "and ~150 published strong pseudoprimes / Carmichael numbers (incl. 3215031751); primes(n) n<=1024 + 4 large; nextprime every n<=8192 + "
              "windows +-48; nextpow2/ispow2 every m<=2^20 and within 256 of every 2^k and INT_MAX",
        thorough="isprime/factor: every n in [0,2^26], windows +-4096, lattice 4099*k+17 over the whole 32-bit range (1.05M points); adversarial composites: m<=64, p<q<6000, and EVERY odd composite "
                 "n<2^32 with 2^(n-1)=1 mod n (found by the harness scanning all 2^31 odd numbers); "
                 "primes(n) n<=4096 + 4 large; nextprime every n<=262144 + windows +-256; pow2 helpers every m<=2^26 + windows"),
    deadline=dict(quick=150, thorough=1500),
    assumptions=COMMON_ASSUME + [
        "termination: a call that does not return within 8 s (normal: < 2 ms) is reported as a hang",
        "complexity of primes(n) is not bounded by sqrt(n) (its output alone is larger); only its value is checked",
    ],
)
