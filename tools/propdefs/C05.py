from props_common import COMMON_ASSUME

PROP = dict(
    harness="C05_faultbox.cpp",
    level="fault_enumeration",
    engine="forkbox",
    technique="exhaustive enumeration of a boundary-directed misuse catalogue (call form x argument-length/index grid, two-step programs) on the "
              "real library under ASan+UBSan with NDEBUG, each case in a forked child with watchdog; outcome classification",
    claim="every case of a hand-written catalogue of ~200 public call forms x boundary grids (lengths {0,1,2,3,n-1,n,n+1,2n} relative to the "
          "expected length, index lists over {-n-1..n+2} and empty, masks of length n-1/n/n+1, slice right-hand sides of every length 0..count+2, "
          "plans/filters/resamplers constructed and then applied to another length) is executed under AddressSanitizer+UndefinedBehaviorSanitizer "
          "in the shipped NDEBUG configuration; the only accepted outcomes are normal return and C++ exception. The grid is enumerated "
          "completely, nothing is sampled; the catalogue itself is finite and hand-written.",
    note="covers the call forms listed in the harness (the evidence histogram counts them); an entry point added to the library later is not "
         "covered until it is added. Termination is judged by a 20 s watchdog per child (a case takes microseconds); complexity of the prime "
         "helpers is decided in C15. Numeric parameters stay inside their documented ranges (sizes/orders >= 1, overlap < window, |f| <= fs/2 "
         "handled by exception, non-empty arrays only where a reduction needs an element).",
    rule="case = one call program with concrete argument shapes, run in a forked ASan+UBSan child; outcome in {returned, C++ exception} "
         "satisfies the property, {sanitizer report, fatal signal, std::terminate, timeout} violates it; every case is distinct and counts as "
         "non-trivial (it executes library code on a boundary shape)",
    bounds=dict(quick="the whole catalogue (same in both tiers)", thorough="the whole catalogue"),
    deadline=dict(quick=200, thorough=1200),
    passes=[dict(name="asan", variant="asan", env={"ASAN_OPTIONS": "detect_leaks=0:abort_on_error=0:allocator_may_return_null=1:symbolize=1",
                                                   "UBSAN_OPTIONS": "print_stacktrace=0"})],
    assumptions=COMMON_ASSUME + ["clang 14 ASan+UBSan detect the memory errors / undefined behaviour that occur (uninstrumented libstdc++ internals excepted)"],
)
