from props_common import COMMON_ASSUME

PROP = dict(
    harness="C12_adaptive.cpp",
    level="model_checking",
    engine="hist",
    technique="history exploration on the real LmsFilter/RlsFilter objects: all framings x all lock schedules replayed on fresh objects, per-sample "
              "drive with coeffs() read before every sample, long-double textbook recursions and the normal-equation solution as oracles",
    claim="for every configuration of the stated parameter box and every (x, d) letter pair the real filter is driven sample by sample (e = d - y "
          "bit-exactly, a-priori y from the coefficients read before the sample, y/e/coeffs against a long-double recursion, RLS against the "
          "long-double normal equations) and, for every composition of 6 granules (7 thorough) with every lock flag per frame, as complete "
          "histories whose outputs and coefficients are compared sample by sample with a lock-aware long-double recursion (locked: coefficients "
          "frozen, tap history advances, NLMS power from the true window) and, as self-consistency, with the per-sample drive under the same lock pattern. "
          "States = distinct canonical (configuration, coefficients, tap history, inverse correlation matrix, lock flag) byte images reached; "
          "transitions = process() calls; traces = complete histories executed on the implementation. Exhaustive within the bound, silent outside it.",
    note="there is no separate model: every state is read from the real object (-fno-access-control). Trusts the harness's long-double LMS/NLMS/RLS "
         "recursions; the RLS recursion is cross-checked against the normal-equation solution (real and complex) in every rls.batch case "
         "(a disagreement aborts the run with exit 4)",
    mc_note="every state and transition is an execution of the real LmsFilter/RlsFilter; the oracle for every framing/lock history is an independent "
            "lock-aware long-double recursion (y, e per sample, coeffs() after every frame, 1e-9 relative); the same implementation driven one sample "
            "per call (checked against coeffs() read before each sample and the same recursion) is a second, self-consistency reference",
    passes=[dict(name="main", flags=["-fno-access-control"])],
    rule="adapt.step / rls.batch: a case is one (kind, real|complex, len, parameters, x letter, d letter) driven one sample per call over the horizon; "
         "adapt.hist: a case is one configuration x letter pair and contains all 2*3^(G-1) (framing, lock schedule) histories plus the 2^G per-sample "
         "model drives; adapt.converge: one (kind, len, system, system length). Non-trivial = the case ran to the end of its horizon with all "
         "identities judged (every case has >= 2 non-zero input samples); cases whose LMS step is outside the stable range "
         "(mu*max||u||^2 >= 2) keep the identities but skip the reference comparison (counted in path_histogram), RLS comparisons stop once the "
         "Frobenius condition estimate of the reference exceeds 1e6 (counted; DESIGN said 1e8, but the double recursion errs like cond*eps and the dense box left only a 3.6x margin there)",
    bounds=dict(
        quick="{LMS mu{0.01,0.1,0.5} x leak{1,0.999,0.9}; NLMS mu{0.01,0.1,0.5,1} x leak{1,0.999,0.9}; RLS lambda{0.9,0.95,0.99,0.9995,1} x delta{1e-2,1,1e2,1e4}} "
              "x {real,complex} x len{2,3,4,8,16} x x-letters{LCG white, sinusoid, impulse train} x d-letters{system impulse, decaying/rotating, dense, independent}, "
              "horizon 32, one sample per call; adapt.long: 8 parameter sets (LMS, NLMS, RLS lambda{0.9,0.95,0.99}) x len{2,4,8} x real/complex x white input x "
              "{dense system, independent d}, 200 unlocked samples on one object against the long-double recursion, plus geometric-factor horizons > 1.2*745/|ln f|: "
              "LMS(mu 0.1)/NLMS(mu 0.5) with leak f and RLS(delta 1) with lambda f, (f, horizon) in {(0.5, 1300), (0.9, 8500)}, len{2,4}, real/complex, every sample judged "
              "(finite y/e/coeffs(), identities, recursion); rls.batch on the RLS part; histories: len{2,3,4} x whole box x 4 letter pairs (incl. a white letter whose level steps by 20 dB between granules: 0.01, 0.1, 1, ...) x all 32 framings of 6 granules "
              "(2 samples each) x all 2^frames lock schedules x 3 coeffs() read policies {after every frame, only at the end, only after locked frames} (3*486 histories + 64 per-sample drives per case) + every history re-run with a rejected call process(x',d'), len(x') != len(d') (x' longer / shorter), inserted at every frame boundary in turn, len{8,16}: 6 parameter sets x 4 granules of len/2+1; "
              "adapt.stream: LONG STREAMS - 140 000 samples on one object (above the 4096 and 65 536 thresholds), len 4, LMS(mu 0.05, leak 0.999) / NLMS(mu 0.5) / RLS(lambda 0.99), "
              "real and complex, fed (a) in one call and (b) in frames of 1000, every y/e sample and every coeffs() read against the long-double recursion; "
              "convergence: len 2..16, 32, 64 x NLMS(mu 1, leak 1; 40*len samples) / RLS(lambda 1, delta 1e4; 4*len samples) x real/complex x 3 systems x system length {len, len/2, 1}",
        thorough="adapt.step / rls.batch: dense box {LMS mu{0.005,0.01,0.05,0.1,0.2,0.5} x leak{1,0.9999,0.999,0.99,0.9}; NLMS mu{0.01,0.05,0.1,0.25,0.5,1,1.5} x the same leaks; "
                 "RLS lambda{0.9,0.95,0.98,0.99,0.999,0.9992,0.9995,0.9999,1} x delta{1e-2,1e-1,1,10,1e2,1e3,1e4}} (107 configurations) x real/complex x "
                 "len{2,3,4,5,6,7,8,10,12,16,20,24,32,40,48,64} x 12 letter pairs, horizon 64; adapt.long with len{2,3,4,8,16} and 1000 samples and (f, horizon) up to (0.99, 90000); "
                 "adapt.stream with len{2,4,8} and frames {one call, 1000, 4097, 65536}; histories (each = all framings x all 2^frames lock schedules x 3 read policies + a rejected "
                 "call at every boundary, x' longer and shorter): design box x len{2,3,4} x 4 letter pairs x {6 granules of 1, 2, 3 samples; 7 granules of 2 (2^7 granule lock patterns, "
                 "3*1458 histories); 8 granules of 1 (2^8 lock patterns, 128 framings, 3*4374 histories + ~40 000 rejected-call runs per case)}, the other 70 configurations of the dense box "
                 "x len{2,3,4} and the design box x len{5,6} with 6 granules of 2; long filters len{8,12,16,24,32,48,64} x 6 parameter sets x 4 and 5 granules of len/2+1; "
                 "convergence for every len 2..64 x {NLMS mu 1 (40 len), NLMS mu 0.5 and 1.5 (80 len), RLS lambda 1 delta 1e4 (4 len)} x real/complex x 3 systems x "
                 "system length {len, len/2, 1} x 3 realisations of the white letter"),
    deadline=dict(quick=150, thorough=2400),
    assumptions=COMMON_ASSUME + [
        "output convention of both headers: y[k] = sum_j coeffs()[j] x[k-j] (plain product, no conjugate); updates use conj(u) (LMS/NLMS) and conj(g) (RLS)",
        "'a-priori' is decided by reading coeffs() before each one-sample call: |y - sum_j c[j] x[k-j]| <= (8 + 2 len) eps sum|c||x|; "
        "multi-sample frames are compared with the lock-aware long-double recursion and with that per-sample drive (both 1e-9 relative; the latter observed bit-identical)",
        "'behave exactly as a fixed FIR filter' is read to rounding ((8 + 2 len) eps sum|c||x| against a long-double FIR over the true input history) "
        "plus bit-identical coeffs() across locked frames",
        "when coeffs() is read is part of the history: every value read (under each of the three read policies) is compared with the lock-aware reference, "
        "and a locked frame must equal the FIR filter with the coeffs() value read before (every-frame policy) or after (after-locked policy) that frame",
        "a call rejected with an exception (len(x) != len(d)) must leave the object unchanged: y, e and every coeffs() value of the history are compared "
        "bit for bit with the same history without the rejected call",
        "reference recursions compared at 1e-9 relative (norm-wise for coeffs, relative to ||c|| ||u|| + |d| for y and e); the NLMS regulariser is the header's eps()",
        "thorough additionally demands convergence of NLMS(mu 0.5 and 1.5, leak 1) after 80*len samples (contraction mu(2-mu)/len per sample gives < 1e-20)",
        "convergence is demanded only for NLMS(mu=1, leak=1) after 40*len samples and RLS(lambda=1, delta=1e4) after 4*len samples of a unit-variance "
        "white letter with a noise-free system no longer than the filter (horizons from DESIGN C12; the statement gives none)",
        "the normal-equation comparison is judged for real data only (statement); complex data serve as oracle self-check",
    ],
)
