from props_common import COMMON_ASSUME

PROP = dict(
    harness="C14_analytic.cpp",
    level="exploration",
    engine="bex",
    technique="bounded-exhaustive enumeration of lengths x data letters (hilbert), designs x pass-band grid x tones x framings "
              "(HilbertFilter) and (fs, f) pairs x framings over every sample of multi-second streams (Tuner) on the real code; "
              "long-double DFT / DTFT / exactly reduced phase oracles",
    claim="every length, design, (fs, f) pair and framing of the stated finite sets is executed on the implementation and compared "
          "with a long-double oracle evaluated from the definitions in the property text; no sampling. Exhaustive within the "
          "bound, silent outside it (other lengths, other data than the letters, other filter designs, other frequencies).",
    note="hilbert is linear with data-independent control flow: all impulses (n <= 64) determine it there, above that the letters "
         "(DC, Nyquist, on/off-bin tones, tone+DC, dense LCG) are the inputs on which the known weightings differ; the oracle's "
         "negative-bin DFT and the Tuner's exact modular phase reduction (128-bit integers) are harness code",
    rule="case = one (length, letter) / (length, impulse position) / (n, n', letter) for hilbert; one design (response over the whole "
         "0.0005 grid of the stated pass-band) or one (design, tone, framing) stream for HilbertFilter; one (fs, f, framing) stream "
         "with every sample compared for Tuner; one (D, type, framing) stream for Delay. Non-trivial = input with >= 2 non-zero samples (hilbert), every filter case, "
         "Tuner cases with f != 0",
    bounds=dict(
        quick="hilbert(x): every n in 3..512 + {1000,1023,1024,4095,4096} x 7 letters (const, alternating, 2 on-bin tones, off-bin tone, "
              "tone+DC, LCG), every impulse for n <= 64; positive bins incl. DC and Nyquist (hilbert.posbins) for the same n x 5 letters "
              "(const, alternating, off-bin tone, tone+DC, LCG); BIG: n in {4097, 65536, 65537 (prime), 100000} x 4 letters (real part in full, "
              "negative bins on a subset: 3 at either end, mirrors of the tone bins, 256 spread evenly) and hilbert(x,n') for (n,n') in "
              "{(100000,65536),(100000,65537),(4097,65537),(65536,100000)}; hilbert(x,n'): n in 3..32, every n' in 3..2n, 2 letters; "
              "HilbertFilter: flen {31,32,51,101,200,201,401} x tw {0.005,0.01,0.05,0.1}: response on the 0.0005 grid over "
              "[max(2tw,6/M), 0.5-same], process() on 16 tones x 2 framings (3M+64 samples); BIG: flen {101,400} tone of 140000 samples "
              "in one call / frames of 1000 / frames [65536,1,999,70000]; Delay<real>, Delay<cmplx>: D in {1,50,65535,65536,70000}, "
              "140000 samples in one call / frames of 1000, bit-exact; Tuner: fs {8,9,100,8000,100000} x up to 29 values of f in "
              "[-fs/2,fs/2] (0, +-1, +-3, +-fs/4, +-fs/2, +-0.5, +-1.25, +-2.5, +-(fs-1)/2, +-(fs/2-1), +-440.3, +-(fs/2-0.1), +-1/3, +-fs/3, "
              "+-0.001) x 9 framings: one call / frames 1,2,3,5,7,11,64,1000 cyclic / frames of fs samples over ceil(3.5 fs) (fs <= 100) "
              "or 2.5 fs samples; the cyclic frame patterns [2fs+3,1,fs-1,3fs+1,5], [fs+1], [3fs], [1,4fs+2,7] (frames longer than fs "
              "and than 2 fs followed by further frames) over 9 fs + 17 samples; BIG: 140000 samples in frames of 1000 and in one call "
              "(sample index crossing 65536, up to 17500 counter wraps); every sample compared; EXACT ZEROS in the data: Tuner on 8 "
              "input letters (zero-stuffed by 2 and by 3, leading silence of 1 / 7 / fs+3 zeros, burst / silence / burst, one zero "
              "sample in the middle, a sine sampled on its zero crossings) x every (fs, f) x 4 framings, absolute sample index in the "
              "oracle, zero input must give |r| <= 1e-9; HilbertFilter (31,0.05), (101,0.01), (400,0.01) x the 8 letters x 4 framings "
              "incl. all-zero frames (real part delayed bit-exact, imaginary part against impz() convolved with the input in long "
              "double); Delay D {1,5,64,1000} x real/complex x 7 letters x 4 framings",
        thorough="hilbert(x): every n in 3..4096 x 7 letters (all negative bins), every n in 4097..8192: real part 7 letters, all negative "
                 "bins 3 letters (alternating, off-bin tone, LCG) - i.e. every prime up to 8192; positive bins (hilbert.posbins) every n in 3..2048 + {4095,4096} x 5 letters; impulses: every position for n <= 512, "
                 "positions 1 and n-1 for every n <= 4096, additionally 0 and n/2 for every prime n; BIG: n in {4097, 8191, 8192, 16384, "
                 "32768, 65521, 65535, 65536, 65537, 100000, 131071, 131072} x 4 letters (1024-bin subset) and the quick n' pairs; "
                 "hilbert(x,n'): n in 3..160, every n' in 3..2n+1, and n in {255,256,257,509,512,1021,1024,2048} x n' in n-3..n+3, n/2, "
                 "n/2+1, 2n-1, 2n, 2n+1, 67, 127, 4093, 4096, 4099; HilbertFilter: every flen in 31..401 x tw {0.005,0.0075,0.01,0.015,"
                 "0.02,0.03,0.05,0.075,0.1} (3339 designs), response on a 0.000125 grid, 16 tones x 3 framings each, long streams as "
                 "quick; Delay: D in {1,2,3,50,999,1000,1001,4095,4096,4097,65535,65536,65537,70000} x 4 framings; Tuner: 44 sample "
                 "rates 8..100000 (8..20, 25, 31..33, 63..65, 100, 101, 127, 128, 255..257, 999..1001, 4095, 4096, 8000, 11025, 22050, "
                 "32000, 44100, 48000, 65535, 65536, 65537, 88200, 96000, 100000; odd fs with f = +-fs/2 included) x up to 47 values of "
                 "f (the quick set and +-fs/5, +-fs/7, +-0.1, +-(fs/2-0.001), +-(fs/2-1/3), +-2/3, +-7.75, +-(fs/6+0.25), +-1000.0625) x "
                 "9 framings, every sample of ceil(5.5 fs) (framings 0-2) / 9 fs + 17 (3-6) / 140000 (7, 8); exact-zero letters as quick for "
                 "the 33 sample rates <= 1001 and {8000, 65536, 100000} x up to 47 f; HilbertFilter zero letters for flen "
                 "{31,32,51,101,200,201,401} x tw {0.01,0.05}"),
    deadline=dict(quick=150, thorough=3000),
    assumptions=COMMON_ASSUME + [
        "tolerances: real(hilbert(x)) - x and hilbert(x,n') - hilbert(pad(x)) are measured as max element error against tol(n)*||x||_2, "
        "negative bins as max |H_k| against tol(n)*||X||_2 (the weaker, per-element reading of the DESIGN's bound) with "
        "tol(n) = max(1e-12, 64*n*eps): the flat 1e-12 of the DESIGN is tighter than the library's own fft accuracy contract "
        "(C01/C02: 32*n*eps per transform) for n > 70 and was met with only 2.2x margin at prime n ~ 1500",
        "the statement's two clauses (real part, negative bins) leave the imaginary DC / Nyquist content of the result open; "
        "hilbert.posbins additionally asserts the textbook analytic signal Z[0] = X[0], Z[k] = 2 X[k] (0 < k < n/2), Z[n/2] = X[n/2] "
        "for even n - the DC / Nyquist weight-1 convention of the repaired tree (fix 2d80727, MATLAB's hilbert) - with the tolerance "
        "of the negative-bin check; the other hilbert checks still judge real part and negative bins only",
        "for n > 8192 (cases marked BIG) the O(n^2) long-double DFT is evaluated on a subset of the negative bins only (both ends of "
        "the range, mirror images of the tone bins, 256/1024 evenly spread): less than the statement demands, never more",
        "Delay<T>(D) (include/dsplib/delay.h, the mechanism behind HilbertFilter's real part) is read as out[k] = x[k-D], zeros before",
        "zero-input cases: HilbertFilter's imaginary part is compared with impz() convolved with the input (header: 'out = delay(in, M/2) "
        "+ j * fir(in)') within 1e-12 * sum|h| * max|x| absolute - a linearity reading that the tone-only statement implies but does not spell out; "
        "for an exactly zero Tuner input sample the output must be (numerically) zero",
        "HilbertFilter: M is the actual impz() length (even requests are rounded up by the library), group delay D = M/2 (integer "
        "division), the 1e-3 quadrature bound is applied once the FIR is filled (k >= M-1); the real part is compared by value from k = 0",
        "Tuner: f in [-fs/2, fs/2] (closed, real-valued bound) is admissible; tolerance 1e-9 relative to |x[k]|; "
        "frames of length 0 are not generated; 'any number of calls and samples' is explored through 9 fixed frame patterns "
        "(frames of 1 sample up to 4 fs + 2 samples), not through all compositions of the stream",
    ],
)
