from props_common import COMMON_ASSUME

PROP = dict(
    harness="C14_analytic.cpp",
    level="exploration",
    engine="bex",
    technique="bounded-exhaustive enumeration of lengths x data letters (hilbert), designs x pass-band grid x tones x framings "
              "(HilbertFilter) and (fs, f) pairs x framings over every sample of multi-second streams (Tuner) on the real code; "
              "long-double DFT / DTFT / exactly reduced phase oracles",
    claim="every length, design, (fs, f) pair and framing of the stated finite sets is executed on the implementation and compared "
          "with a long-double oracle evaluated from the definitions in the property text; no sampling. Exhaustive within the "
          "bound, silent outside it (other lengths, other data than the letters, other filter designs, other frequencies).",
    note="hilbert is linear with data-independent control flow: all impulses (n <= 64) determine it there, above that the letters "
         "(DC, Nyquist, on/off-bin tones, tone+DC, dense LCG) are the inputs on which the known weightings differ; the oracle's "
         "negative-bin DFT and the Tuner's exact modular phase reduction (128-bit integers) are harness code",
    rule="case = one (length, letter) / (length, impulse position) / (n, n', letter) for hilbert; one design (response over the whole "
         "0.0005 grid of the stated pass-band) or one (design, tone, framing) stream for HilbertFilter; one (fs, f, framing) stream "
         "with every sample compared for Tuner. Non-trivial = input with >= 2 non-zero samples (hilbert), every filter case, "
         "Tuner cases with f != 0",
    bounds=dict(
        quick="hilbert(x): every n in 3..512 + {1000,1023,1024,4095,4096} x 7 letters (const, alternating, 2 on-bin tones, off-bin tone, "
              "tone+DC, LCG), every impulse for n <= 64; hilbert(x,n'): n in 3..32, every n' in 3..2n, 2 letters; HilbertFilter: flen "
              "{31,32,51,101,200,201,401} x tw {0.005,0.01,0.05,0.1}: response on the 0.0005 grid over [max(2tw,6/M), 0.5-same], "
              "process() on 16 tones x 2 framings (3M+64 samples); Tuner: fs {8,9,100,8000,100000} x up to 29 values of f in "
              "[-fs/2,fs/2] (0, +-1, +-3, +-fs/4, +-fs/2, +-0.5, +-1.25, +-2.5, +-(fs-1)/2, +-(fs/2-1), +-440.3, +-(fs/2-0.1), +-1/3, +-fs/3, "
              "+-0.001) x 7 framings: one call / frames 1,2,3,5,7,11,64,1000 cyclic / frames of fs samples over ceil(3.5 fs) (fs <= 100) "
              "or 2.5 fs samples, and - for every fs - the cyclic frame patterns [2fs+3,1,fs-1,3fs+1,5], [fs+1], [3fs], [1,4fs+2,7] "
              "(frames longer than fs and than 2 fs followed by further frames) over 9 fs + 17 samples; every sample compared",
        thorough="hilbert(x): every n in 3..2048 + {4095,4096,6000}, every impulse for n <= 128; hilbert(x,n') as quick; HilbertFilter: "
                 "every flen in 31..401 x tw {0.005,0.01,0.02,0.05,0.1} (1855 designs), response grid and 16 tones x 2 framings each; "
                 "Tuner: fs {8,9,10,11,100,101,8000,44100,48000,100000}, same f set and 7 framings, every sample of ceil(3.5 fs) "
                 "(framings 0-2) / 9 fs + 17 (long-frame framings 3-6)"),
    deadline=dict(quick=150, thorough=1500),
    assumptions=COMMON_ASSUME + [
        "tolerances: real(hilbert(x)) - x and hilbert(x,n') - hilbert(pad(x)) are measured as max element error against tol(n)*||x||_2, "
        "negative bins as max |H_k| against tol(n)*||X||_2 (the weaker, per-element reading of the DESIGN's bound) with "
        "tol(n) = max(1e-12, 64*n*eps): the flat 1e-12 of the DESIGN is tighter than the library's own fft accuracy contract "
        "(C01/C02: 32*n*eps per transform) for n > 70 and was met with only 2.2x margin at prime n ~ 1500",
        "the statement fixes only real part and negative bins of the analytic signal; imaginary DC/Nyquist content is not checked",
        "HilbertFilter: M is the actual impz() length (even requests are rounded up by the library), group delay D = M/2 (integer "
        "division), the 1e-3 quadrature bound is applied once the FIR is filled (k >= M-1); the real part is compared by value from k = 0",
        "Tuner: f in [-fs/2, fs/2] (closed, real-valued bound) is admissible; tolerance 1e-9 relative to |x[k]|; "
        "frames of length 0 are not generated; 'any number of calls and samples' is explored through 7 fixed frame patterns "
        "(frames of 1 sample up to 4 fs + 2 samples), not through all compositions of the stream",
    ],
)
