"""Per-property configuration of tools/check.py: one file tools/propdefs/<id>.py per property, each defining PROP.

PROP keys:
  harness     file under harness/
  level       evidence level: exploration | fault_enumeration | model_checking
  engine      bex | hist | schedex | forkbox
  technique   a few words naming the deciding method (MANIFEST)
  claim       MANIFEST level_claimed.text;  note  MANIFEST level_note
  rule        how cases are enumerated and what makes one non-trivial (evidence file)
  bounds      dict(quick=..., thorough=...) human-readable bound per tier
  deadline    dict(quick=seconds, thorough=seconds) soft deadline handed to the harness (cap, not failure)
  passes      optional list of dict(name, variant=rel|asan, cache_size, flags, args, shards, tiers) - one harness run per entry
  assumptions list of strings
  driver      optional python callable replacing the generic build/run/merge (C05, C09, C10)
"""
import glob
import importlib.util
import os
import sys

_here = os.path.dirname(os.path.abspath(__file__))
sys.path.insert(0, _here)
from props_common import COMMON_ASSUME  # noqa: E402,F401

PROPS = {}
for _f in sorted(glob.glob(os.path.join(_here, "propdefs", "C*.py"))):
    _n = os.path.splitext(os.path.basename(_f))[0]
    _spec = importlib.util.spec_from_file_location("propdef_" + _n, _f)
    _m = importlib.util.module_from_spec(_spec)
    _spec.loader.exec_module(_m)
    PROPS[_n] = _m.PROP
