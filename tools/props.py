"""Per-property configuration of tools/check.py: one file tools/propdefs/<id>.py per property, each defining PROP.

PROP keys:
  harness     file under harness/
  level       evidence level: exploration | fault_enumeration | model_checking
  engine      bex | hist | schedex | forkbox
  technique   a few words naming the deciding method (MANIFEST)
  claim       MANIFEST level_claimed.text;  note  MANIFEST level_note
  rule        how cases are enumerated and what makes one non-trivial (evidence file)
  bounds      dict(quick=..., thorough=...) human-readable bound per tier
  deadline    dict(quick=seconds, thorough=seconds) soft deadline handed to the harness (cap, not failure)
  passes      optional list of dict(name, variant=rel|asan, cache_size, flags, args, shards, tiers) - one harness run per entry
  assumptions list of strings
  driver      optional python callable replacing the generic build/run/merge (C05, C09, C10)
"""
import glob
import importlib.util
import os
import sys

_here = os.path.dirname(os.path.abspath(__file__))
sys.path.insert(0, _here)
from props_common import COMMON_ASSUME  # noqa: E402,F401

PROPS = {}
for _f in sorted(glob.glob(os.path.join(_here, "propdefs", "C*.py"))):
    _n = os.path.splitext(os.path.basename(_f))[0]
    _spec = importlib.util.spec_from_file_location("propdef_" + _n, _f)
    _m = importlib.util.module_from_spec(_spec)
    _spec.loader.exec_module(_m)
    PROPS[_n] = _m.PROP

# ---- shared "purity" pass (harness/purity.cpp): call-history exploration of the stateless API of a property
PURITY_PROPS = ["C01", "C02", "C06", "C07", "C08", "C10", "C11", "C12", "C13", "C14", "C15", "C16", "C17", "C18", "C19", "C20"]
PURITY_NOTE = (" A shared purity pass (harness/purity.cpp) additionally executes all call sequences of length 2 and 3 over argument variants "
               "that keep shapes and addresses but change contents or one parameter, each in a fresh thread: every result must be bit-identical "
               "to the same call made first in a fresh thread (memo tables keyed by pointer, length or a subset of the parameters; length variants inside one power-of-two bucket; construct-use-destroy idioms of the stateful classes), "
               "and every call must leave the floating-point control state of the calling thread (rounding mode, FTZ / DAZ) unchanged. "
               "Homogeneity: for the linear / quadratic / scale-free entry points of the property f(2^k x) must equal 2^(k*degree) f(x) bit for bit, k in {+-40, +-100, +-300} (absolute thresholds, floors and flushes inside scale-free computations). "
               "Inputs: arrays passed to the entry points of the property are bit-identical and at the same address after the call.")
for _pid in PURITY_PROPS:
    if _pid in PROPS:
        _pp = dict(name="purity", harness="purity.cpp", args=["--prop", _pid], shards=4)
        if "driver" in PROPS[_pid]:
            PROPS[_pid].setdefault("extra_passes", []).append(_pp)
        else:
            PROPS[_pid]["passes"] = list(PROPS[_pid].get("passes", [dict(name="main")])) + [_pp]
        PROPS[_pid]["claim"] = PROPS[_pid]["claim"] + PURITY_NOTE
