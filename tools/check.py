#!/usr/bin/env python3
"""check.py <Cxx> --tier quick|thorough [--replay file]

Builds what the property needs from $VERIF_REPO's working tree (tools/vbuild.py), compiles the
property's harness, runs it in parallel shards, merges shard results, applies KNOWN_FINDINGS.txt,
writes evidence/<id>.json and prints VIOLATION / KNOWN-FINDING lines.  Exit 0 = property held on
everything explored (or only listed known findings), 1 = violation, 2 = machinery failure.
"""
import argparse
import hashlib
import json
import os
import subprocess
import sys
import tempfile
import time

sys.path.insert(0, os.path.dirname(os.path.abspath(__file__)))
import vbuild  # noqa: E402
import props  # noqa: E402

VERIF = vbuild.VERIF


def load_known():
    opens, fixed = [], []
    import glob
    lines = []
    for p in [os.path.join(VERIF, "KNOWN_FINDINGS.txt")] + sorted(glob.glob(os.path.join(VERIF, "KNOWN_FINDINGS.d", "*.txt"))):
        if os.path.exists(p):
            lines += open(p).read().splitlines()
    for ln in lines:
        ln = ln.strip()
        if not ln or ln.startswith("#"):
            continue
        if ln.startswith("open:"):
            head, _, text = ln[5:].partition("::")
            e = {"text": text.strip(), "where": "True"}
            # where= is last and may contain spaces
            if " where=" in head:
                head, _, w = head.partition(" where=")
                e["where"] = w.strip()
            for tok in head.split():
                k, _, v = tok.partition("=")
                e[k] = v
            opens.append(e)
        elif ln.startswith("fixed:"):
            fixed.append(ln)
    return opens, fixed


def match_known(rec, opens):
    for e in opens:
        if e.get("property") != rec["property"]:
            continue
        if e.get("check") not in (None, "*", rec["check"]):
            continue
        if e.get("site") not in (None, "*", rec["site"]):
            continue
        try:
            env = dict(rec["params"])
            env.update(rec.get("detail", {}))
            env["observed"] = rec.get("observed", "")
            ok = bool(eval(e["where"], {"__builtins__": {}, "abs": abs, "min": min, "max": max, "len": len}, env))
        except Exception:
            ok = False
        if ok:
            return e
    return None


def run_pass(pid, cfg, pas, tier, replay_rec, deadline_s, workdir):
    """build + run one pass (one build variant) of a property's harness; returns list of shard jsons"""
    lib = vbuild.build_lib(pas.get("variant", "rel"), pas.get("cache_size", 4), pas.get("lib_flags", ()))
    src = os.path.join(VERIF, "harness", pas.get("harness", cfg["harness"]))
    extra_link = pas.get("extra_link", ())
    if callable(extra_link):
        extra_link = extra_link()
    exe = vbuild.build_harness(src, lib, extra_flags=["-DVF_WITH_DSPLIB"] + list(pas.get("flags", ())),
                               name=os.path.splitext(os.path.basename(src))[0] + "_" + pas.get("name", "main"),
                               extra_link=extra_link)
    nshards = 1 if replay_rec else pas.get("shards", 16)
    procs = []
    env = dict(os.environ)
    env.update(pas.get("env", {}))
    env.setdefault("ASAN_OPTIONS", "detect_leaks=0:abort_on_error=0:allocator_may_return_null=1")
    env.setdefault("UBSAN_OPTIONS", "print_stacktrace=1")
    for s in range(nshards):
        out = os.path.join(workdir, "%s-%s-%d.json" % (pid, pas.get("name", "main"), s))
        cmd = [exe, "--tier", tier, "--shard", "%d/%d" % (s, nshards), "--out", out,
               "--deadline-s", str(deadline_s)] + list(pas.get("args", ()))
        if replay_rec:
            cmd += ["--replay-check", replay_rec["check"], "--replay-params",
                    replay_rec.get("params_str") or json.dumps(replay_rec["params"], separators=(",", ":"))]
        log = open(out + ".log", "w")
        procs.append((subprocess.Popen(cmd, stdout=log, stderr=subprocess.STDOUT, env=env), out, log, cmd))
    res = []
    hard_limit = float(os.environ.get("VERIF_HARD_LIMIT_S") or (deadline_s * 2 + 180))
    t0 = time.time()
    timed_out = []
    for i, (p, out, log, cmd) in enumerate(procs):
        try:
            p.wait(timeout=max(1, hard_limit - (time.time() - t0)))
        except subprocess.TimeoutExpired:
            p.kill()
            p.wait()
            timed_out.append(i)
        log.close()
    if timed_out:
        # replay before report: a shard that ran into OUR hard limit (a loaded machine looks the same as a hang) is run once
        # more, with twice the limit; only a shard that does not finish then either is reported (as non-termination)
        sys.stderr.write("%s: %d shard(s) hit the hard limit of %ds - re-running them with %ds\n" % (pid, len(timed_out), hard_limit, 2 * hard_limit))
        again = []
        for i in timed_out:
            _p, out, _log, cmd = procs[i]
            if os.path.exists(out):
                os.remove(out)
            log = open(out + ".log", "a")
            again.append((i, subprocess.Popen(cmd, stdout=log, stderr=subprocess.STDOUT, env=env), log))
        t1 = time.time()
        for i, p2, log in again:
            try:
                p2.wait(timeout=max(1, 2 * hard_limit - (time.time() - t1)))
            except subprocess.TimeoutExpired:
                p2.kill()
                p2.wait()
            log.close()
            procs[i] = (p2, procs[i][1], log, procs[i][3])
    for p, out, log, cmd in procs:
        if p.returncode != 0 or not os.path.exists(out):
            tail = open(out + ".log").read()[-3000:]
            res.append({"crash": True, "rc": p.returncode, "cmd": " ".join(cmd), "log": tail,
                        "pass": pas.get("name", "main")})
        else:
            try:
                j = json.load(open(out))
            except ValueError as e:
                # the shard wrote an empty / malformed result: its heap was corrupted while it ran library code in-process
                tail = open(out + ".log").read()[-2000:]
                res.append({"crash": True, "rc": p.returncode, "cmd": " ".join(cmd), "corrupt": True, "pass": pas.get("name", "main"),
                            "log": "shard result file is not valid JSON (%s) - heap corruption while executing library code in-process? %s" % (e, tail)})
                continue
            j["pass"] = pas.get("name", "main")
            res.append(j)
    return res


def merge(pid, cfg, tier, shard_results, wall, replay=False):
    ev = {"evaluations": 0, "distinct_nontrivial": 0, "states": 0, "transitions": 0, "traces": 0}
    checks, notes, worst, caps, recs, crashes = {}, {}, {}, set(), [], []
    for j in shard_results:
        if j.get("crash"):
            crashes.append(j)
            continue
        for k in ev:
            ev[k] += j.get(k, 0)
        for c, v in j["checks"].items():
            d = checks.setdefault(c, {"evaluations": 0, "violations": 0, "samples": []})
            d["evaluations"] += v["evaluations"]
            d["violations"] += v["violations"]
            if len(d["samples"]) < 4:
                d["samples"] += v["samples"][: 4 - len(d["samples"])]
        for k, v in j["notes"].items():
            notes[k] = notes.get(k, 0) + v
        for k, v in j["worst"].items():
            if not isinstance(v, str):
                worst[k] = max(worst.get(k, v), v)
        caps |= set(j["caps"])
        recs += j["violation_records"]
    return ev, checks, notes, worst, caps, recs, crashes


def main():
    ap = argparse.ArgumentParser()
    ap.add_argument("pid")
    ap.add_argument("--tier", default=os.environ.get("VERIF_TIER", "quick"))
    ap.add_argument("--replay")
    ap.add_argument("--deadline-s", type=float)
    ap.add_argument("--keep", action="store_true")
    a = ap.parse_args()
    pid = a.pid
    cfg = props.PROPS[pid]
    tier = a.tier if a.tier in ("quick", "thorough") else "quick"
    seed = int(os.environ.get("VERIF_SEED", "0") or 0)
    t0 = time.time()
    replay_rec = json.load(open(a.replay)) if a.replay else None
    deadline = a.deadline_s or cfg.get("deadline", {}).get(tier, 240 if tier == "quick" else 1500)

    if "driver" in cfg:  # property with its own driver (C05 forkbox, C09 schedex ...)
        return cfg["driver"](pid, cfg, tier, seed, replay_rec, deadline)

    os.makedirs(vbuild.BUILD, exist_ok=True)
    workdir = tempfile.mkdtemp(prefix="run-%s-" % pid, dir=vbuild.BUILD)
    results = []
    for pas in cfg.get("passes", [{}]):
        if tier not in pas.get("tiers", ("quick", "thorough")):
            continue
        results += run_pass(pid, cfg, pas, tier, replay_rec, deadline, workdir)
    wall = time.time() - t0
    rc = finalize(pid, cfg, tier, seed, results, wall, replay_rec)
    if not a.keep:
        import shutil
        shutil.rmtree(workdir, ignore_errors=True)
    return rc


def finalize(pid, cfg, tier, seed, results, wall, replay_rec=None, extra_cov=None, extra_assumptions=()):
    ev, checks, notes, worst, caps, recs, crashes = merge(pid, cfg, tier, results, wall)
    opens, _fixed = load_known()
    rc = 0
    crash_viol = 0
    if crashes:
        for c in crashes[:3]:
            sys.stderr.write("HARNESS FAILURE rc=%s pass=%s\n%s\n%s\n" % (c["rc"], c["pass"], c["cmd"], c["log"]))
        rc = 2
        # A shard killed by a signal / sanitizer while running library code in-process: the code under test corrupted
        # memory or aborted (never happens on a tree where the property holds; harness self-check failures use exit codes 3..5).
        fatal = [c for c in crashes if (c["rc"] is not None and c["rc"] < 0) or c.get("corrupt") or "Sanitizer" in c["log"] or "runtime error:" in c["log"]]
        if fatal and replay_rec is None:
            rdir0 = os.path.join(os.environ.get("VERIF_REPLAY_DIR") or os.path.join(VERIF, "replays"), pid)
            os.makedirs(rdir0, exist_ok=True)
            path = os.path.join(rdir0, "shard-crash-%s.json" % hashlib.sha256(fatal[0]["cmd"].encode()).hexdigest()[:10])
            json.dump({"property": pid, "check": "harness.shard", "site": "fatal-signal", "params": {}, "cmd": fatal[0]["cmd"],
                       "observed": fatal[0]["log"][-1500:], "expected": "library code returns or throws"}, open(path, "w"), indent=1)
            print("VIOLATION property=%s replay=%s" % (pid, path))
            print("  a harness shard was killed (rc=%s) while executing library code in-process: %s" % (fatal[0]["rc"], fatal[0]["log"][-300:].replace("\n", " | ")))
            crash_viol = len(fatal)
            rc = 1

    if replay_rec is not None:
        hit = any(j.get("replay_hit") for j in results if not j.get("crash"))
        if not hit:
            print("replay: recorded case was not found in the enumeration (stale replay file?)")
            return 2
        if recs:
            rec = recs[0]
            if match_known(rec, opens):
                print("KNOWN-FINDING: property=%s %s" % (pid, match_known(rec, opens)["text"]))
                print("replay: reproduced (listed known finding): %s" % json.dumps(rec)[:600])
                return 0
            print("VIOLATION property=%s replay=%s" % (pid, os.path.abspath(sys.argv[sys.argv.index("--replay") + 1])))
            print("replay: reproduced: %s" % json.dumps(rec)[:800])
            return 1
        print("replay: case passes")
        return rc

    known_hits, unknown = {}, {}
    for r in recs:
        e = match_known(r, opens)
        if e is not None:
            known_hits.setdefault(id(e), [e, 0, r])[1] += 1
        else:
            unknown.setdefault((r["check"], r["site"]), []).append(r)
    for e, n, r in known_hits.values():
        print("KNOWN-FINDING: property=%s %s [check=%s site=%s, %d recorded case(s), first: %s]" % (
            pid, e["text"], r["check"], r["site"], n, json.dumps(r["params"], separators=(",", ":"))[:200]))
    rdir = os.path.join(os.environ.get("VERIF_REPLAY_DIR") or os.path.join(VERIF, "replays"), pid)
    if unknown:
        os.makedirs(rdir, exist_ok=True)
    for (chk, site), rs in sorted(unknown.items()):
        r = rs[0]
        h = hashlib.sha256(json.dumps(r["params"], sort_keys=True).encode()).hexdigest()[:10]
        path = os.path.join(rdir, "%s-%s-%s.json" % (chk.replace("/", "_"), site.replace("/", "_").replace(" ", "_")[:40], h))
        json.dump(r, open(path, "w"), indent=1)
        print("VIOLATION property=%s replay=%s" % (pid, path))
        print("  check=%s site=%s cases=%d%s first: params=%s observed=%s expected=%s" % (
            chk, site, len(rs), "+" if checks.get(chk, {}).get("violations", 0) > len(rs) else "",
            json.dumps(r["params"], separators=(",", ":"))[:300], r["observed"][:300], r["expected"][:300]))
        rc = 1 if rc in (0, 2) else rc

    # ---- evidence
    level = cfg["level"]
    capped = sorted(caps)
    samples = []
    for c, d in sorted(checks.items()):
        for s in d["samples"][:2]:
            samples.append({"check": c, "case": s})
    cov = {
        "evaluations": ev["evaluations"],
        "distinct_nontrivial": ev["distinct_nontrivial"],
        "rule": cfg["rule"],
        "samples": samples[:40],
        "exhaustive": (not capped) and rc != 2,
        "caps_hit": capped,
        "bounds": cfg.get("bounds", {}).get(tier, ""),
        "per_check": {c: {"evaluations": d["evaluations"], "violations": d["violations"]} for c, d in sorted(checks.items())},
        "path_histogram": notes,
        "worst_observed": worst,
        "known_findings_hit": [e["text"] for e, _, _ in known_hits.values()],
    }
    if level == "model_checking":
        cov["states"] = ev["states"]
        cov["transitions"] = ev["transitions"]
        cov["traces_validated_against_impl"] = ev["traces"]
        cov["explanation"] = cfg.get("mc_note", "every state and transition is an execution of the real implementation; there is no separate model")
    if extra_cov:
        cov.update(extra_cov)
    evd = {
        "property_id": pid, "tier": tier, "seed": seed, "level": level, "coverage": cov,
        "assumptions": list(cfg.get("assumptions", [])) + list(extra_assumptions),
        "wall_s": round(wall, 2), "violations": sum(len(v) for v in unknown.values()) + crash_viol,
    }
    evdir = os.environ.get("VERIF_EVIDENCE_DIR") or os.path.join(VERIF, "evidence")   # mutant runs redirect their evidence
    os.makedirs(evdir, exist_ok=True)
    json.dump(evd, open(os.path.join(evdir, pid + ".json"), "w"), indent=1)
    print("%s %s: evaluations=%d distinct_nontrivial=%d%s checks=%d violations=%d known=%d caps=%s wall=%.1fs" % (
        pid, tier, ev["evaluations"], ev["distinct_nontrivial"],
        (" states=%d transitions=%d" % (ev["states"], ev["transitions"])) if level == "model_checking" else "",
        len(checks), evd["violations"], len(known_hits), capped, wall))
    return rc


if __name__ == "__main__":
    sys.exit(main())
