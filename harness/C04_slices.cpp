// C04 - slices select and assign exactly the numpy-designated elements.
// Engines E1 (bounded-exhaustive sweep of (n, i1, i2, step) on the real slice classes) and E2 (every ordered
// pair (destination slice, source slice) of equal count on ONE array, plus the closure of all such assignments over
// all array contents for small n).  Oracle: a transcription of CPython's slice.indices (PySlice_AdjustIndices),
// preceded by the list of situations in which the property statement allows an exception.
//
// Reading of the statement used here (never more than it says):
//  * In a situation the statement lists as "throws" (empty array, zero step, start outside [-n, n-1], stop outside
//    [-n, n], step sign contradicting the order of the resolved indices) the library may throw; if it does not, the
//    slice must denote Python's elements (step 0 excepted: Python has no selection either).
//  * In every other situation slice() must not throw, the slice denotes exactly Python's elements in Python's order,
//    and every read form (size, iteration, operator*, array construction, assignment to an array) yields them.
//    In particular an *empty* selection of a non-empty array is not a listed reason to throw.
//  * Writes with unequal counts must throw; elements outside the designated positions (and outside the array) must be
//    bit-identical afterwards.  Whether designated positions keep their old value after the throw is not demanded
//    (only noted).  `x.slice(0, n) = x` (the array itself as source) may either throw or leave x unchanged.
//  * `indexing::end` stands for i2 = n.
// Pass "main" (rel build): arrays carry 8 tagged guard elements in the vector's spare capacity behind the data, so a
// stray write past the end is observed; pass "asan" (--asan-pass, ASan+UBSan build): exact-size allocations, every
// stray read/write is a sanitizer report.  Initializer-list assignments run in forked children in both passes.
#include "vf_fork.hpp"
#include <initializer_list>

using namespace vf;
using namespace dsplib;

static bool g_asan = false;
static int SLACK = 12;

// ------------------------------------------------------------------------------------------------ elements
template<class T>
struct El;
template<>
struct El<real_t>
{
    static const char* name() { return "real"; }
    static real_t tag(int i) { return (real_t)(i + 1); }
    static real_t src(int i) { return (real_t)(1001 + i); }
    static real_t guard(int k) { return (real_t)(-70001 - k); }
    static std::string str(const real_t& v) { return fmt("%g", v); }
};
template<>
struct El<cmplx_t>
{
    static const char* name() { return "cmplx"; }
    static cmplx_t tag(int i) { return cmplx_t(i + 1, -(i + 1) - 0.5); }
    static cmplx_t src(int i) { return cmplx_t(1001 + i, -(1001 + i) - 0.25); }
    static cmplx_t guard(int k) { return cmplx_t(-70001 - k, 70001 + k); }
    static std::string str(const cmplx_t& v) { return fmt("(%g,%g)", v.re, v.im); }
};
static int tag_index(const real_t& v) { return (int)v - 1; }
static int tag_index(const cmplx_t& v) { return (int)v.re - 1; }
template<class T>
static bool same(const T& a, const T& b) {
    return std::memcmp(&a, &b, sizeof(T)) == 0;
}
template<class T>
static std::string showv(const std::vector<T>& v, size_t maxn = 14) {
    std::string s = "[";
    for (size_t i = 0; i < v.size() && i < maxn; ++i) s += (i ? "," : "") + El<T>::str(v[i]);
    if (v.size() > maxn) s += fmt(",...(%zu)", v.size());
    return s + "]";
}

// array with `slack` tagged guard elements in the spare capacity of its vector (rel pass only)
template<class T>
struct Arr : base_array<T>
{
    using base_array<T>::_vec;
    int slack;
    Arr(const Arr&) = delete;   // a copy would lose the guard elements
    Arr(Arr&&) = default;
    explicit Arr(int n, bool other = false, int slack_ = SLACK)
      : slack(slack_) {
        _vec.resize((size_t)n + slack);
        for (int k = 0; k < slack; ++k) _vec[n + k] = El<T>::guard(k);
        for (int i = 0; i < n; ++i) _vec[i] = other ? El<T>::src(i) : El<T>::tag(i);
        _vec.resize((size_t)n);
    }
    void set(const std::vector<T>& v) { std::copy(v.begin(), v.end(), _vec.begin()); }
    const std::vector<T>& vec() const { return _vec; }
    int guard_bad() const {
        const T* p = _vec.data() + _vec.size();
        for (int k = 0; k < slack; ++k)
            if (!same(p[k], El<T>::guard(k))) return k;
        return -1;
    }
};

// ------------------------------------------------------------------------------------------------ oracle
struct Sel
{
    bool listed = false;   // the statement lists this situation as "throws"
    std::string why;
    std::vector<int> idx;  // Python's x[i1:i2:step] as indices (empty if step == 0)
};

static Sel oracle(long n, long i1, long i2, long step) {
    Sel s;
    auto add = [&](const char* w) {
        s.listed = true;
        if (!s.why.empty()) s.why += ",";
        s.why += w;
    };
    if (n == 0) add("empty array");
    if (step == 0) add("zero step");
    if (i1 < -n || i1 > n - 1) add("start outside [-n,n-1]");
    if (i2 < -n || i2 > n) add("stop outside [-n,n]");
    const long r1 = i1 < 0 ? i1 + n : i1, r2 = i2 < 0 ? i2 + n : i2;
    if ((step > 0 && r1 > r2) || (step < 0 && r1 < r2)) add("step sign contradicts index order");
    if (step == 0) return s;
    // CPython Objects/sliceobject.c PySlice_AdjustIndices
    long start = i1, stop = i2, len = 0;
    if (start < 0) {
        start += n;
        if (start < 0) start = (step < 0) ? -1 : 0;
    } else if (start >= n) {
        start = (step < 0) ? n - 1 : n;
    }
    if (stop < 0) {
        stop += n;
        if (stop < 0) stop = (step < 0) ? -1 : 0;
    } else if (stop >= n) {
        stop = (step < 0) ? n - 1 : n;
    }
    if (step < 0) {
        if (stop < start) len = (start - stop - 1) / (-step) + 1;
    } else {
        if (start < stop) len = (stop - start - 1) / step + 1;
    }
    s.idx.resize((size_t)len);
    for (long k = 0; k < len; ++k) s.idx[(size_t)k] = (int)(start + k * step);
    return s;
}

// ------------------------------------------------------------------------------------------------ reporting
struct Rep
{
    Ctx* c = nullptr;
    ChildCtx* k = nullptr;
    std::map<std::string, long long> acc;
    explicit Rep(Ctx& x)
      : c(&x) {}
    explicit Rep(ChildCtx& x)
      : k(&x) {}
    void fail(const char* site, const std::string& o, const std::string& e, const P& d = P()) {
        if (c) c->fail(site, o, e, d);
        else k->fail(site, o, e, d);
    }
    void note(const std::string& s, long long a = 1) {
        if (c) c->note(s, a);
        else acc[s] += a;
    }
    void flush() {
        if (k)
            for (auto& kv : acc) k->note(kv.first, kv.second);
        acc.clear();
    }
};

// walks begin()..(size() steps) without reading the elements; checks that the addressed elements are exactly idx
template<class T, class S>
static bool walk(Rep& R, const S& sl, const T* base, int n, const std::vector<int>& idx, const char* site, const P& det,
                 const char* what = "slice") {
    const int cnt = (int)idx.size();
    const int sz = sl.size();
    if (sz != cnt) {
        R.fail(site, fmt("%s.size()=%d", what, sz), fmt("%d (python selects %s)", cnt, show(idx).c_str()), det);
        return false;
    }
    auto it = sl.begin();
    for (int k = 0; k < cnt; ++k) {
        const T* p = &(*it);
        const intptr_t d = (intptr_t)p - (intptr_t)base;
        const long off = (long)(d / (intptr_t)sizeof(T));
        if (d % (intptr_t)sizeof(T) != 0 || off < 0 || off >= n) {
            R.fail(site, fmt("%s: element %d of the iteration lies at offset %ld, outside the array [0,%d)", what, k, off, n),
                   fmt("index %d", idx[(size_t)k]), det);
            return false;
        }
        if (off != idx[(size_t)k]) {
            R.fail(site, fmt("%s: element %d of the iteration is x[%ld]", what, k, off),
                   fmt("x[%d] (python selects %s)", idx[(size_t)k], show(idx).c_str()), det);
            return false;
        }
        ++it;
    }
    if (!(it == sl.end())) {
        R.fail(site, fmt("%s: begin() advanced size()=%d times differs from end()", what, cnt), "equal (range-for would not stop)", det);
        return false;
    }
    return true;
}

template<class T>
static bool equal_vals(const base_array<T>& y, const std::vector<T>& x0, const std::vector<int>& idx) {
    if (y.size() != (int)idx.size()) return false;
    for (int k = 0; k < y.size(); ++k)
        if (!same(y[k], x0[(size_t)idx[(size_t)k]])) return false;
    return true;
}
template<class T>
static std::string expect_vals(const std::vector<T>& x0, const std::vector<int>& idx) {
    std::vector<T> e;
    for (int i : idx) e.push_back(x0[(size_t)i]);
    return showv(e);
}

// every read form of one constructed slice
template<class T, class S>
static void read_forms(Ctx& ctx, Rep& R, const S& sl, Arr<T>& x, const std::vector<T>& x0, const Sel& o, const P& det, bool fork_deref) {
    const int n = x.size();
    if (!walk<T>(R, sl, x.data(), n, o.idx, "slice.iter", det)) return;
    const int cnt = (int)o.idx.size();
    {   // range-for (bounded: walk() has shown that begin()+size() == end())
        base_array<T> got(cnt);
        int k = 0;
        bool over = false;
        for (const T& v : sl) {
            if (k >= cnt) {
                over = true;
                break;
            }
            got[k++] = v;
        }
        if (over || k != cnt || !equal_vals(got, x0, o.idx))
            R.fail("slice.iter", fmt("range-for yields %d%s elements %s", k, over ? "+" : "", showv(got.to_vec()).c_str()),
                   expect_vals(x0, o.idx), det);
    }
    bool ctor_threw = false;
    try {
        base_array<T> y(sl);
        if (!equal_vals(y, x0, o.idx)) R.fail("array(slice)", "array(slice) = " + showv(y.to_vec()), expect_vals(x0, o.idx), P(det).kv("form", "ctor"));
    } catch (const std::exception& e) {
        ctor_threw = true;
        R.fail("array(slice)", std::string("throws: ") + e.what(), "array " + expect_vals(x0, o.idx), P(det).kv("form", "ctor"));
    }
    try {
        base_array<T> y(3);
        y = sl;
        if (!equal_vals(y, x0, o.idx)) R.fail("array(slice)", "y = slice gives " + showv(y.to_vec()), expect_vals(x0, o.idx), P(det).kv("form", "assign"));
    } catch (const std::exception& e) {
        R.fail("array(slice)", std::string("throws: ") + e.what(), "array " + expect_vals(x0, o.idx), P(det).kv("form", "assign"));
    }
    // operator* is declared noexcept and calls the same constructor: if that threw, observe `*sl` in a child
    if (!ctor_threw) {
        try {
            base_array<T> y = *sl;
            if (!equal_vals(y, x0, o.idx)) R.fail("slice.deref", "*slice = " + showv(y.to_vec()), expect_vals(x0, o.idx), det);
        } catch (const std::exception& e) {
            R.fail("slice.deref", std::string("throws: ") + e.what(), "array " + expect_vals(x0, o.idx), det);
        }
    } else if (fork_deref) {
        forked(ctx, "slice.deref", 20.0, [&](ChildCtx& c) {
            fb::label("operator*");
            try {
                base_array<T> y = *sl;
                if (!equal_vals(y, x0, o.idx)) c.fail("slice.deref", "*slice = " + showv(y.to_vec()), expect_vals(x0, o.idx), det);
            } catch (const std::exception& e) {
                c.fail("slice.deref", std::string("throws: ") + e.what(), "array " + expect_vals(x0, o.idx), det);
            }
            ++c.evals;
        });
    }
}

// copies of slice objects denote the same elements
template<class T>
static void copy_forms(Rep& R, const const_slice_t<T>& sl, const T* base, int n, const Sel& o, const P& det) {
    try {
        const_slice_t<T> c2(sl);
        walk<T>(R, c2, base, n, o.idx, "slice.copy", det, "copy of const_slice_t");
    } catch (const std::exception& e) {
        R.fail("slice.copy", std::string("copy of const_slice_t throws: ") + e.what(), "a slice denoting " + show(o.idx), det);
    }
}
template<class T>
static void copy_forms(Rep& R, const slice_t<T>& sl, const T* base, int n, const Sel& o, const P& det) {
    try {
        slice_t<T> s2(sl);
        walk<T>(R, s2, base, n, o.idx, "slice.copy", det, "copy of slice_t");
    } catch (const std::exception& e) {
        R.fail("slice.copy", std::string("copy of slice_t throws: ") + e.what(), "a slice denoting " + show(o.idx), det);
    }
    try {
        const_slice_t<T> c3(sl);   // converting constructor
        walk<T>(R, c3, base, n, o.idx, "slice.copy", det, "const_slice_t(slice_t)");
        copy_forms<T>(R, c3, base, n, o, det);
    } catch (const std::exception& e) {
        R.fail("slice.copy", std::string("const_slice_t(slice_t) throws: ") + e.what(), "a slice denoting " + show(o.idx), det);
    }
}

template<class T, bool CONST>
static void read_case(Ctx& ctx, int n, int i1, int i2, int step, bool use_end, const Sel& o) {
    Rep R(ctx);
    Arr<T> x(n);
    const std::vector<T> x0 = x.vec();
    const P det = P().kv("cnt", (long long)o.idx.size());
    bool constructed = false;
    std::string msg;
    auto body = [&](const auto& sl) {
        constructed = true;
        if (step == 0) {
            R.fail("slice", "slice with step 0 is accepted", "exception (python: ValueError)", det);
            return;
        }
        // (a fork costs ~4 ms here: when the constructor already threw, `*sl` is observed for n <= 3 and unit steps only)
        read_forms<T>(ctx, R, sl, x, x0, o, det, n <= 3 || step == 1 || step == -1);
        copy_forms<T>(R, sl, x.data(), n, o, det);
    };
    try {
        if constexpr (CONST) {
            const base_array<T>& cx = x;
            if (use_end) body(cx.slice(i1, indexing::end, step));
            else body(cx.slice(i1, i2, step));
        } else {
            base_array<T>& mx = x;
            if (use_end) body(mx.slice(i1, indexing::end, step));
            else body(mx.slice(i1, i2, step));
        }
    } catch (const std::exception& e) {
        msg = e.what();
        if (constructed) R.fail("slice", "unexpected exception after construction: " + msg, "none", det);
    }
    if (!constructed) {
        if (!o.listed) R.fail("slice", "slice() throws: " + msg, "no exception; python selects " + show(o.idx), det);
        else ctx.note("read.throw:" + o.why.substr(0, o.why.find(',')));
    } else {
        ctx.note(o.listed ? "read.listed-but-accepted" : (o.idx.empty() ? "read.ok.empty" : (step == 1 ? "read.ok.unit" : (step > 0 ? "read.ok.pos" : "read.ok.neg"))));
    }
    if (x.vec().size() != x0.size() || (n && std::memcmp(x.vec().data(), x0.data(), x0.size() * sizeof(T)) != 0) || x.guard_bad() >= 0)
        R.fail("slice", "reading modified the array: " + showv(x.vec()), showv(x0), det);
    if (o.listed || o.idx.size() >= 2) ctx.nontrivial();
}

// ------------------------------------------------------------------------------------------------ writes
static std::vector<char> g_mark;

// x was set to `init` before op; vals.ok == false: counts differ, op must throw
template<class T>
struct Vals
{
    const T* p;
    bool ok;
};
template<class T>
static Vals<T> eq(const std::vector<T>& v) { return {v.data(), true}; }
template<class T>
static Vals<T> eq_if(bool c, const std::vector<T>& v) { return {v.data(), c}; }
template<class T, class F, class D>
static bool check_assign(Rep& R, Arr<T>& x, const std::vector<T>& init, const std::vector<int>& didx, Vals<T> vals, F op,
                         const char* site, D det) {
    bool threw = false;
    std::string msg;
    try {
        op();
    } catch (const std::exception& e) {
        threw = true;
        msg = e.what();
    }
    const int n = (int)init.size();
    if (x.size() != n) {
        R.fail(site, fmt("array length changed to %d", x.size()), fmt("%d", n), det());
        return false;
    }
    const int gb = x.guard_bad();
    if (gb >= 0) {
        R.fail(site, fmt("write past the end of the array: x[n+%d] modified", gb), "nothing outside the array written", det());
        return false;
    }
    const T* px = x.data();
    if (!vals.ok) {
        bool ok = true;
        if (!threw) {
            R.fail(site, "no exception although element counts differ; array now " + showv(x.vec()), "exception, nothing outside the designated positions written", det());
            ok = false;
        }
        g_mark.assign((size_t)n, 0);
        for (int i : didx) g_mark[(size_t)i] = 1;
        bool touched = false;
        for (int i = 0; i < n; ++i) {
            if (same(px[i], init[(size_t)i])) continue;
            if (g_mark[(size_t)i]) {
                touched = true;
                continue;
            }
            if (ok) R.fail(site, fmt("rejected assignment modified x[%d], not a designated position; array now %s", i, showv(x.vec()).c_str()), showv(init), det());
            ok = false;
        }
        if (touched && threw) R.note("assign.partial-write-before-throw");
        return ok;
    }
    if (threw) {
        R.fail(site, "throws: " + msg, "assignment of equal count succeeds", det());
        return false;
    }
    static std::vector<T> model;
    model = init;
    for (size_t k = 0; k < didx.size(); ++k) model[(size_t)didx[k]] = vals.p[k];
    if (n && std::memcmp(px, model.data(), (size_t)n * sizeof(T)) != 0) {
        R.fail(site, "array after assignment " + showv(x.vec()), showv(model), det());
        return false;
    }
    return true;
}

template<class T, class F>
static void with_list(int len, const T* v, F f) {
#define L1 v[0]
#define L2 L1, v[1]
#define L3 L2, v[2]
#define L4 L3, v[3]
#define L5 L4, v[4]
#define L6 L5, v[5]
#define L7 L6, v[6]
#define L8 L7, v[7]
#define L9 L8, v[8]
#define L10 L9, v[9]
#define L11 L10, v[10]
#define L12 L11, v[11]
#define L13 L12, v[12]
#define CASE(N)                             \
    case N: {                               \
        std::initializer_list<T> il{L##N}; \
        f(il);                              \
        break;                              \
    }
    switch (len) {
        case 0: {
            std::initializer_list<T> il{};
            f(il);
            break;
        }
            CASE(1)
            CASE(2) CASE(3) CASE(4) CASE(5) CASE(6) CASE(7) CASE(8) CASE(9) CASE(10) CASE(11) CASE(12) CASE(13)
        default:
            fprintf(stderr, "with_list: length %d not supported\n", len);
            exit(4);
    }
#undef CASE
}

struct Raw
{
    int n, i1, i2, step;
    std::vector<int> idx;
};

// all (i1, i2, step) of the box for which the statement allows no exception
static std::vector<Raw> valid_slices(int n, int margin, int smax) {
    std::vector<Raw> v;
    for (int i1 = -n - margin; i1 <= n + margin; ++i1)
        for (int i2 = -n - margin; i2 <= n + margin; ++i2)
            for (int st = -smax; st <= smax; ++st) {
                Sel o = oracle(n, i1, i2, st);
                if (!o.listed) v.push_back({n, i1, i2, st, o.idx});
            }
    return v;
}

template<class T>
static std::vector<T> rhs_values(int len, int salt) {
    std::vector<T> v((size_t)len);
    for (int k = 0; k < len; ++k) v[(size_t)k] = El<T>::src(salt + k);
    return v;
}

// scalar / array right-hand sides
template<class T>
static void assign_basic_case(Ctx& ctx, const Raw& d) {
    Rep R(ctx);
    const int n = d.n, cnt = (int)d.idx.size();
    Arr<T> x(n);
    const std::vector<T> init = x.vec();
    base_array<T>& mx = x;
    auto base = [&] { return P().kv("cnt", cnt); };
    {   // scalar
        const T v = El<T>::src(7);
        std::vector<T> vals((size_t)cnt, v);
        x.set(init);
        check_assign<T>(R, x, init, d.idx, eq(vals), [&] { mx.slice(d.i1, d.i2, d.step) = v; }, "slice=scalar", [&] { return base().kv("rhs", "scalar"); });
        x.set(init);   // through a copy of the slice object
        check_assign<T>(R, x, init, d.idx, eq(vals),
                        [&] {
                            auto s1 = mx.slice(d.i1, d.i2, d.step);
                            slice_t<T> s2(s1);
                            s2 = v;
                        },
                        "slice=scalar", [&] { return base().kv("rhs", "scalar-via-copy"); });
        ctx.transitions += 2;
    }
    for (int len = 0; len <= cnt + 2; ++len) {   // array of every length relation
        const std::vector<T> vals = rhs_values<T>(len, 20);
        const base_array<T> rhs(vals);
        x.set(init);
        check_assign<T>(R, x, init, d.idx, eq_if(len == cnt, vals), [&] { mx.slice(d.i1, d.i2, d.step) = rhs; }, "slice=array",
                        [&] { return base().kv("rhs", "array").kv("len", len); });
        if ((int)rhs.size() != len || (len && std::memcmp(rhs.data(), vals.data(), (size_t)len * sizeof(T)) != 0))
            R.fail("slice=array", "right-hand array modified", showv(vals), base().kv("len", len));
        ++ctx.transitions;
    }
    if (cnt == n && d.step == 1) {   // the array itself as source: either rejected or a no-op
        x.set(init);
        try {
            mx.slice(d.i1, d.i2, d.step) = mx;
            ctx.note("assign.self-array:accepted");
        } catch (const std::exception&) {
            ctx.note("assign.self-array:throws");
        }
        if (std::memcmp(x.data(), init.data(), (size_t)n * sizeof(T)) != 0 || x.guard_bad() >= 0)
            R.fail("slice=array", "x.slice(0,n) = x changed x to " + showv(x.vec()), showv(init), base().kv("rhs", "self"));
    }
    ctx.note(cnt == 0 ? "assign.dst.empty" : (d.step == 1 ? "assign.dst.unit" : (d.step > 0 ? "assign.dst.pos" : "assign.dst.neg")));
    if (cnt >= 2) ctx.nontrivial();
}

// initializer lists of every length 0..cnt+2 for all destination tuples of one (n, i1); the block runs in a forked
// child which is restarted after the item at which it died (sanitizer report / signal = observed outcome of that item)
template<class T>
static void assign_list_block(Ctx& ctx, const std::vector<const Raw*>& ds) {
    struct Item
    {
        const Raw* d;
        int len;
    };
    std::vector<Item> items;
    long skipped = 0;
    for (const Raw* d : ds) {
        const int cnt = (int)d->idx.size(), n = d->n;
        for (int len = 0; len <= cnt + 2; ++len) {
            if (!g_asan && len > cnt) {
                // rel pass: a list longer than the slice is only executed if an unchecked element loop would stay inside
                // the array + guard area (otherwise it would damage the child's heap in an unobservable way; asan pass)
                const long r1 = d->i1 < 0 ? d->i1 + n : d->i1, lastpos = r1 + (long)(len - 1) * d->step;
                if (lastpos < 0 || lastpos >= n + SLACK) {
                    ++skipped;
                    continue;
                }
            }
            items.push_back({d, len});
        }
    }
    if (skipped) ctx.note("list.longer-skipped-in-rel-pass(asan pass runs it)", skipped);
    size_t cur = 0;
    int deaths = 0;
    while (cur < items.size()) {
        auto o = forked(ctx, "slice=list", 60.0, [&](ChildCtx& c) {
            Rep R(c);
            for (size_t k = cur; k < items.size(); ++k) {
                const Raw& d = *items[k].d;
                const int len = items[k].len, n = d.n, cnt = (int)d.idx.size();
                fb::shm()->prog[0] = len - cnt;
                fb::shm()->prog[1] = (long long)k;
                fb::label(fmt("x.slice(%d,%d,%d) = {list of %d}, n=%d count=%d", d.i1, d.i2, d.step, len, n, cnt).c_str());
                Arr<T> x(n);
                const std::vector<T> init = x.vec();
                base_array<T>& mx = x;
                const std::vector<T> vals = rhs_values<T>(std::max(len, 1), 40);
                with_list<T>(len, vals.data(), [&](const std::initializer_list<T>& il) {
                    check_assign<T>(R, x, init, d.idx, eq_if(len == cnt, vals), [&] { mx.slice(d.i1, d.i2, d.step) = il; }, "slice=list", [&] {
                        return P().kv("i2", d.i2).kv("step", d.step).kv("cnt", cnt).kv("len", len).kv("rel", len < cnt ? "shorter" : (len > cnt ? "longer" : "equal"));
                    });
                });
                ++c.evals;
                if (cnt >= 2 || len != cnt) ++c.nontriv;
                R.note(len < cnt ? "list.shorter" : (len > cnt ? "list.longer" : "list.equal"));
            }
            R.flush();
        });
        if (!o.abnormal) break;
        ++deaths;
        cur = (size_t)o.r.prog[1] + 1;
    }
    if (deaths) ctx.note("list.child-deaths", deaths);
    ctx.transitions += items.size();
}

// slices / const slices of another array as right-hand side
template<class T>
static void assign_slice_case(Ctx& ctx, const Raw& d, const std::vector<std::vector<Raw>>& srcs, std::vector<Arr<T>>& ys) {
    Rep R(ctx);
    const int n = d.n, cnt = (int)d.idx.size();
    Arr<T> x(n);
    const std::vector<T> init = x.vec();
    base_array<T>& mx = x;
    std::vector<T> vals;
    long n_eq = 0, n_ne = 0;
    for (size_t n2 = 1; n2 < srcs.size(); ++n2) {
        Arr<T>& y = ys[n2];
        base_array<T>& my = y;
        const base_array<T>& cy = y;
        const std::vector<T> y0 = y.vec();
        for (const Raw& s : srcs[n2]) {
            const bool equal = (int)s.idx.size() == cnt;
            vals.resize(s.idx.size());
            for (size_t k = 0; k < s.idx.size(); ++k) vals[k] = y0[(size_t)s.idx[k]];
            for (int kind = 0; kind < 2; ++kind) {
                x.set(init);
                auto det = [&] {
                    return P().kv("cnt", cnt).kv("rhs", kind ? "const_slice" : "slice").kv("n2", (int)n2).kv("j1", s.i1).kv("j2", s.i2).kv("step2", s.step).kv("cnt2", (int)s.idx.size());
                };
                if (kind == 0) check_assign<T>(R, x, init, d.idx, eq_if(equal, vals), [&] { mx.slice(d.i1, d.i2, d.step) = my.slice(s.i1, s.i2, s.step); }, "slice=slice", det);
                else check_assign<T>(R, x, init, d.idx, eq_if(equal, vals), [&] { mx.slice(d.i1, d.i2, d.step) = cy.slice(s.i1, s.i2, s.step); }, "slice=slice", det);
                (equal ? n_eq : n_ne)++;
            }
        }
        if ((y0.size() && std::memcmp(y.data(), y0.data(), y0.size() * sizeof(T)) != 0) || y.guard_bad() >= 0)
            R.fail("slice=slice", "source array modified: " + showv(y.vec()), showv(y0), P().kv("n2", (int)n2));
    }
    ctx.note("assign.slice.equal-count", n_eq);
    ctx.note("assign.slice.unequal-count", n_ne);
    ctx.transitions += (uint64_t)(n_eq + n_ne);
    ctx.evaluations += (uint64_t)(n_eq + n_ne) - 1;
    ctx.checks[ctx.cur_check].evals += (uint64_t)(n_eq + n_ne) - 1;
    if (cnt >= 2) ctx.nontrivial();
}

// ------------------------------------------------------------------------------------------------ array = slice (materialisation by assignment)
// x = x.slice(...) : the destination ARRAY is assigned from a slice of itself (mutable view and view through a const
// reference), twice in a row, from a slice of a distinct array of another length (x shrinks / grows), and from expressions
// whose operands are materialised slices of the destination.  Oracle: Python's selection applied to a copy of the old
// contents; the source array of the distinct-array forms and a bystander array must stay bit-identical.
template<class T>
static bool arr_is(const base_array<T>& x, const std::vector<T>& want) {
    return x.size() == (int)want.size() && (want.empty() || std::memcmp(x.data(), want.data(), want.size() * sizeof(T)) == 0);
}
template<class T>
static std::string show_arr(const base_array<T>& x) {
    return fmt("(%d) ", x.size()) + showv(x.to_vec());
}
template<class T>
static std::vector<T> pick(const std::vector<T>& v, const std::vector<int>& idx) {
    std::vector<T> r;
    r.reserve(idx.size());
    for (int i : idx) r.push_back(v[(size_t)i]);
    return r;
}
static real_t twice(const real_t& v) { return v * 2.0; }
static cmplx_t twice(const cmplx_t& v) { return cmplx_t(v.re * 2.0, v.im * 2.0); }
static real_t plus(const real_t& a, const real_t& b) { return a + b; }
static cmplx_t plus(const cmplx_t& a, const cmplx_t& b) { return cmplx_t(a.re + b.re, a.im + b.im); }

template<class T>
static void self_assign_case(Ctx& ctx, int n, int i1, int i2, int step, const std::vector<int>& idx, bool big) {
    Rep R(ctx);
    const int cnt = (int)idx.size();
    std::vector<T> x0((size_t)n);
    for (int i = 0; i < n; ++i) x0[(size_t)i] = El<T>::tag(i);
    const std::vector<T> want = pick(x0, idx);
    const base_array<T> z0(rhs_values<T>(5, 300));   // bystander
    base_array<T> z = z0;
    long forms = 0;
    auto run = [&](const char* form, const std::vector<T>& expect, auto body) {
        ++forms;
        base_array<T> x(x0);
        try {
            body(x);
            if (!arr_is(x, expect)) R.fail("array=slice", std::string(form) + ": x becomes " + show_arr(x), fmt("(%zu) ", expect.size()) + showv(expect), P().kv("form", form).kv("cnt", cnt));
        } catch (const std::exception& e) {
            R.fail("array=slice", std::string(form) + " throws: " + e.what(), fmt("(%zu) ", expect.size()) + showv(expect), P().kv("form", form).kv("cnt", cnt));
        }
    };
    run("x = x.slice", want, [&](base_array<T>& x) { x = x.slice(i1, i2, step); });
    run("x = cx.slice", want, [&](base_array<T>& x) {
        const base_array<T>& cx = x;
        x = cx.slice(i1, i2, step);
    });
    {   // twice in a row (second selection on the new length; only if the statement allows no exception there)
        const Sel o2 = oracle(cnt, i1, i2, step);
        if (!o2.listed) {
            const std::vector<T> want2 = pick(want, o2.idx);
            run("x = x.slice; x = x.slice", want2, [&](base_array<T>& x) {
                x = x.slice(i1, i2, step);
                x = x.slice(i1, i2, step);
            });
            run("x = cx.slice; x = cx.slice", want2, [&](base_array<T>& x) {
                const base_array<T>& cx = x;
                x = cx.slice(i1, i2, step);
                x = cx.slice(i1, i2, step);
            });
            R.note("self.twice");
        }
    }
    if (!big) run("x = *x.slice", want, [&](base_array<T>& x) { x = *x.slice(i1, i2, step); });
    // from a slice of a distinct array, destination of another length (shrinks / grows)
    {
        const std::vector<int> ms = big ? std::vector<int>{0, n + 3} : std::vector<int>{0, 1, std::max(0, n - 2), n, n + 3};
        for (int m : ms) {
            base_array<T> y(x0);
            ++forms;
            for (int kind = 0; kind < 2; ++kind) {
                base_array<T> x(rhs_values<T>(m, 500));
                try {
                    const base_array<T>& cy = y;
                    if (kind) x = cy.slice(i1, i2, step);
                    else x = y.slice(i1, i2, step);
                    if (!arr_is(x, want))
                        R.fail("array=slice", fmt("x(%d) = %s.slice: x becomes ", m, kind ? "cy" : "y") + show_arr(x), fmt("(%d) ", cnt) + showv(want), P().kv("form", "x = y.slice").kv("cnt", cnt).kv("m", m));
                } catch (const std::exception& e) {
                    R.fail("array=slice", std::string("x = y.slice throws: ") + e.what(), showv(want), P().kv("form", "x = y.slice").kv("cnt", cnt).kv("m", m));
                }
            }
            if (!arr_is(y, x0)) R.fail("array=slice", "x = y.slice modified the source array y: " + show_arr(y), showv(x0), P().kv("form", "x = y.slice").kv("m", m));
        }
    }
    // expressions whose operands are materialised slices of the destination
    {
        std::vector<T> w2(want);
        for (T& v : w2) v = twice(v);
        run("x = array(x.slice) * 2", w2, [&](base_array<T>& x) { x = base_array<T>(x.slice(i1, i2, step)) * real_t(2); });
        run("x = array(x.slice) + array(x.slice)", w2, [&](base_array<T>& x) { x = base_array<T>(x.slice(i1, i2, step)) + base_array<T>(x.slice(i1, i2, step)); });
        // a second, shifted selection of equal count where one exists
        const long r1 = (i1 < 0 ? i1 + n : i1) + 1, r2 = (i2 < 0 ? i2 + n : i2) + 1;
        const Sel os = oracle(n, r1, r2, step);
        if (!os.listed && (int)os.idx.size() == cnt) {
            std::vector<T> ws = pick(x0, os.idx);
            for (size_t k = 0; k < ws.size(); ++k) ws[k] = plus(want[k], ws[k]);
            run("x = array(x.slice) + array(x.slice shifted)", ws, [&](base_array<T>& x) {
                const base_array<T>& cx = x;
                x = base_array<T>(x.slice(i1, i2, step)) + base_array<T>(cx.slice((int)r1, (int)r2, step));
            });
            R.note("self.shifted-sum");
        }
    }
    if (!arr_is(z, z0.to_vec())) R.fail("array=slice", "a bystander array was modified", "unchanged");
    R.note(cnt == 0 ? "self.empty" : (step == 1 ? "self.unit" : (step > 0 ? "self.pos" : (cnt >= 3 ? "self.neg(count>=3)" : "self.neg(count<3)"))));
    if (!g_asan) ctx.transitions += (uint64_t)forms;
    ctx.evaluations += (uint64_t)forms - 1;
    ctx.checks[ctx.cur_check].evals += (uint64_t)forms - 1;
    if (cnt >= 2) ctx.nontrivial();
}

// ------------------------------------------------------------------------------------------------ E2: one array
static const char* overlap_kind(const std::vector<int>& d, const std::vector<int>& s) {
    if (d.empty()) return "empty";
    if (d == s) return "identical";
    bool rd = false, hazard_fwd = false, hazard_bwd = false;   // does an in-order / reverse-order element loop read a clobbered source?
    for (size_t k = 0; k < d.size(); ++k)
        for (size_t j = 0; j < s.size(); ++j)
            if (d[k] == s[j]) {
                rd = true;
                if (k < j) hazard_fwd = true;
                if (k > j) hazard_bwd = true;
            }
    if (!rd) return "disjoint";
    if (hazard_fwd && hazard_bwd) return "overlap:both-orders-clobber";
    if (hazard_fwd) return "overlap:forward-clobbers";
    if (hazard_bwd) return "overlap:backward-clobbers";
    return "overlap:same-position";
}

template<class T>
static void pair_case(Ctx& ctx, const Raw& d, const std::vector<Raw>& all, int tcode) {
    Rep R(ctx);
    const int n = d.n, cnt = (int)d.idx.size();
    Arr<T> x(n);
    const std::vector<T> init = x.vec();
    base_array<T>& mx = x;
    const base_array<T>& cx = x;
    std::vector<T> vals((size_t)cnt);
    long pairs = 0;
    std::map<const char*, long> hist, hist_path;   // keyed by the literal's address: flushed once per case
    for (const Raw& s : all) {
        if ((int)s.idx.size() != cnt) continue;
        for (int k = 0; k < cnt; ++k) vals[(size_t)k] = init[(size_t)s.idx[(size_t)k]];   // "as if the source had been copied first"
        const char* ok = overlap_kind(d.idx, s.idx);
        const char* path = cnt == 0 ? "empty" : ((d.step == 1 && s.step == 1) ? "unit/unit(memmove)" : "strided(materialise)");
        for (int kind = 0; kind < 2; ++kind) {
            x.set(init);
            auto det = [&] {
                return P().kv("cnt", cnt).kv("rhs", kind ? "const_slice" : "slice").kv("j1", s.i1).kv("j2", s.i2).kv("step2", s.step).kv("overlap", ok);
            };
            if (kind == 0) check_assign<T>(R, x, init, d.idx, eq(vals), [&] { mx.slice(d.i1, d.i2, d.step) = mx.slice(s.i1, s.i2, s.step); }, "slice=slice(same array)", det);
            else check_assign<T>(R, x, init, d.idx, eq(vals), [&] { mx.slice(d.i1, d.i2, d.step) = cx.slice(s.i1, s.i2, s.step); }, "slice=slice(same array)", det);
            ++pairs;
            if (!g_asan) {
                uint64_t h = mix(mix(mix(mix(mix(mix(mix(mix(0xC04, (uint64_t)tcode), (uint64_t)n), (uint64_t)(d.i1 + 64)), (uint64_t)(d.i2 + 64)), (uint64_t)(d.step + 64)),
                                         (uint64_t)(s.i1 + 64)), (uint64_t)(s.i2 + 64)), (uint64_t)((s.step + 64) * 2 + kind));
                ctx.state(h);
            }
        }
        hist[ok] += 2;
        hist_path[path] += 2;
    }
    for (auto& kv : hist) ctx.note(std::string("pair.") + kv.first, kv.second);
    for (auto& kv : hist_path) ctx.note(std::string("pair.path=") + kv.first, kv.second);
    if (!g_asan) {
        ctx.transitions += (uint64_t)pairs;
        ctx.traces += (uint64_t)pairs;
    }
    if (pairs) {
        ctx.evaluations += (uint64_t)pairs - 1;
        ctx.checks[ctx.cur_check].evals += (uint64_t)pairs - 1;
    }
    if (cnt >= 2) ctx.nontrivial();
}

// closure: all array contents over the n tags reachable by sequences of same-array slice assignments (canonical
// slices with count >= 1), every transition executed on the real array and compared with the copy-first model
template<class T>
static void closure_case(Ctx& ctx, int n, int kind, int tcode) {
    Rep R(ctx);
    std::vector<Raw> sl;
    for (int i1 = 0; i1 < n; ++i1)
        for (int i2 = 0; i2 <= n; ++i2)
            for (int st = -n; st <= n; ++st) {
                Sel o = oracle(n, i1, i2, st);
                if (!o.listed && !o.idx.empty()) sl.push_back({n, i1, i2, st, o.idx});
            }
    Arr<T> x(n);
    base_array<T>& mx = x;
    const base_array<T>& cx = x;
    auto encode = [&](const std::vector<int>& c) {
        uint64_t e = 0;
        for (int v : c) e = e * (uint64_t)n + (uint64_t)v;
        return e;
    };
    std::vector<int> c0((size_t)n);
    for (int i = 0; i < n; ++i) c0[(size_t)i] = i;
    std::unordered_set<uint64_t> seen{encode(c0)};
    std::vector<std::vector<int>> frontier{c0};
    std::vector<T> init((size_t)n), vals;
    uint64_t trans = 0;
    int depth = 0;
    bool stop = false;
    while (!frontier.empty() && !stop) {
        std::vector<std::vector<int>> next;
        for (const auto& c : frontier) {
            for (int i = 0; i < n; ++i) init[(size_t)i] = El<T>::tag(c[(size_t)i]);
            for (const Raw& d : sl) {
                for (const Raw& s : sl) {
                    if (s.idx.size() != d.idx.size()) continue;
                    vals.resize(d.idx.size());
                    for (size_t k = 0; k < d.idx.size(); ++k) vals[k] = init[(size_t)s.idx[k]];
                    x.set(init);
                    auto det = [&] {
                        return P().list("content", c).kv("i1", d.i1).kv("i2", d.i2).kv("step", d.step).kv("j1", s.i1).kv("j2", s.i2).kv("step2", s.step).kv("depth", depth);
                    };
                    bool ok;
                    if (kind == 0) ok = check_assign<T>(R, x, init, d.idx, eq(vals), [&] { mx.slice(d.i1, d.i2, d.step) = mx.slice(s.i1, s.i2, s.step); }, "slice=slice(same array)", det);
                    else ok = check_assign<T>(R, x, init, d.idx, eq(vals), [&] { mx.slice(d.i1, d.i2, d.step) = cx.slice(s.i1, s.i2, s.step); }, "slice=slice(same array)", det);
                    ++trans;
                    if (!ok) {
                        if (ctx.violations > 50) stop = true;
                        continue;
                    }
                    std::vector<int> c2 = c;   // successor content, read back from the real array
                    for (int i = 0; i < n; ++i) c2[(size_t)i] = tag_index(x.data()[i]);   // in [0,n): the array equals the model
                    if (seen.insert(encode(c2)).second) next.push_back(c2);
                }
                if (stop) break;
            }
            if (stop) break;
        }
        frontier.swap(next);
        ++depth;
    }
    if (!g_asan) {
        for (uint64_t e : seen) ctx.state(mix(mix(mix(mix(0xC04C, (uint64_t)tcode), (uint64_t)n), (uint64_t)kind), e));
        ctx.transitions += trans;
        ctx.traces += trans;
    }
    ctx.note(fmt("closure.n=%d.contents", n), (long long)seen.size());
    ctx.note(fmt("closure.n=%d.depth", n), depth);
    if (trans) {
        ctx.evaluations += trans - 1;
        ctx.checks[ctx.cur_check].evals += trans - 1;
    }
    ctx.nontrivial();
}

// ------------------------------------------------------------------------------------------------ large n
template<class T, bool CONST>
static void large_case(Ctx& ctx, int n, int i1, int i2, int step, Arr<T>& x, const std::vector<T>& init, Arr<T>& y) {
    Rep R(ctx);
    const Sel o = oracle(n, i1, i2, step);
    const int cnt = (int)o.idx.size();
    const P det = P().kv("cnt", cnt);
    base_array<T>& mx = x;
    const base_array<T>& cx = x;
    bool constructed = false;
    std::string msg;
    auto body = [&](const auto& sl) {
        constructed = true;
        if (!walk<T>(R, sl, x.data(), n, o.idx, "slice.iter", det)) return;
        try {
            base_array<T> v(sl);
            if (!equal_vals(v, init, o.idx)) R.fail("array(slice)", "array(slice) = " + showv(v.to_vec()), expect_vals(init, o.idx), P(det).kv("form", "ctor"));
        } catch (const std::exception& e) {
            R.fail("array(slice)", std::string("throws: ") + e.what(), "array " + expect_vals(init, o.idx), P(det).kv("form", "ctor"));
        }
        copy_forms<T>(R, sl, x.data(), n, o, det);
    };
    try {
        if constexpr (CONST) body(cx.slice(i1, i2, step));
        else body(mx.slice(i1, i2, step));
    } catch (const std::exception& e) {
        msg = e.what();
        if (constructed) R.fail("slice", "unexpected exception after construction: " + msg, "none", det);
    }
    if (!constructed && !o.listed) R.fail("slice", "slice() throws: " + msg, "no exception; python selects " + show(o.idx), det);
    ctx.note(!constructed ? "large.throw" : (cnt == 0 ? "large.ok.empty" : "large.ok"));
    if (o.listed || cnt >= 2) ctx.nontrivial();
    if (CONST || o.listed) return;
    // writes (mutable only); x is restored to init after each
    auto restore = [&] {
        for (int i : o.idx) x.data()[i] = init[(size_t)i];
        if (std::memcmp(x.data(), init.data(), (size_t)n * sizeof(T)) != 0) x.set(init);
    };
    std::vector<T> vals((size_t)cnt, El<T>::src(3));
    check_assign<T>(R, x, init, o.idx, eq(vals), [&] { mx.slice(i1, i2, step) = El<T>::src(3); }, "slice=scalar", [&] { return P(det).kv("rhs", "scalar"); });
    restore();
    for (int dl = -1; dl <= 1; ++dl) {
        const int len = cnt + dl;
        if (len < 0) continue;
        const std::vector<T> rv = rhs_values<T>(len, 5);
        const base_array<T> rhs(rv);
        check_assign<T>(R, x, init, o.idx, eq_if(dl == 0, rv), [&] { mx.slice(i1, i2, step) = rhs; }, "slice=array", [&] { return P(det).kv("rhs", "array").kv("len", len); });
        restore();
    }
    {   // same geometry on another array (equal count), mutable and const source
        const base_array<T>& cy = y;
        base_array<T>& my = y;
        for (int k = 0; k < cnt; ++k) vals[(size_t)k] = y.data()[o.idx[(size_t)k]];
        check_assign<T>(R, x, init, o.idx, eq(vals), [&] { mx.slice(i1, i2, step) = cy.slice(i1, i2, step); }, "slice=slice", [&] { return P(det).kv("rhs", "const_slice"); });
        restore();
        check_assign<T>(R, x, init, o.idx, eq(vals), [&] { mx.slice(i1, i2, step) = my.slice(i1, i2, step); }, "slice=slice", [&] { return P(det).kv("rhs", "slice"); });
        restore();
    }
    // same array: source = the same geometry shifted by +-1 and the reversed geometry (overlapping)
    for (int sh : {-1, 1}) {
        const long r1 = (i1 < 0 ? i1 + n : i1) + sh, r2 = (i2 < 0 ? i2 + n : i2) + sh;
        Sel so = oracle(n, r1, r2, step);
        if (so.listed || (int)so.idx.size() != cnt) continue;
        for (int k = 0; k < cnt; ++k) vals[(size_t)k] = init[(size_t)so.idx[(size_t)k]];
        check_assign<T>(R, x, init, o.idx, eq(vals), [&] { mx.slice(i1, i2, step) = mx.slice((int)r1, (int)r2, step); }, "slice=slice(same array)",
                        [&] { return P(det).kv("rhs", "slice").kv("shift", sh); });
        restore();
        check_assign<T>(R, x, init, o.idx, eq(vals), [&] { mx.slice(i1, i2, step) = cx.slice((int)r1, (int)r2, step); }, "slice=slice(same array)",
                        [&] { return P(det).kv("rhs", "const_slice").kv("shift", sh); });
        restore();
        ctx.note("large.same-array-shift");
    }
    if (cnt >= 1) {
        const int last = o.idx.back(), first = o.idx.front();
        Sel so = oracle(n, last, first + (step > 0 ? -1 : 1), -step);   // reversed traversal of the same elements
        if (!so.listed && (int)so.idx.size() == cnt && first + (step > 0 ? -1 : 1) >= 0) {
            for (int k = 0; k < cnt; ++k) vals[(size_t)k] = init[(size_t)so.idx[(size_t)k]];
            const int rj2 = first + (step > 0 ? -1 : 1);
            check_assign<T>(R, x, init, o.idx, eq(vals), [&] { mx.slice(i1, i2, step) = mx.slice(last, rj2, -step); }, "slice=slice(same array)",
                            [&] { return P(det).kv("rhs", "slice").kv("reversed", 1); });
            restore();
            ctx.note("large.same-array-reversed");
        }
    }
    ctx.transitions += 6;
}


// ------------------------------------------------------------------------------------------------ fatal errors in this process
// If the code under test kills this process (sanitizer report, fatal signal, std::terminate out of a noexcept function)
// the case in progress is recorded as a violation, the shard result is written and the shard stops (reported as capped):
// a wrong library must be classified, not crash the harness.  Forked children keep the default behaviour.
#include <csignal>
#if defined(__has_feature)
#if __has_feature(address_sanitizer)
#define VF_HAVE_SANITIZER 1
#endif
#endif
#if defined(__SANITIZE_ADDRESS__)
#define VF_HAVE_SANITIZER 1
#endif
#ifdef VF_HAVE_SANITIZER
extern "C" void __sanitizer_set_death_callback(void (*)(void));
#endif
static Ctx* g_die_ctx = nullptr;
static pid_t g_main_pid = 0;
static void record_death(const char* how) {
    static bool once = false;
    if (once) _exit(3);
    once = true;
    g_die_ctx->fail_as(g_die_ctx->cur_check.c_str(), "process", g_die_ctx->cur_params,
                       std::string(how) + " while this case was executing (report in the shard log)", "the case completes",
                       P().kv("outcome", "process-death"));
    g_die_ctx->cap("shard stopped at the first fatal error of the code under test");
    g_die_ctx->finish();
    _exit(0);
}
static void on_sanitizer_death() {
    if (getpid() == g_main_pid) record_death("sanitizer report");
}
static void on_signal(int sig) {
    if (getpid() != g_main_pid) {
        signal(sig, SIG_DFL);
        raise(sig);
        return;
    }
    record_death(sig == SIGSEGV ? "SIGSEGV" : sig == SIGABRT ? "SIGABRT" : sig == SIGFPE ? "SIGFPE" : sig == SIGBUS ? "SIGBUS" : "fatal signal");
}
static void install_death_handlers(Ctx& ctx) {
    g_die_ctx = &ctx;
    g_main_pid = getpid();
#ifdef VF_HAVE_SANITIZER
    __sanitizer_set_death_callback(on_sanitizer_death);
#endif
    for (int s : {SIGSEGV, SIGBUS, SIGFPE, SIGILL, SIGABRT}) signal(s, on_signal);
    std::set_terminate([] {
        if (getpid() == g_main_pid) record_death("std::terminate");
        _exit(42);
    });
}

// ------------------------------------------------------------------------------------------------ main
template<class T>
static void run_type(Ctx& ctx, int tcode, bool Th) {
    const char* tn = El<T>::name();
    // -------- reads: the whole box of the property (n <= 10, steps -5..5); thorough: n <= 32 (asan pass 16), steps -8..8
    const int NR = Th ? (g_asan ? 16 : 32) : 10;
    const int SR = Th ? 8 : 5;
    if (ctx.wants("slice.read") || ctx.wants("slice.read.end")) {
        for (int cst = 0; cst < 2; ++cst)
            for (int n = 0; n <= NR; ++n)
                for (int i1 = -n - 3; i1 <= n + 3; ++i1) {
                    for (int i2 = -n - 3; i2 <= n + 3; ++i2)
                        for (int st = -SR; st <= SR; ++st) {
                            Sel o = oracle(n, i1, i2, st);
                            if (!ctx.take("slice.read", P().kv("T", tn).kv("const", cst).kv("n", n).kv("i1", i1).kv("i2", i2).kv("step", st).kv("cnt", (long long)o.idx.size())))
                                continue;
                            if (cst) read_case<T, true>(ctx, n, i1, i2, st, false, o);
                            else read_case<T, false>(ctx, n, i1, i2, st, false, o);
                        }
                    for (int st = -SR; st <= SR; ++st) {
                        Sel o = oracle(n, i1, n, st);
                        if (!ctx.take("slice.read.end", P().kv("T", tn).kv("const", cst).kv("n", n).kv("i1", i1).kv("step", st).kv("cnt", (long long)o.idx.size()))) continue;
                        if (cst) read_case<T, true>(ctx, n, i1, n, st, true, o);
                        else read_case<T, false>(ctx, n, i1, n, st, true, o);
                    }
                }
    }
    // -------- writes
    const int NA = g_asan ? (Th ? 12 : 8) : (Th ? 16 : 10);           // scalar / array right-hand sides
    const int ND = g_asan ? (Th ? 10 : 6) : (Th ? 12 : 8);            // destination n for slice right-hand sides
    const int N2 = g_asan ? (Th ? 4 : 3) : (Th ? 7 : 4);              // n of the other array
    std::vector<std::vector<Raw>> valid((size_t)NA + 1);
    for (int n = 1; n <= NA; ++n) valid[(size_t)n] = valid_slices(n, 3, 5);
    for (int n = 1; n <= NA; ++n)
        for (const Raw& d : valid[(size_t)n]) {
            if (!ctx.take("assign.basic", P().kv("T", tn).kv("n", n).kv("i1", d.i1).kv("i2", d.i2).kv("step", d.step))) continue;
            assign_basic_case<T>(ctx, d);
        }
    const int NL = g_asan ? (Th ? 10 : 6) : 10;
    for (int n = 1; n <= NL; ++n)
        for (int i1 = -n; i1 < n; ++i1) {
            if (!ctx.take("assign.list", P().kv("T", tn).kv("n", n).kv("i1", i1))) continue;
            std::vector<const Raw*> ds;
            for (const Raw& d : valid[(size_t)n])
                if (d.i1 == i1) ds.push_back(&d);
            assign_list_block<T>(ctx, ds);
        }
    if (ctx.wants("assign.slice")) {
        std::vector<std::vector<Raw>> srcs((size_t)N2 + 1);
        std::vector<Arr<T>> ys;
        ys.reserve((size_t)N2 + 1);
        for (int n2 = 0; n2 <= N2; ++n2) {
            if (n2) srcs[(size_t)n2] = valid_slices(n2, 3, 5);
            ys.emplace_back(n2, true);
        }
        for (int n = 1; n <= ND; ++n)
            for (const Raw& d : valid[(size_t)n]) {
                if (!ctx.take("assign.slice", P().kv("T", tn).kv("n", n).kv("i1", d.i1).kv("i2", d.i2).kv("step", d.step))) continue;
                assign_slice_case<T>(ctx, d, srcs, ys);
            }
    }
    // -------- array = slice of itself: every valid tuple of the read box, n <= 8 (thorough 12, steps -8..8), and big reversed cases
    {
        const int NS = Th ? (g_asan ? 10 : 12) : 8;
        if (ctx.wants("self.assign"))
            for (int n = 1; n <= NS; ++n)
                for (const Raw& d : valid_slices(n, 3, Th ? 8 : 5)) {
                    if (!ctx.take("self.assign", P().kv("T", tn).kv("n", n).kv("i1", d.i1).kv("i2", d.i2).kv("step", d.step).kv("cnt", (long long)d.idx.size()))) continue;
                    self_assign_case<T>(ctx, n, d.i1, d.i2, d.step, d.idx, false);
                }
        std::vector<int> bigs = {70000};
        if (Th) bigs.push_back(200000);
        for (int n : bigs) {
            const int tup[][3] = {{n - 1, 0, -1}, {-1, -n, -1}, {n - 1, 0, -7}, {n - 1, n / 2, -1}, {n - 1, 0, -65537}, {n - 2, 1, -2}, {1, n, 3}, {0, n, 1}, {n / 2, n, 1}, {0, n, 65537}};
            for (auto& t : tup) {
                if (!ctx.take("self.assign.big", P().kv("T", tn).kv("n", n).kv("i1", t[0]).kv("i2", t[1]).kv("step", t[2]))) continue;
                const Sel o = oracle(n, t[0], t[1], t[2]);
                if (o.listed) {
                    ctx.note("self.big.listed-skipped");
                    continue;
                }
                self_assign_case<T>(ctx, n, t[0], t[1], t[2], o.idx, true);
            }
        }
    }
    // -------- E2: pairs on one array, closure over contents
    const int NP = g_asan ? (Th ? 8 : 5) : (Th ? 10 : 6);
    if (ctx.wants("alias.pair"))
        for (int n = 1; n <= NP; ++n) {
            std::vector<Raw> all = valid_slices(n, 0, n);
            for (const Raw& d : all) {
                if (!ctx.take("alias.pair", P().kv("T", tn).kv("n", n).kv("i1", d.i1).kv("i2", d.i2).kv("step", d.step))) continue;
                pair_case<T>(ctx, d, all, tcode);
            }
        }
    const int NC = g_asan ? (Th ? 5 : 3) : (Th ? 6 : 4);
    for (int n = 1; n <= NC; ++n)
        for (int kind = 0; kind < 2; ++kind) {
            if (!ctx.take("alias.closure", P().kv("T", tn).kv("n", n).kv("rhs", kind ? "const_slice" : "slice"))) continue;
            closure_case<T>(ctx, n, kind, tcode);
        }
    // -------- large n lattice
    if (ctx.wants("large")) {
        // both tiers, both passes: n = 1000, 5000 (> 4096) and 200000 (> 65536; steps 65537, 70000, n/2, n-1, n, n+1 and
        // counts 200000, 100000, 66667 exceed 65536); thorough adds 100000
        std::vector<int> big = {1000, 5000, 200000};
        if (Th) big.push_back(100000);
        for (int n : big) {
            Arr<T> x(n), y(n, true);
            const std::vector<T> init = x.vec();
            const int iv[] = {0, 1, -1, 2, -2, n / 2, -n / 2, n - 1, -(n - 1), n, -n, n + 1, -(n + 1)};
            const int sv[] = {1, 2, 3, 7, n / 2, n - 1, n, n + 1, n > 100000 ? 65537 : 5, n > 100000 ? 70000 : 11};
            for (int cst = 0; cst < 2; ++cst)
                for (int i1 : iv)
                    for (int i2 : iv)
                        for (int sa : sv)
                            for (int sg : {1, -1}) {
                                const int st = sa * sg;
                                if (!ctx.take("large", P().kv("T", tn).kv("const", cst).kv("n", n).kv("i1", i1).kv("i2", i2).kv("step", st))) continue;
                                if (cst) large_case<T, true>(ctx, n, i1, i2, st, x, init, y);
                                else large_case<T, false>(ctx, n, i1, i2, st, x, init, y);
                            }
        }
    }
}

int main(int argc, char** argv) {
    Ctx ctx;
    ctx.parse(argc, argv, "C04");
    install_death_handlers(ctx);
    for (int i = 1; i < argc; ++i) {
        if (!strcmp(argv[i], "--asan-pass")) {
            g_asan = true;
            SLACK = 0;
        }
        if (!strcmp(argv[i], "--oracle-dump")) {   // development aid: compare with python3 (see propdef note)
            for (int n = 0; n <= 10; ++n)
                for (int i1 = -n - 3; i1 <= n + 3; ++i1)
                    for (int i2 = -n - 3; i2 <= n + 3; ++i2)
                        for (int st = -5; st <= 5; ++st) {
                            Sel o = oracle(n, i1, i2, st);
                            printf("%d %d %d %d %d %s\n", n, i1, i2, st, (int)o.listed, show(o.idx, 100).c_str());
                        }
            return 0;
        }
    }
    const bool Th = ctx.thorough();
    run_type<real_t>(ctx, 1, Th);
    run_type<cmplx_t>(ctx, 2, Th);
    if (g_asan) {   // states / transitions / traces are counted once, in the rel pass
        ctx.states.clear();
        ctx.transitions = 0;
        ctx.traces = 0;
    }
    return ctx.finish();
}
