// C03 - element-wise array arithmetic, type promotion and value semantics.
// Engine E1: the compile-time grid {arr_real, arr_cmplx} x {arr_real, arr_cmplx, real_t, int, cmplx_t, std::complex<double>}
// x {left, right} x {+,-,*,/} x {binary, compound} + unary, instantiated for every combination the library accepts,
// run for every length 0..64 (thorough 0..128), 1000 and - in both tiers - 5000 and 70000 (thorough also 10000, 200000) over a
// value alphabet that contains zeros, -0 and magnitudes 1e-100..1e100 laid out so that every ordered pair of values occurs;
// plus length mismatches, operand preservation, copy/move independence, aliasing, concatenation, zeropad, mask and index-list
// selection (each also on arrays of 5000 / 70000 / 200000 elements); plus (E2-style) every expression tree of depth <= 2
// (thorough: depth 3 with one shallow operand), every left-deep chain of depth <= 5 (thorough 7) over {+,-,*,/,unary -} and
// leaves {real array, complex array, real scalar, complex scalar}, and every sequence of <= 4 (thorough 6) aliasing statements
// on one array variable (a op= a, a op= b, a = a op a, a = a op b, a = b op a, a = -a), evaluated on the real operators
// against a scalar interpreter in std::complex<long double> carrying a forward error bound.
//
// Oracle (never more than the statement):
//  * + and - : the IEEE double operation applied componentwise, compared with == (so +0 and -0 are not distinguished:
//    "promoting real to complex" may or may not add a +0 imaginary part);  real*real and real/real: the IEEE operation.
//  * anything involving a complex product or quotient: textbook formula in long double, per component
//    |err| <= 8 eps (|a.re b.re| + |a.im b.im|)   (product; imaginary part analogously),
//    |err| <= 8 eps |a| / |b|                       (quotient)
//  * unary minus / plus: bit for bit (NaN == NaN) against the component-wise sign flip and the library's scalar operator,
//    also on {+0,-0,1,-1,inf,-inf,NaN}^2; every array form is additionally compared bit for bit with the library's scalar
//    operator on the same operand types ("sibling" check) where the unchanged tree has that agreement.
//  * division by an exactly zero divisor is outside the domain (executed, result not judged).
//  * combinations that do not compile (compound forms that would change the element type; arr_real with
//    std::complex<double> for + - /) are not executed; they are listed in the evidence notes, not reported as violations.
#include "vf_fork.hpp"
#include <unistd.h>
#include <tuple>
#include <variant>

using namespace vf;
using namespace dsplib;

static bool g_asan = false;
using stdc = std::complex<double>;

// ------------------------------------------------------------------------------------------------ alphabets
static const double VR[] = {0.0, -0.0, 1, -1, 0.5, -0.5, 3, -3, 1e-100, -1e-100, 1e100, -1e100};
static const int NVR = 12;
static const int VI[] = {0, 1, -1, 2, 3, -3, 7};
static const int NVI = 7;
static std::vector<cmplx_t> VC;
static void build_alphabet() {
    for (int k = 0; k < NVR; ++k) {
        const double v = VR[k];
        VC.push_back({v, 0.0});
        VC.push_back({0.0, v});
        VC.push_back({v, v});
        VC.push_back({v, -v});
    }
    const double mixed[16][2] = {{1, 0.5},        {0.5, -3},     {3, 1e-100}, {1e100, 1},   {1e-100, 1e100}, {-1e100, 1e-100}, {-3, 0.5}, {-0.5, -1},
                                 {1e100, -3},     {-1e-100, 3},  {1, -0.0},   {-0.0, 1},    {3, -1},         {-1, 3},          {0.5, 1e100}, {1e-100, -0.5}};
    for (auto& m : mixed) VC.push_back({m[0], m[1]});
}

struct Sc   // scalar view of one operand element
{
    double re, im;
    bool cplx;
};
static Sc view(const real_t& x) { return {x, 0.0, false}; }
static Sc view(const int& x) { return {(double)x, 0.0, false}; }
static Sc view(const cmplx_t& x) { return {x.re, x.im, true}; }
static Sc view(const stdc& x) { return {x.real(), x.imag(), true}; }

template<class X>
struct Tr;
template<>
struct Tr<arr_real>
{
    static constexpr bool arr = true, cplx = false;
    static const char* name() { return "arr_real"; }
    static int nv() { return NVR; }
    using elem = real_t;
    static real_t val(int k) { return VR[k]; }
};
template<>
struct Tr<arr_cmplx>
{
    static constexpr bool arr = true, cplx = true;
    static const char* name() { return "arr_cmplx"; }
    static int nv() { return (int)VC.size(); }
    using elem = cmplx_t;
    static cmplx_t val(int k) { return VC[(size_t)k]; }
};
template<>
struct Tr<real_t>
{
    static constexpr bool arr = false, cplx = false;
    static const char* name() { return "real_t"; }
    static int nv() { return NVR; }
    static real_t val(int k) { return VR[k]; }
};
template<>
struct Tr<int>
{
    static constexpr bool arr = false, cplx = false;
    static const char* name() { return "int"; }
    static int nv() { return NVI; }
    static int val(int k) { return VI[k]; }
};
template<>
struct Tr<cmplx_t>
{
    static constexpr bool arr = false, cplx = true;
    static const char* name() { return "cmplx_t"; }
    static int nv() { return (int)VC.size(); }
    static cmplx_t val(int k) { return VC[(size_t)k]; }
};
template<>
struct Tr<stdc>
{
    static constexpr bool arr = false, cplx = true;
    static const char* name() { return "std::complex<double>"; }
    static int nv() { return (int)VC.size(); }
    static stdc val(int k) { return stdc(VC[(size_t)k].re, VC[(size_t)k].im); }
};

struct Add
{
    static constexpr char c = '+';
    template<class A, class B>
    static auto ap(const A& a, const B& b) -> decltype(a + b) { return a + b; }
    template<class A, class B>
    static auto& cp(A& a, const B& b) { return a += b; }
};
struct Sub
{
    static constexpr char c = '-';
    template<class A, class B>
    static auto ap(const A& a, const B& b) -> decltype(a - b) { return a - b; }
    template<class A, class B>
    static auto& cp(A& a, const B& b) { return a -= b; }
};
struct Mul
{
    static constexpr char c = '*';
    template<class A, class B>
    static auto ap(const A& a, const B& b) -> decltype(a * b) { return a * b; }
    template<class A, class B>
    static auto& cp(A& a, const B& b) { return a *= b; }
};
struct Div
{
    static constexpr char c = '/';
    template<class A, class B>
    static auto ap(const A& a, const B& b) -> decltype(a / b) { return a / b; }
    template<class A, class B>
    static auto& cp(A& a, const B& b) { return a /= b; }
};

// the combinations the library accepts (established by test-compiling every combination once, see propdef note)
template<class L, class R, class Op>
constexpr bool binary_supported() {
    if (!Tr<L>::arr && !Tr<R>::arr) return false;
    constexpr bool real_arr_with_stdc = (std::is_same_v<L, arr_real> && std::is_same_v<R, stdc>) || (std::is_same_v<L, stdc> && std::is_same_v<R, arr_real>);
    // + - / of a real array with std::complex<double>: accepted since ResultType promotes for every complex scalar type and
    // cmplx_t's arithmetic constructor is constrained; on a tree without these two (compile-time fingerprints below) the forms
    // do not compile and are left to the compile probes
    constexpr bool stdc_promotes = std::is_same_v<dsplib::ResultType<real_t, stdc>, cmplx_t> && !std::is_constructible_v<cmplx_t, std::vector<cmplx_t>>;
    if (real_arr_with_stdc && Op::c != '*' && !stdc_promotes) return false;
    return true;
}
template<class L, class R>
constexpr bool compound_supported() {
    if (!Tr<L>::arr) return false;
    if (!Tr<L>::cplx && Tr<R>::cplx) return false;   // would change the element type: rejected at compile time
    return true;
}

template<class T>
struct Tag
{
    using type = T;
};
template<class... Ts, class F>
static void for_types(F f) {
    (f(Tag<Ts>{}), ...);
}

// ------------------------------------------------------------------------------------------------ element oracle
static Ctx* g_ctx = nullptr;

// 0 = ok, 1 = wrong, 2 = outside the domain
static int elem_check(char op, const Sc& a, const Sc& b, double gre, double gim, std::string& exp) {
    const double are = a.re, aim = a.im, bre = b.re, bim = b.im;
    const bool cx = a.cplx || b.cplx;
    switch (op) {
        case '+': {
            const double er = are + bre, ei = aim + bim;
            if (gre == er && gim == ei) return 0;
            exp = fmt("(%.17g,%.17g)", er, ei);
            return 1;
        }
        case '-': {
            const double er = are - bre, ei = aim - bim;
            if (gre == er && gim == ei) return 0;
            exp = fmt("(%.17g,%.17g)", er, ei);
            return 1;
        }
        case '*': {
            if (!cx) {
                if (gre == are * bre && gim == 0) return 0;
                exp = fmt("%.17g", are * bre);
                return 1;
            }
            const ld p1 = (ld)are * bre, p2 = (ld)aim * bim, q1 = (ld)are * bim, q2 = (ld)aim * bre;
            const ld rr = p1 - p2, ri = q1 + q2, sr = fabsl(p1) + fabsl(p2), si = fabsl(q1) + fabsl(q2);
            const ld er = fabsl((ld)gre - rr), ei = fabsl((ld)gim - ri);
            if (sr > 0) g_ctx->worst("complex product: err / (eps*(|a.re b.re|+|a.im b.im|)), allowed 8", (double)(er / (EPS * sr)));
            if (si > 0) g_ctx->worst("complex product: err / (eps*(|a.re b.re|+|a.im b.im|)), allowed 8", (double)(ei / (EPS * si)));
            if (er <= 8 * EPS * sr && ei <= 8 * EPS * si) return 0;
            exp = fmt("(%.17Lg,%.17Lg) within 8 eps (%.3Lg, %.3Lg)", rr, ri, sr, si);
            return 1;
        }
        case '/': {
            if (bre == 0 && bim == 0) return 2;
            if (!cx) {
                if (gre == are / bre && gim == 0) return 0;
                exp = fmt("%.17g", are / bre);
                return 1;
            }
            const ld d = (ld)bre * bre + (ld)bim * bim;
            const ld rr = ((ld)are * bre + (ld)aim * bim) / d, ri = ((ld)aim * bre - (ld)are * bim) / d;
            const ld sc = hypotl(are, aim) / sqrtl(d);
            const ld er = fabsl((ld)gre - rr), ei = fabsl((ld)gim - ri);
            if (sc > 0) g_ctx->worst("complex quotient: err / (eps*|a|/|b|), allowed 8", (double)(std::max(er, ei) / (EPS * sc)));
            if (er <= 8 * EPS * sc && ei <= 8 * EPS * sc) return 0;
            exp = fmt("(%.17Lg,%.17Lg) within 8 eps %.3Lg", rr, ri, sc);
            return 1;
        }
    }
    return 1;
}

static double gre_of(const real_t& x) { return x; }
static double gim_of(const real_t&) { return 0.0; }
static double gre_of(const cmplx_t& x) { return x.re; }
static double gim_of(const cmplx_t& x) { return x.im; }

template<class E>
static std::string estr(const E& e) {
    Sc s = view(e);
    return s.cplx ? fmt("(%.17g,%.17g)", s.re, s.im) : fmt("%.17g", s.re);
}

template<class A>
static A make_arr(int n, long salt, long div, int mod) {
    A a(n);
    for (int i = 0; i < n; ++i) a[i] = Tr<A>::val((int)(((salt + i) / div) % mod));
    return a;
}
template<class A>
static bool bits_equal(const A& a, const A& b) {
    return bitsame(a, b);
}

// result array r (any element type) against elementwise reference; get_a / get_b give the operand elements
template<class RA, class GA, class GB>
static void check_elems(Ctx& ctx, const char* site, char op, const RA& r, int n, GA ga, GB gb, long& nz) {
    if (r.size() != n) {
        ctx.fail(site, fmt("result has %d elements", r.size()), fmt("%d", n));
        return;
    }
    long skipped = 0;
    for (int i = 0; i < n; ++i) {
        const Sc a = ga(i), b = gb(i);
        std::string exp;
        const int rc = elem_check(op, a, b, gre_of(r[i]), gim_of(r[i]), exp);
        if (rc == 2) ++skipped;
        if (a.re != 0 || a.im != 0) ++nz;
        if (rc == 1) {
            ctx.fail(site, fmt("element %d: (%.17g,%.17g) %c (%.17g,%.17g) gave (%.17g,%.17g)", i, a.re, a.im, op, b.re, b.im, gre_of(r[i]), gim_of(r[i])), exp,
                     P().kv("i", i));
            return;
        }
    }
    if (skipped) ctx.note("elements outside the domain (zero divisor), not judged", skipped);
}

// every length 0..64 (thorough 0..128), 1000, and in BOTH tiers sizes above 4096 and above 65536 (size-threshold defects:
// retained scratch buffers, 16-bit offsets); thorough adds 10000 and 200000
static const int BIG1 = 5000, BIG2 = 70000, BIG3 = 200000;
static std::vector<int> lengths(bool T) {
    std::vector<int> v;
    for (int n = 0; n <= (T ? 128 : 64); ++n) v.push_back(n);
    v.push_back(1000);
    v.push_back(BIG1);
    v.push_back(BIG2);
    if (T) v.push_back(10000);
    if (T) v.push_back(BIG3);
    return v;
}
static bool full_len(int n) { return n <= 3 || n == 5 || n == 8 || n == 16 || n == 33 || n == 64 || n == 1000; }

template<class L, class R, class Op>
static constexpr bool result_cplx = Tr<L>::cplx || Tr<R>::cplx;

// ------------------------------------------------------------------------------------------------ grid
template<class L, class R, class Op>
static void grid_binary(Ctx& ctx, bool T) {
    const std::string id = std::string(Tr<L>::name()) + " " + Op::c + " " + Tr<R>::name();
    using Res = decltype(Op::ap(std::declval<const L&>(), std::declval<const R&>()));
    using Want = std::conditional_t<result_cplx<L, R, Op>, arr_cmplx, arr_real>;
    constexpr bool type_ok = std::is_same_v<std::decay_t<Res>, Want>;
    ctx.note("grid.binary.compiled");
    if constexpr (Tr<L>::arr && Tr<R>::arr) {
        const int na = Tr<L>::nv(), nb = Tr<R>::nv();
        long salt = 0;
        for (int n : lengths(T)) {
            const long s0 = salt;
            salt += n;
            if (!ctx.take("grid.binary", P().kv("expr", id).kv("n", n))) continue;
            if (!type_ok) ctx.fail("operator", "result type is not the promoted array type", Tr<Want>::name());
            L a = make_arr<L>(n, s0, 1, na);
            R b = make_arr<R>(n, s0, na, nb);
            const L a0 = a;
            const R b0 = b;
            long nz = 0;
            try {
                auto r = Op::ap(a, b);
                check_elems(ctx, "array op array", Op::c, r, n, [&](int i) { return view(a0[i]); }, [&](int i) { return view(b0[i]); }, nz);
            } catch (const std::exception& e) {
                ctx.fail("array op array", std::string("throws: ") + e.what(), "result array");
            }
            if (!bits_equal(a, a0) || !bits_equal(b, b0)) ctx.fail("array op array", "an operand of a non-compound operator was modified", "operands unchanged");
            if (nz >= 2) ctx.nontrivial();
        }
    } else {
        using A = std::conditional_t<Tr<L>::arr, L, R>;
        using S = std::conditional_t<Tr<L>::arr, R, L>;
        const int na = Tr<A>::nv(), ns = Tr<S>::nv();
        long salt = 0;
        for (int n : lengths(T)) {
            const long s0 = salt;
            salt += n;
            for (int k = 0; k < ns; ++k) {
                if (!full_len(n) && k != n % ns && k != (3 * n + 1) % ns) continue;
                if (!ctx.take("grid.binary", P().kv("expr", id).kv("n", n).kv("scalar", k))) continue;
                if (!type_ok) ctx.fail("operator", "result type is not the promoted array type", Tr<Want>::name());
                A a = make_arr<A>(n, s0 + k, 1, na);
                const A a0 = a;
                const S s = Tr<S>::val(k);
                long nz = 0;
                try {
                    if constexpr (Tr<L>::arr) {
                        auto r = Op::ap(a, s);
                        check_elems(ctx, "array op scalar", Op::c, r, n, [&](int i) { return view(a0[i]); }, [&](int) { return view(s); }, nz);
                    } else {
                        auto r = Op::ap(s, a);
                        check_elems(ctx, "scalar op array", Op::c, r, n, [&](int) { return view(s); }, [&](int i) { return view(a0[i]); }, nz);
                    }
                } catch (const std::exception& e) {
                    ctx.fail(Tr<L>::arr ? "array op scalar" : "scalar op array", std::string("throws: ") + e.what(), "result array");
                }
                if (!bits_equal(a, a0)) ctx.fail(Tr<L>::arr ? "array op scalar" : "scalar op array", "the array operand of a non-compound operator was modified", "operand unchanged");
                if (nz >= 2) ctx.nontrivial();
            }
        }
    }
}

template<class L, class R, class Op>
static void grid_compound(Ctx& ctx, bool T) {
    const std::string id = std::string(Tr<L>::name()) + " " + Op::c + "= " + Tr<R>::name();
    ctx.note("grid.compound.compiled");
    const int na = Tr<L>::nv(), nb = Tr<R>::nv();
    long salt = 0;
    for (int n : lengths(T)) {
        const long s0 = salt;
        salt += n;
        if constexpr (Tr<R>::arr) {
            if (!ctx.take("grid.compound", P().kv("expr", id).kv("n", n))) continue;
            L a = make_arr<L>(n, s0, 1, na);
            R b = make_arr<R>(n, s0, na, nb);
            const L a0 = a;
            const R b0 = b;
            long nz = 0;
            try {
                auto& r = Op::cp(a, b);
                if ((const void*)&r != (const void*)&a) ctx.fail("array op= array", "compound operator does not return its left operand", "reference to the left operand");
                check_elems(ctx, "array op= array", Op::c, a, n, [&](int i) { return view(a0[i]); }, [&](int i) { return view(b0[i]); }, nz);
            } catch (const std::exception& e) {
                ctx.fail("array op= array", std::string("throws: ") + e.what(), "updated array");
            }
            if (!bits_equal(b, b0)) ctx.fail("array op= array", "right operand modified", "unchanged");
            if (nz >= 2) ctx.nontrivial();
        } else {
            for (int k = 0; k < nb; ++k) {
                if (!full_len(n) && k != n % nb && k != (3 * n + 1) % nb) continue;
                if (!ctx.take("grid.compound", P().kv("expr", id).kv("n", n).kv("scalar", k))) continue;
                L a = make_arr<L>(n, s0 + k, 1, na);
                const L a0 = a;
                const R s = Tr<R>::val(k);
                long nz = 0;
                try {
                    auto& r = Op::cp(a, s);
                    if ((const void*)&r != (const void*)&a) ctx.fail("array op= scalar", "compound operator does not return its left operand", "reference to the left operand");
                    check_elems(ctx, "array op= scalar", Op::c, a, n, [&](int i) { return view(a0[i]); }, [&](int) { return view(s); }, nz);
                } catch (const std::exception& e) {
                    ctx.fail("array op= scalar", std::string("throws: ") + e.what(), "updated array");
                }
                if (nz >= 2) ctx.nontrivial();
            }
        }
    }
}

// length mismatches: must throw, both operands bit-identical
template<class L, class R, class Op>
static void grid_mismatch(Ctx& ctx, bool compound) {
    const std::string id = std::string(Tr<L>::name()) + " " + Op::c + (compound ? "= " : " ") + Tr<R>::name();
    for (int n1 = 0; n1 <= 8; ++n1)
        for (int n2 = 0; n2 <= 8; ++n2) {
            if (n1 == n2) continue;
            if (!ctx.take("mismatch", P().kv("expr", id).kv("n1", n1).kv("n2", n2))) continue;
            L a = make_arr<L>(n1, 2, 1, Tr<L>::nv());
            R b = make_arr<R>(n2, 5, 1, Tr<R>::nv());
            const L a0 = a;
            const R b0 = b;
            bool threw = false;
            try {
                if (compound) {
                    if constexpr (compound_supported<L, R>()) Op::cp(a, b);
                } else {
                    auto r = Op::ap(a, b);
                    (void)r;
                }
            } catch (const std::exception&) {
                threw = true;
            }
            if (!threw) ctx.fail("length mismatch", fmt("no exception for lengths %d and %d", n1, n2), "exception");
            if (!bits_equal(a, a0) || !bits_equal(b, b0)) ctx.fail("length mismatch", "an operand was modified by the rejected operation", "operands unchanged");
            ctx.nontrivial();
        }
}

// ------------------------------------------------------------------------------------------------ bit-level checks
// Extended alphabet for the operations whose scalar result is defined bit for bit (sign of zero, infinities, NaN):
// every combination of {+0, -0, 1, -1, inf, -inf, NaN} in the real and the imaginary part.
static const double E7[7] = {0.0, -0.0, 1.0, -1.0, HUGE_VAL, -HUGE_VAL, NAN};
template<class X>
static std::vector<X> ext_vals();
template<>
std::vector<real_t> ext_vals<real_t>() {
    return std::vector<real_t>(E7, E7 + 7);
}
template<>
std::vector<int> ext_vals<int>() {
    return {0, 1, -1, 2};
}
template<>
std::vector<cmplx_t> ext_vals<cmplx_t>() {
    std::vector<cmplx_t> v;
    for (double re : E7)
        for (double im : E7) v.push_back(cmplx_t(re, im));
    return v;
}
// equal bit patterns; two NaNs of any sign/payload count as equal
static bool bits_or_nan(double a, double b) { return (std::isnan(a) && std::isnan(b)) || biteq(a, b); }
static bool bits_or_nan(const Sc& a, const Sc& b) { return bits_or_nan(a.re, b.re) && bits_or_nan(a.im, b.im); }
static std::string sstr(const Sc& s) { return fmt("(%g,%g)", s.re, s.im); }

// unary minus of a complex array compiles iff cmplx_t is not (mis)constructible from a std::vector: the unconstrained
// constructor template of the originally pinned tree made `base_array<cmplx_t> r{_vec}` pick the initializer_list
// constructor (hard error inside operator-).  On such a tree the form is left to the compile probe "-arr_cmplx".
template<class A>
constexpr bool neg_compiles() {
    using E = typename Tr<A>::elem;
    return !(Tr<A>::cplx && std::is_constructible_v<E, std::vector<E>>);
}

// -a and +a, element by element and BIT FOR BIT against component-wise negation (IEEE sign flip) and against the
// library's scalar operator on the element; values: the grid alphabet at every length and the extended alphabet
template<class A>
static void unary_checks(Ctx& ctx, bool T) {
    using E = typename Tr<A>::elem;
    if constexpr (!neg_compiles<A>()) {
        ctx.note(std::string("unary: -") + Tr<A>::name() + " not instantiated (cmplx_t constructible from std::vector), see grid.probe");
        return;
    } else {
        auto run = [&](const A& a0) {
            const int n = a0.size();
            A a = a0;
            A m = -a;
            const A& p = +a;
            static_assert(std::is_same_v<decltype(-a), A>);
            if (m.size() != n || p.size() != n) {
                ctx.fail("unary", fmt("result length %d / %d", m.size(), p.size()), fmt("%d", n));
                return;
            }
            for (int i = 0; i < n; ++i) {
                const Sc x = view(a0[i]);
                const Sc neg = {-x.re, -x.im, x.cplx};   // sign flip of every component
                const E sneg = -a0[i];                    // the scalar operator of the library
                const Sc want = {neg.re, Tr<A>::cplx ? neg.im : 0.0, x.cplx};
                if (!bits_or_nan(view(m[i]), want) || !bits_or_nan(view(sneg), want)) {
                    ctx.fail("unary", fmt("-x[%d]: x = %s, array form gives %s, scalar form gives %s", i, sstr(x).c_str(), sstr(view(m[i])).c_str(), sstr(view(sneg)).c_str()),
                             "every component negated bit for bit: " + sstr(want), P().kv("i", i));
                    return;
                }
                if (!bits_or_nan(view(p[i]), view(a0[i]))) {
                    ctx.fail("unary", fmt("+x[%d] differs from x = %s", i, sstr(x).c_str()), "unchanged", P().kv("i", i));
                    return;
                }
            }
            if (!bits_equal(a, a0)) ctx.fail("unary", "operand modified", "unchanged");
        };
        long salt = 0;
        for (int n : lengths(T)) {
            const long s0 = salt;
            salt += n;
            if (!ctx.take("unary", P().kv("type", Tr<A>::name()).kv("n", n))) continue;
            run(make_arr<A>(n, s0, 1, Tr<A>::nv()));
            if (n >= 2) ctx.nontrivial();
        }
        if (ctx.take("unary", P().kv("type", Tr<A>::name()).kv("n", "ext"))) {
            run(A(ext_vals<E>()));
            ctx.nontrivial();
        }
    }
}

// Agreement of the array forms with the library's own scalar operators on the same operand types, bit for bit, over the
// extended alphabet (sign of zero, infinities, NaN).  Asserted for every form for which the unchanged tree has it (surveyed
// over all 106 forms without std::complex<double>: 92 agree).  The 14 forms that do not agree all promote a REAL operand
// to (x, +0) and then use the complex-complex operator where the scalar operator keeps the operand real, so a zero
// component differs in sign (and inf * 0 appears):  real-valued {+,-,*} complex-valued (arr_real with arr_cmplx / cmplx_t,
// real_t / int on the left of arr_cmplx) and cmplx_t {+,*} arr_real.  Both readings are "the usual field formulas with the
// real operand promoted", so these are only recorded in the notes.
template<class L, class R, class Op>
constexpr bool sibling_asserted() {
    constexpr bool l_real = !Tr<L>::cplx, r_cplx = Tr<R>::cplx;
    if (l_real && r_cplx && Op::c != '/') return false;
    if (std::is_same_v<L, cmplx_t> && std::is_same_v<R, arr_real> && (Op::c == '+' || Op::c == '*')) return false;
    return true;
}
template<class X>
struct ElemOf
{
    using type = X;
};
template<class E>
struct ElemOf<base_array<E>>
{
    using type = E;
};
template<class L, class R, class Op>
static void grid_sibling(Ctx& ctx, bool compound) {
    using EL = typename ElemOf<L>::type;
    using ER = typename ElemOf<R>::type;
    const std::string id = std::string(Tr<L>::name()) + " " + Op::c + (compound ? "= " : " ") + Tr<R>::name();
    if (!ctx.take("sibling", P().kv("expr", id))) return;
    const std::vector<EL> lv = ext_vals<EL>();
    const std::vector<ER> rv = ext_vals<ER>();
    long diffs = 0, judged = 0;
    std::string first;
    auto cmp = [&](const Sc& got, const Sc& want, const Sc& x, const Sc& y) {
        ++judged;
        if (bits_or_nan(got, want)) return;
        if (!diffs) first = sstr(x) + " " + Op::c + " " + sstr(y) + ": array form " + sstr(got) + ", scalar form " + sstr(want);
        ++diffs;
    };
    auto elemwise = [&](const auto& res, auto la, auto ra, int n) {
        if (res.size() != n) {
            ctx.fail("sibling", fmt("result length %d", res.size()), fmt("%d", n));
            return;
        }
        for (int i = 0; i < n; ++i) {
            const EL x = la(i);
            const ER y = ra(i);
            if (compound) {
                if constexpr (compound_supported<L, R>() && Tr<L>::arr) {
                    EL t = x;
                    Op::cp(t, y);
                    cmp(view(res[i]), view(t), view(x), view(y));
                }
            } else {
                cmp(view(res[i]), view(Op::ap(x, y)), view(x), view(y));
            }
        }
    };
    if constexpr (Tr<L>::arr && Tr<R>::arr) {
        const int na = (int)lv.size(), nb = (int)rv.size(), n = na * nb;
        L a(n);
        R b(n);
        for (int i = 0; i < n; ++i) a[i] = lv[(size_t)(i % na)], b[i] = rv[(size_t)(i / na)];
        const L a0 = a;
        if (compound) {
            if constexpr (compound_supported<L, R>()) {
                Op::cp(a, b);
                elemwise(a, [&](int i) { return a0[i]; }, [&](int i) { return b[i]; }, n);
            }
        } else {
            elemwise(Op::ap(a, b), [&](int i) { return a0[i]; }, [&](int i) { return b[i]; }, n);
        }
    } else if constexpr (Tr<L>::arr) {
        for (const ER& sc : rv) {
            L a(lv);
            const L a0 = a;
            if (compound) {
                if constexpr (compound_supported<L, R>()) {
                    Op::cp(a, sc);
                    elemwise(a, [&](int i) { return a0[i]; }, [&](int) { return sc; }, a0.size());
                }
            } else {
                elemwise(Op::ap(a, sc), [&](int i) { return a0[i]; }, [&](int) { return sc; }, a0.size());
            }
        }
    } else {
        for (const EL& sc : lv) {
            const R a(rv);
            elemwise(Op::ap(sc, a), [&](int) { return sc; }, [&](int i) { return a[i]; }, a.size());
        }
    }
    ctx.evaluations += (uint64_t)judged;
    ctx.checks[ctx.cur_check].evals += (uint64_t)judged;
    if (diffs == 0) {
        ctx.note("sibling.bit-identical: " + id);
    } else if (sibling_asserted<L, R, Op>()) {
        ctx.fail("sibling", fmt("%ld of %ld elements differ in their bits from the scalar operator; first: %s", diffs, judged, first.c_str()),
                 "array form bit-identical to the scalar operator on the same operands");
    } else {
        ctx.note("sibling.differs (not asserted): " + id + " e.g. " + first);
    }
    ctx.nontrivial();
}

// A std::complex<double> scalar must act exactly as its cmplx_t conversion: every form with a std::complex<double> operand is
// compared BIT FOR BIT with the same form taking cmplx_t(z), over the grid alphabet and the extended alphabet (all 113
// scalar values x all array values).  Holds on the unchanged tree for all 20 forms.
template<class A, class Op>
static void grid_stdc_equiv(Ctx& ctx, int form) {   // 0: a op z, 1: z op a, 2: a op= z
    using E = typename Tr<A>::elem;
    const std::string id = form == 0 ? std::string(Tr<A>::name()) + " " + Op::c + " std::complex<double>"
                                     : (form == 1 ? std::string("std::complex<double> ") + Op::c + " " + Tr<A>::name() : std::string(Tr<A>::name()) + " " + Op::c + "= std::complex<double>");
    if (!ctx.take("stdc.equiv", P().kv("expr", id))) return;
    std::vector<E> av = ext_vals<E>();
    for (int k = 0; k < Tr<A>::nv(); ++k) av.push_back(Tr<A>::val(k));
    std::vector<cmplx_t> zs = ext_vals<cmplx_t>();
    zs.insert(zs.end(), VC.begin(), VC.end());
    const A a0(av);
    long judged = 0;
    for (const cmplx_t& zc : zs) {
        const stdc z(zc.re, zc.im);
        arr_cmplx r1, r2;
        if (form == 0) {
            if constexpr (binary_supported<A, stdc, Op>()) r1 = Op::ap(a0, z);
            r2 = Op::ap(a0, zc);
        } else if (form == 1) {
            if constexpr (binary_supported<stdc, A, Op>()) r1 = Op::ap(z, a0);
            r2 = Op::ap(zc, a0);
        } else {
            if constexpr (Tr<A>::cplx) {
                A t1 = a0, t2 = a0;
                Op::cp(t1, z);
                Op::cp(t2, zc);
                r1 = t1;
                r2 = t2;
            }
        }
        if (r1.size() != a0.size() || r2.size() != a0.size()) {
            ctx.fail("stdc.equiv", fmt("result lengths %d / %d", r1.size(), r2.size()), fmt("%d", a0.size()));
            return;
        }
        for (int i = 0; i < a0.size(); ++i) {
            ++judged;
            if (!bits_or_nan(view(r1[i]), view(r2[i]))) {
                ctx.fail("stdc.equiv", fmt("element %s, scalar (%g,%g): with std::complex<double> %s, with cmplx_t %s", sstr(view(a0[i])).c_str(), zc.re, zc.im, sstr(view(r1[i])).c_str(), sstr(view(r2[i])).c_str()),
                         "bit-identical results", P().kv("i", i));
                return;
            }
        }
    }
    ctx.evaluations += (uint64_t)judged;
    ctx.checks[ctx.cur_check].evals += (uint64_t)judged;
    ctx.nontrivial();
}

// ------------------------------------------------------------------------------------------------ value semantics
template<class E>
static E tagv(int i);
template<>
real_t tagv<real_t>(int i) {
    return i + 1;
}
template<>
cmplx_t tagv<cmplx_t>(int i) {
    return cmplx_t(i + 1, -(i + 1) - 0.5);
}
template<class E>
static base_array<E> tagged(int n, int base = 0) {
    base_array<E> a(n);
    for (int i = 0; i < n; ++i) a[i] = tagv<E>(base + i);
    return a;
}
template<class E>
static bool is_seq(const base_array<E>& a, const std::vector<int>& tags) {
    if (a.size() != (int)tags.size()) return false;
    for (int i = 0; i < a.size(); ++i) {
        const E e = tagv<E>(tags[(size_t)i]);
        if (std::memcmp(&a[i], &e, sizeof(E)) != 0) return false;
    }
    return true;
}

template<class E>
static void value_semantics(Ctx& ctx) {
    using A = base_array<E>;
    const char* tn = Tr<A>::name();
    std::vector<int> ns;
    for (int n = 0; n <= 16; ++n) ns.push_back(n);
    ns.push_back(BIG1);
    ns.push_back(BIG2);
    for (int n : ns) {
        if (!ctx.take("copy", P().kv("type", tn).kv("n", n))) continue;
        const A src0 = tagged<E>(n);
        A src = src0;
        {   // copy construction, then mutate the copy in every way
            A c(src);
            if (!bits_equal(c, src0)) ctx.fail("copy", "copy differs from its source", "equal");
            for (int i = 0; i < n; ++i) c[i] = tagv<E>(500 + i);
            c += c;
            c *= real_t(3);
            c |= c;
            if (!bits_equal(src, src0)) ctx.fail("copy", "mutating a copy changed the source", "source unchanged");
        }
        {   // copy assignment (also over a longer and a shorter target), self assignment
            for (int m : {0, n / 2, n + 3}) {
                A c = tagged<E>(m, 300);
                c = src;
                if (!bits_equal(c, src0)) ctx.fail("copy", "copy-assigned array differs from its source", "equal");
                if (n) c[n - 1] = tagv<E>(900);
                c -= c;
                if (!bits_equal(src, src0)) ctx.fail("copy", "mutating a copy-assigned array changed the source", "source unchanged");
            }
            A& alias = src;
            src = alias;
            if (!bits_equal(src, src0)) ctx.fail("copy", "self assignment changed the array", "unchanged");
        }
        {   // source mutated after the copy: copy unaffected
            A s2 = src0;
            A c = s2;
            for (int i = 0; i < n; ++i) s2[i] = tagv<E>(700 + i);
            s2 |= s2;
            if (!bits_equal(c, src0)) ctx.fail("copy", "mutating the source changed the copy", "copy unchanged");
        }
        {   // move: target takes the value, the moved-from array stays usable
            A s2 = src0;
            A c(std::move(s2));
            if (!bits_equal(c, src0)) ctx.fail("move", "move-constructed array differs from the source value", "equal");
            s2 = tagged<E>(3, 40);   // assignable
            if (!is_seq(s2, {40, 41, 42})) ctx.fail("move", "moved-from array not assignable", "[40,41,42]");
            A d = tagged<E>(2, 60);
            A s3 = src0;
            d = std::move(s3);
            if (!bits_equal(d, src0)) ctx.fail("move", "move-assigned array differs from the source value", "equal");
            const int sz = s3.size();   // valid but unspecified: must be readable over its own size
            E acc{};
            for (int i = 0; i < sz; ++i) acc = acc + s3[i];
            (void)acc;
            s3 = src0;
            if (!bits_equal(s3, src0)) ctx.fail("move", "moved-from array not assignable", "equal");
            for (int i = 0; i < d.size(); ++i) d[i] = tagv<E>(800);
            if (!bits_equal(s3, src0) || !bits_equal(c, src0)) ctx.fail("move", "arrays share storage after move", "independent");
        }
        if (n >= 2) ctx.nontrivial();
    }
}

// aliasing: a op= a, a op a, a |= a (the latter in a forked child: self-insertion into a std::vector)
template<class A>
static void aliasing(Ctx& ctx, bool T) {
    long salt = 0;
    for (int n : lengths(T)) {
        const long s0 = salt;
        salt += n;
        if (!ctx.take("alias", P().kv("type", Tr<A>::name()).kv("n", n))) continue;
        const A a0 = make_arr<A>(n, s0, 1, Tr<A>::nv());
        long nz = 0;
        for_types<Add, Sub, Mul, Div>([&](auto opt) {
            using Op = typename decltype(opt)::type;
            {
                A a = a0;
                A& al = a;
                Op::cp(a, al);
                check_elems(ctx, "a op= a", Op::c, a, n, [&](int i) { return view(a0[i]); }, [&](int i) { return view(a0[i]); }, nz);
            }
            {
                A a = a0;
                auto r = Op::ap(a, a);
                check_elems(ctx, "a op a", Op::c, r, n, [&](int i) { return view(a0[i]); }, [&](int i) { return view(a0[i]); }, nz);
                if (!bits_equal(a, a0)) ctx.fail("a op a", "operand modified", "unchanged");
            }
        });
        if (n <= 64 || n == BIG1 || n == BIG2) {
            forked(ctx, "a |= a", 60.0, [&](ChildCtx& c) {
                fb::label("a |= a");
                using E = typename Tr<A>::elem;
                for (int rep = 0; rep < 2; ++rep) {   // rep 1: after a previous growth (spare capacity)
                    A a = tagged<E>(n);
                    std::vector<int> want;
                    for (int i = 0; i < n; ++i) want.push_back(i);
                    if (rep) {
                        a |= tagged<E>(1, n);
                        want.push_back(n);
                    }
                    A& al = a;
                    a |= al;
                    std::vector<int> w2 = want;
                    w2.insert(w2.end(), want.begin(), want.end());
                    if (!is_seq(a, w2)) c.fail("a |= a", fmt("wrong self-concatenation for n=%d (result length %d)", n, a.size()), "a followed by a");
                    A b = tagged<E>(n);
                    A r = b | b;
                    std::vector<int> w3;
                    for (int i = 0; i < 2 * n; ++i) w3.push_back(i % std::max(n, 1));
                    if (!is_seq(r, w3) || !is_seq(b, std::vector<int>(w3.begin(), w3.begin() + n))) c.fail("a | a", "wrong self-concatenation", "a followed by a, a unchanged");
                    ++c.evals;
                }
            });
        }
        if (nz >= 2) ctx.nontrivial();
    }
}

// aliasing of the SCALAR operand: the scalar is a reference to an element of the array itself (a op= a[k], a op= a[k].re,
// a op a[k], a[k] op a, a.slice(..) = a[k]).  Expected: the value a[k] had BEFORE the statement is used for every element.
template<class A>
static void elem_aliasing(Ctx& ctx) {
    using E = typename Tr<A>::elem;
    for (int n : {1, 2, 5, 64})
        for (int kc = 0; kc < 3; ++kc) {
            const int k = kc == 0 ? 0 : (kc == 1 ? n / 2 : n - 1);
            if (!ctx.take("alias.elem", P().kv("type", Tr<A>::name()).kv("n", n).kv("k", k).kv("which", kc == 0 ? "first" : (kc == 1 ? "middle" : "last")))) continue;
            long nz = 0;
            for (int vs = 0; vs < 2; ++vs) {
                // vs 0: tags 2,3,4,... (complex (v,-v-0.5)): no element is 0 or 1, so every operator changes a[k]; vs 1: the grid alphabet
                const A a0 = vs ? make_arr<A>(n, n + kc, 1, Tr<A>::nv()) : tagged<E>(n, 1);
                for_types<Add, Sub, Mul, Div>([&](auto opt) {
                    using Op = typename decltype(opt)::type;
                    {
                        A a = a0;
                        Op::cp(a, a[k]);   // the scalar parameter is bound to the element itself
                        check_elems(ctx, "a op= a[k]", Op::c, a, n, [&](int i) { return view(a0[i]); }, [&](int) { return view(a0[k]); }, nz);
                    }
                    {
                        A a = a0;
                        auto r = Op::ap(a, a[k]);
                        check_elems(ctx, "a op a[k]", Op::c, r, n, [&](int i) { return view(a0[i]); }, [&](int) { return view(a0[k]); }, nz);
                        if (!bits_equal(a, a0)) ctx.fail("a op a[k]", "operand modified", "unchanged");
                    }
                    {
                        A a = a0;
                        auto r = Op::ap(a[k], a);
                        check_elems(ctx, "a[k] op a", Op::c, r, n, [&](int) { return view(a0[k]); }, [&](int i) { return view(a0[i]); }, nz);
                        if (!bits_equal(a, a0)) ctx.fail("a[k] op a", "operand modified", "unchanged");
                    }
                    if constexpr (Tr<A>::cplx) {   // real scalar that is the real part of an element
                        const real_t old = a0[k].re;
                        {
                            A a = a0;
                            Op::cp(a, a[k].re);
                            check_elems(ctx, "a op= a[k].re", Op::c, a, n, [&](int i) { return view(a0[i]); }, [&](int) { return view(old); }, nz);
                        }
                        {
                            A a = a0;
                            auto r1 = Op::ap(a, a[k].re);
                            auto r2 = Op::ap(a[k].re, a);
                            check_elems(ctx, "a op a[k].re", Op::c, r1, n, [&](int i) { return view(a0[i]); }, [&](int) { return view(old); }, nz);
                            check_elems(ctx, "a[k].re op a", Op::c, r2, n, [&](int) { return view(old); }, [&](int i) { return view(a0[i]); }, nz);
                            if (!bits_equal(a, a0)) ctx.fail("a op a[k].re", "operand modified", "unchanged");
                        }
                    }
                });
                // scalar fill of a slice of a from an element of a
                for (int st : {1, 2, -1}) {
                    A a = a0;
                    if (st > 0) a.slice(0, n, st) = a[k];
                    else if (n >= 2) a.slice(n - 1, 0, -1) = a[k];
                    bool ok = a.size() == n;
                    for (int i = 0; ok && i < n; ++i) {
                        const bool in = st > 0 ? (i % st == 0) : (n >= 2 && i >= 1);
                        const E e = in ? a0[k] : a0[i];
                        if (std::memcmp(&a[i], &e, sizeof(E)) != 0) ok = false;
                    }
                    if (!ok) ctx.fail("a.slice = a[k]", fmt("slice fill from a[%d] (n=%d, step %d) wrong", k, n, st), "designated positions = old a[k], others unchanged", P().kv("step", st));
                }
            }
            if (nz >= 2) ctx.nontrivial();
        }
}

// ------------------------------------------------------------------------------------------------ scalar compound forms, aliased
// A complex SCALAR combined in place with one of its own components or with itself (z *= z.re, z /= z.im, z -= z): the parameter
// is a reference to storage the operator is rewriting.  Reference: the non-compound operator on copies of the operands, bit for bit.
static void scalar_aliasing(Ctx& ctx) {
    for (int which = 0; which < 3; ++which) {   // 0: z op= z.re   1: z op= z.im   2: z op= z
        if (!ctx.take("alias.scalar", P().kv("rhs", which == 0 ? "z.re" : (which == 1 ? "z.im" : "z")))) continue;
        long changed = 0;
        std::vector<cmplx_t> zs = VC;
        for (double a : {2.0, -7.0, 0.25, 1e50})
            for (double b : {3.0, -0.125, 5e-30}) zs.push_back({a, b});
        for (const cmplx_t& z0 : zs)
            for (int op = 0; op < 4; ++op) {
                cmplx_t z = z0, e;
                const real_t r0 = which == 0 ? z0.re : z0.im;
                if (which < 2) {
                    real_t& r = which == 0 ? z.re : z.im;
                    switch (op) {
                    case 0: z += r; e = z0 + r0; break;
                    case 1: z -= r; e = z0 - r0; break;
                    case 2: z *= r; e = z0 * r0; break;
                    default: z /= r; e = z0 / r0;
                    }
                } else {
                    const cmplx_t c0 = z0;
                    switch (op) {
                    case 0: z += z; e = z0 + c0; break;
                    case 1: z -= z; e = z0 - c0; break;
                    case 2: z *= z; e = z0 * c0; break;
                    default: z /= z; e = z0 / c0;
                    }
                }
                ++ctx.evaluations;
                ++ctx.checks["alias.scalar"].evals;
                const bool same = (std::memcmp(&z, &e, sizeof z) == 0) || ((z.re != z.re) && (e.re != e.re)) || ((z.im != z.im) && (e.im != e.im) && std::memcmp(&z.re, &e.re, sizeof(real_t)) == 0);
                if (std::memcmp(&z, &z0, sizeof z) != 0) ++changed;
                if (!same) {
                    static const char* ON[] = {"+=", "-=", "*=", "/="};
                    ctx.fail(fmt("cmplx_t %s", ON[op]).c_str(), fmt("z=(%.17g,%.17g): z %s %s gives (%.17g,%.17g)", z0.re, z0.im, ON[op], which == 0 ? "z.re" : (which == 1 ? "z.im" : "z"), z.re, z.im),
                             fmt("(%.17g,%.17g) = the operator applied to the operands as they were before the call", e.re, e.im), P().kv("op", ON[op]).kv("re", z0.re).kv("im", z0.im));
                    break;
                }
            }
        if (changed) ctx.nontrivial();
    }
}

// ------------------------------------------------------------------------------------------------ results observed through references
// Nested expressions whose result is bound to a reference or iterated in place (const A& r = (a+b)+c; auto&& r = ...; range-for):
// every operator returns a value, so the temporary lives as long as the reference.  Reference result: the same steps with named
// intermediate arrays.  (An operator overload for temporaries that hands back a reference to its dying operand fails here; the
// AddressSanitizer pass reports the read, the plain pass sees the values.)
template<class E>
static void ref_binding(Ctx& ctx) {
    using A = base_array<E>;
    for (int n : {1, 5, 64, 1000}) {
        if (!ctx.take("expr.refbind", P().kv("type", Tr<A>::name()).kv("n", n))) continue;
        const A a = tagged<E>(n, 1), b = tagged<E>(n, 7), c = tagged<E>(n, 3);
        int bad = 0;
        auto judge = [&](const char* form, const A& got, const A& want) {
            ++ctx.evaluations;
            ++ctx.checks["expr.refbind"].evals;
            if (!bits_equal(got, want) && bad++ < 2) ctx.fail(form, fmt("n=%d: the array seen through the reference differs from the stepwise result", n), "element-wise result of the expression", P().kv("form", form));
        };
        const A ab = a + b, amb = a - b, axb = a * b;
        {
            const A& r = (a + b) + c;
            const A want = ab + c;
            judge("const A& r = (a+b)+c", r, want);
        }
        {
            auto&& r = (a - b) * c;
            const A want = amb * c;
            judge("auto&& r = (a-b)*c", r, want);
        }
        {
            const A& r = ((a * b) - c) / b;
            const A t = axb - c;
            const A want = t / b;
            judge("const A& r = ((a*b)-c)/b", r, want);
        }
        {
            A got(n);
            int i = 0;
            for (const auto& v : (a * b) - c) got[i++] = v;
            const A want = axb - c;
            judge("for (v : (a*b)-c)", got, want);
        }
        {
            const A& r = -((a + b) - c);
            const A t = ab - c;
            const A want = -t;
            judge("const A& r = -((a+b)-c)", r, want);
        }
        ctx.nontrivial();
    }
}

// ------------------------------------------------------------------------------------------------ concatenation, selection
template<class E>
static std::vector<int> tags_of(const std::vector<int>& lens) {
    std::vector<int> t;
    for (size_t j = 0; j < lens.size(); ++j)
        for (int i = 0; i < lens[j]; ++i) t.push_back(100 * (int)j + i);
    return t;
}

template<class E>
static void concat_same(Ctx& ctx) {
    using A = base_array<E>;
    for (int k = 2; k <= 5; ++k) {
        int total = 1;
        for (int j = 0; j < k; ++j) total *= 4;
        for (int code = 0; code < total; ++code) {
            if (!ctx.take("concat", P().kv("type", Tr<A>::name()).kv("parts", k).kv("code", code))) continue;
            std::vector<int> lens;
            for (int j = 0, c = code; j < k; ++j, c /= 4) lens.push_back(c % 4);
            std::vector<A> parts;
            for (int j = 0; j < k; ++j) parts.push_back(tagged<E>(lens[(size_t)j], 100 * j));
            const std::vector<A> parts0 = parts;
            const std::vector<int> want = tags_of<E>(lens);
            A r1;
            switch (k) {
                case 2: r1 = concatenate(parts[0], parts[1]); break;
                case 3: r1 = concatenate(parts[0], parts[1], parts[2]); break;
                case 4: r1 = concatenate(parts[0], parts[1], parts[2], parts[3]); break;
                default: r1 = concatenate(parts[0], parts[1], parts[2], parts[3], parts[4]); break;
            }
            if (!is_seq(r1, want)) ctx.fail("concatenate", fmt("concatenate of lengths %s has length %d or wrong elements", show(lens).c_str(), r1.size()), "parts in order");
            A r2 = parts[0] | parts[1];
            for (int j = 2; j < k; ++j) r2 = r2 | parts[(size_t)j];
            if (!is_seq(r2, want)) ctx.fail("operator|", fmt("a|b|... of lengths %s wrong (length %d)", show(lens).c_str(), r2.size()), "parts in order");
            A r3 = parts[0];
            for (int j = 1; j < k; ++j) r3 |= parts[(size_t)j];
            if (!is_seq(r3, want)) ctx.fail("operator|=", fmt("a|=b... of lengths %s wrong (length %d)", show(lens).c_str(), r3.size()), "parts in order");
            for (int j = 0; j < k; ++j)
                if (!bits_equal(parts[(size_t)j], parts0[(size_t)j])) ctx.fail("concatenate", "a part was modified", "unchanged");
            if (want.size() >= 2) ctx.nontrivial();
        }
    }
}

static void concat_mixed(Ctx& ctx) {
    for (int n1 = 0; n1 <= 8; ++n1)
        for (int n2 = 0; n2 <= 8; ++n2) {
            if (!ctx.take("concat.mixed", P().kv("n1", n1).kv("n2", n2))) continue;
            const arr_real r1 = tagged<real_t>(n1), r2 = tagged<real_t>(n2, 100);
            const arr_cmplx c1 = tagged<cmplx_t>(n1), c2 = tagged<cmplx_t>(n2, 100);
            auto rc = r1 | c2;
            auto cr = c1 | r2;
            static_assert(std::is_same_v<decltype(rc), arr_cmplx> && std::is_same_v<decltype(cr), arr_cmplx>);
            bool ok = rc.size() == n1 + n2 && cr.size() == n1 + n2;
            for (int i = 0; ok && i < n1 + n2; ++i) {
                const cmplx_t e1 = i < n1 ? cmplx_t(r1[i], 0) : c2[i - n1];
                const cmplx_t e2 = i < n1 ? c1[i] : cmplx_t(r2[i - n1], 0);
                if (!(rc[i].re == e1.re && rc[i].im == e1.im && cr[i].re == e2.re && cr[i].im == e2.im)) ok = false;
            }
            if (!ok) ctx.fail("operator|", fmt("real|complex or complex|real wrong for lengths %d,%d", n1, n2), "promoted concatenation");
            arr_cmplx acc = c1;
            acc |= r2;
            bool ok2 = acc.size() == n1 + n2;
            for (int i = 0; ok2 && i < n1 + n2; ++i) {
                const cmplx_t e2 = i < n1 ? c1[i] : cmplx_t(r2[i - n1], 0);
                if (!(acc[i].re == e2.re && acc[i].im == e2.im)) ok2 = false;
            }
            if (!ok2) ctx.fail("operator|=", fmt("complex |= real wrong for lengths %d,%d", n1, n2), "promoted concatenation");
            if (n1 + n2 >= 2) ctx.nontrivial();
        }
}

template<class E>
static void zeropad_checks(Ctx& ctx) {
    using A = base_array<E>;
    for (int len = 0; len <= 8; ++len)
        for (int n = 0; n <= 12; ++n) {
            if (!ctx.take("zeropad", P().kv("type", Tr<A>::name()).kv("len", len).kv("n", n))) continue;
            const A x = tagged<E>(len);
            const A x0 = x;
            try {
                A y = zeropad(x, n);
                if (n < len) {
                    // the statement is silent on a target shorter than the array; the library rejects it - a returned array is noted only
                    ctx.note("zeropad: shorter target accepted");
                } else {
                    bool ok = y.size() == n;
                    for (int i = 0; ok && i < n; ++i) {
                        const E e = i < len ? x0[i] : E{};
                        if (!(gre_of(y[i]) == gre_of(e) && gim_of(y[i]) == gim_of(e))) ok = false;
                    }
                    if (!ok) ctx.fail("zeropad", fmt("zeropad(len %d, %d) wrong (length %d)", len, n, y.size()), "x followed by zeros");
                }
            } catch (const std::exception& e) {
                if (n >= len) ctx.fail("zeropad", std::string("throws: ") + e.what(), "padded array");
                else ctx.note("zeropad: shorter target rejected");
            }
            if (!bits_equal(x, x0)) ctx.fail("zeropad", "argument modified", "unchanged");
            if (n >= 2 && n >= len) ctx.nontrivial();
        }
}

template<class E>
static void selection_checks(Ctx& ctx, bool T) {
    using A = base_array<E>;
    const int NM = T ? (g_asan ? 12 : 14) : 8;
    for (int n = 0; n <= NM; ++n) {
        const A x = tagged<E>(n);
        for (int blk = 0; blk < (1 << n); blk += 64) {
            if (!ctx.take("mask", P().kv("type", Tr<A>::name()).kv("n", n).kv("first", blk))) continue;
            for (int m = blk; m < std::min(1 << n, blk + 64); ++m) {
                std::vector<bool> mask((size_t)n);
                std::vector<int> want;
                for (int i = 0; i < n; ++i) {
                    mask[(size_t)i] = (m >> i) & 1;
                    if (mask[(size_t)i]) want.push_back(i);
                }
                A y = x[mask];
                if (!is_seq(y, want)) ctx.fail("operator[](mask)", fmt("mask %d of n=%d selects %d elements or wrong ones", m, n, y.size()), "elements " + show(want), P().kv("mask", m));
            }
            if (!is_seq(x, [&] { std::vector<int> w; for (int i = 0; i < n; ++i) w.push_back(i); return w; }())) ctx.fail("operator[](mask)", "array modified", "unchanged");
            if (n >= 2) ctx.nontrivial();
        }
    }
    // index lists of length 1..3 over 0..n-1 (an empty list is the misuse case of C05 / F7, not generated here)
    for (int n = 1; n <= (T ? 7 : 5); ++n) {
        const A x = tagged<E>(n);
        for (int len = 1; len <= (T ? 5 : 3); ++len) {
            if (!ctx.take("indexlist", P().kv("type", Tr<A>::name()).kv("n", n).kv("len", len))) continue;
            int total = 1;
            for (int j = 0; j < len; ++j) total *= n;
            for (int code = 0; code < total; ++code) {
                std::vector<int> idx;
                for (int j = 0, c = code; j < len; ++j, c /= n) idx.push_back(c % n);
                A y1 = x[idx];
                A y2 = x[arr_int(idx)];
                if (!is_seq(y1, idx) || !is_seq(y2, idx)) ctx.fail("operator[](indices)", "index list " + show(idx) + fmt(" of n=%d selects wrong elements", n), "elements " + show(idx), P().list("idx", idx));
            }
            if (len >= 2) ctx.nontrivial();
        }
    }
}

// sizes above 4096 and above 65536 (both tiers): mask selection, index-list selection, concatenation, zeropad
template<class E>
static void big_checks(Ctx& ctx) {
    using A = base_array<E>;
    const char* tn = Tr<A>::name();
    auto seq_ok = [](const A& y, const std::vector<int>& want, int& at) {
        if (y.size() != (int)want.size()) {
            at = -1;
            return false;
        }
        for (int i = 0; i < y.size(); ++i) {
            const E e = tagv<E>(want[(size_t)i]);
            if (std::memcmp(&y[i], &e, sizeof(E)) != 0) {
                at = i;
                return false;
            }
        }
        return true;
    };
    for (int n : {BIG1, BIG2, BIG3}) {
        const A x = tagged<E>(n);
        const A x0 = x;
        // ---- masks
        const char* pats[] = {"all", "none", "alternating", "every3rd", "first", "last", "hash", "upper-half"};
        for (int pi = 0; pi < 8; ++pi) {
            if (!ctx.take("big.mask", P().kv("type", tn).kv("n", n).kv("pattern", pats[pi]))) continue;
            std::vector<bool> m((size_t)n);
            std::vector<int> want;
            for (int i = 0; i < n; ++i) {
                bool b = false;
                switch (pi) {
                    case 0: b = true; break;
                    case 1: b = false; break;
                    case 2: b = i & 1; break;
                    case 3: b = i % 3 == 0; break;
                    case 4: b = i == 0; break;
                    case 5: b = i == n - 1; break;
                    case 6: b = ((uint32_t)i * 2654435761u >> 13) & 1; break;
                    default: b = i >= n / 2; break;
                }
                m[(size_t)i] = b;
                if (b) want.push_back(i);
            }
            int at = 0;
            A y = x[m];
            if (!seq_ok(y, want, at)) ctx.fail("operator[](mask)", fmt("n=%d pattern %s: %d elements selected, first wrong position %d", n, pats[pi], y.size(), at), fmt("%zu designated elements in order", want.size()));
            if (!bits_equal(x, x0)) ctx.fail("operator[](mask)", "array modified", "unchanged");
            ctx.nontrivial();
        }
        // ---- index lists (as std::vector<int> and as arr_int)
        const char* lists[] = {"reversed", "stride-permutation", "last-repeated", "single-last", "every-4097th"};
        for (int li = 0; li < 5; ++li) {
            if (!ctx.take("big.indexlist", P().kv("type", tn).kv("n", n).kv("list", lists[li]))) continue;
            std::vector<int> idx;
            switch (li) {
                case 0:
                    for (int i = n - 1; i >= 0; --i) idx.push_back(i);
                    break;
                case 1:
                    for (long i = 0; i < n; ++i) idx.push_back((int)((i * 7919 + 3) % n));
                    break;
                case 2: idx.assign((size_t)BIG2 + 1, n - 1); break;
                case 3: idx.push_back(n - 1); break;
                default:
                    for (int i = 0; i < n; i += 4097) idx.push_back(i);
                    break;
            }
            int at = 0;
            A y1 = x[idx];
            A y2 = x[arr_int(idx)];
            if (!seq_ok(y1, idx, at) || !seq_ok(y2, idx, at)) ctx.fail("operator[](indices)", fmt("n=%d list %s (%zu indices): lengths %d/%d, first wrong position %d", n, lists[li], idx.size(), y1.size(), y2.size(), at), "designated elements in order");
            if (!bits_equal(x, x0)) ctx.fail("operator[](indices)", "array modified", "unchanged");
            ctx.nontrivial();
        }
    }
    // ---- concatenation / zeropad with big parts (tags: part j starts at j * 1000000)
    const std::vector<std::vector<int>> shapes = {{BIG1, 3}, {3, BIG1}, {BIG2, BIG2}, {0, BIG2, 1, BIG1, 2}, {4096, 4097, 65535, 65537}, {BIG3, 1}};
    for (size_t si = 0; si < shapes.size(); ++si) {
        const std::vector<int>& lens = shapes[si];
        if (!ctx.take("big.concat", P().kv("type", tn).list("lens", lens))) continue;
        const int k = (int)lens.size();
        std::vector<A> parts;
        std::vector<int> want;
        for (int j = 0; j < k; ++j) {
            parts.push_back(tagged<E>(lens[(size_t)j], 1000000 * j));
            for (int i = 0; i < lens[(size_t)j]; ++i) want.push_back(1000000 * j + i);
        }
        const std::vector<A> parts0 = parts;
        const A empty;
        A r1 = concatenate(parts[0], parts[1], k > 2 ? parts[2] : empty, k > 3 ? parts[3] : empty, k > 4 ? parts[4] : empty);
        A r2 = parts[0] | parts[1];
        for (int j = 2; j < k; ++j) r2 = r2 | parts[(size_t)j];
        A r3 = parts[0];
        for (int j = 1; j < k; ++j) r3 |= parts[(size_t)j];
        int at = 0;
        if (!seq_ok(r1, want, at)) ctx.fail("concatenate", fmt("lengths %s: result length %d, first wrong position %d", show(lens).c_str(), r1.size(), at), "parts in order");
        if (!seq_ok(r2, want, at)) ctx.fail("operator|", fmt("lengths %s: result length %d, first wrong position %d", show(lens).c_str(), r2.size(), at), "parts in order");
        if (!seq_ok(r3, want, at)) ctx.fail("operator|=", fmt("lengths %s: result length %d, first wrong position %d", show(lens).c_str(), r3.size(), at), "parts in order");
        for (int j = 0; j < k; ++j)
            if (!bits_equal(parts[(size_t)j], parts0[(size_t)j])) ctx.fail("concatenate", "a part was modified", "unchanged");
        // zeropad of the first part to the total length
        A z = zeropad(parts[0], (int)want.size());
        bool zok = z.size() == (int)want.size();
        for (int i = 0; zok && i < z.size(); ++i) {
            const E e = i < lens[0] ? parts0[0][i] : E{};
            if (!(gre_of(z[i]) == gre_of(e) && gim_of(z[i]) == gim_of(e))) zok = false;
        }
        if (!zok) ctx.fail("zeropad", fmt("zeropad(%d -> %zu) wrong", lens[0], want.size()), "x followed by zeros");
        ctx.nontrivial();
    }
}
static void big_mixed_concat(Ctx& ctx) {
    for (auto nn : std::vector<std::pair<int, int>>{{BIG2, BIG1}, {BIG1, BIG2}, {3, BIG2}}) {
        const int n1 = nn.first, n2 = nn.second;
        if (!ctx.take("big.concat.mixed", P().kv("n1", n1).kv("n2", n2))) continue;
        const arr_real r1 = tagged<real_t>(n1), r2 = tagged<real_t>(n2, 1000000);
        const arr_cmplx c1 = tagged<cmplx_t>(n1), c2 = tagged<cmplx_t>(n2, 1000000);
        arr_cmplx rc = r1 | c2, cr = c1 | r2, acc = c1;
        acc |= r2;
        bool ok = rc.size() == n1 + n2 && cr.size() == n1 + n2 && acc.size() == n1 + n2;
        for (int i = 0; ok && i < n1 + n2; ++i) {
            const cmplx_t e1 = i < n1 ? cmplx_t(r1[i], 0) : c2[i - n1];
            const cmplx_t e2 = i < n1 ? c1[i] : cmplx_t(r2[i - n1], 0);
            if (!(rc[i].re == e1.re && rc[i].im == e1.im && cr[i].re == e2.re && cr[i].im == e2.im && acc[i].re == e2.re && acc[i].im == e2.im)) ok = false;
        }
        if (!ok) ctx.fail("operator|", fmt("real|complex / complex|real / complex|=real wrong for lengths %d,%d", n1, n2), "promoted concatenation");
        ctx.nontrivial();
    }
}

// ------------------------------------------------------------------------------------------------ expression programs
using Val = std::variant<real_t, cmplx_t, arr_real, arr_cmplx>;
// (explicit alternative: std::variant's converting constructor would probe cmplx_t's unconstrained constructor template)
template<class X>
static Val mkval(X&& x) {
    return Val(std::in_place_type<std::decay_t<X>>, std::forward<X>(x));
}
static const int PN = 4;   // array length in programs
static const double PV[] = {1, -1, 0.5, -0.5, 3, -3, 2, -2, 1.5, -0.25, 0.75, -1.25, 0.1, -0.7, 1.0 / 3.0, 2.5};
static const int NPV = 16;

struct RefEl
{
    cld v;
    ld e;      // bound on |value computed in double - v|
    bool ok;   // false: outside the domain (zero or ill-conditioned divisor upstream)
};
struct RefVal
{
    bool arr, cplx;
    RefEl el[PN];
};

// leaf kinds: 0 real array, 1 complex array, 2 real scalar, 3 complex scalar; pos = position of the leaf in the program
static double pv(int a) { return PV[((a % NPV) + NPV) % NPV]; }
static void make_leaf(int kind, int pos, Val& lv, RefVal& rv) {
    rv.arr = kind < 2;
    rv.cplx = (kind & 1);
    for (int i = 0; i < PN; ++i) {
        const int ii = rv.arr ? i : 0;
        const double re = pv(pos * 5 + ii * 3 + 1 + kind), im = rv.cplx ? pv(pos * 7 + ii * 5 + 4 + kind) : 0.0;
        rv.el[i] = {cld(re, im), 0, true};
    }
    switch (kind) {
        case 0: {
            arr_real a(PN);
            for (int i = 0; i < PN; ++i) a[i] = (double)rv.el[i].v.real();
            lv = mkval(a);
            break;
        }
        case 1: {
            arr_cmplx a(PN);
            for (int i = 0; i < PN; ++i) a[i] = cmplx_t((double)rv.el[i].v.real(), (double)rv.el[i].v.imag());
            lv = mkval(a);
            break;
        }
        case 2: lv = mkval((real_t)rv.el[0].v.real()); break;
        default: lv = mkval(cmplx_t((double)rv.el[0].v.real(), (double)rv.el[0].v.imag())); break;
    }
}
static const char* leaf_name(int kind) {
    static const char* n[] = {"R", "C", "r", "z"};
    return n[kind];
}

static Val lib_apply(char op, const Val& a, const Val& b) {
    return std::visit(
        [&](const auto& x, const auto& y) -> Val {
            switch (op) {
                case '+': return mkval(x + y);
                case '-': return mkval(x - y);
                case '*': return mkval(x * y);
                default: return mkval(x / y);
            }
        },
        a, b);
}
// unary minus of a complex array: only where it compiles (neg_compiles); otherwise programs that need it are skipped
// and counted - the form itself is then observed by the compile probe "-arr_cmplx"
static bool can_neg(const Val& a) { return a.index() != 3 || neg_compiles<arr_cmplx>(); }
static Val lib_neg(const Val& a) {
    return std::visit(
        [&](const auto& x) -> Val {
            using X = std::decay_t<decltype(x)>;
            if constexpr (std::is_same_v<X, arr_cmplx> && !neg_compiles<arr_cmplx>()) {
                fprintf(stderr, "lib_neg: complex array\n");
                exit(4);
            } else {
                return mkval(-x);
            }
        },
        a);
}
// bit-level side condition of every unary-minus node of a program: -v has exactly the sign-flipped components of v
static bool neg_bits_ok(const Val& v, const Val& m, std::string& why) {
    if (v.index() != m.index()) {
        why = "type changed";
        return false;
    }
    auto one = [&](const Sc& x, const Sc& g, int i) {
        const Sc want = {-x.re, x.cplx ? -x.im : 0.0, x.cplx};
        if (bits_or_nan(g, want)) return true;
        why = fmt("element %d: -%s gave %s, expected %s", i, sstr(x).c_str(), sstr(g).c_str(), sstr(want).c_str());
        return false;
    };
    switch (v.index()) {
        case 0: return one(view(std::get<0>(v)), view(std::get<0>(m)), 0);
        case 1: return one(view(std::get<1>(v)), view(std::get<1>(m)), 0);
        case 2: {
            const arr_real &a = std::get<2>(v), &b = std::get<2>(m);
            if (a.size() != b.size()) {
                why = "length changed";
                return false;
            }
            for (int i = 0; i < a.size(); ++i)
                if (!one(view(a[i]), view(b[i]), i)) return false;
            return true;
        }
        default: {
            const arr_cmplx &a = std::get<3>(v), &b = std::get<3>(m);
            if (a.size() != b.size()) {
                why = "length changed";
                return false;
            }
            for (int i = 0; i < a.size(); ++i)
                if (!one(view(a[i]), view(b[i]), i)) return false;
            return true;
        }
    }
}

// unary minus of a program value through the real operator, with the bit-level side condition
// program names are rendered only when a failure is reported (PF: std::string or a callable returning one)
static std::string pstr(const std::string& s) { return s; }
template<class F>
static auto pstr(const F& f) -> decltype(f()) {
    return f();
}
template<class PF>
static Val checked_neg(const Val& v, const PF& prog) {
    Val m = lib_neg(v);
    std::string why;
    if (!neg_bits_ok(v, m, why)) g_ctx->fail("expression", "unary minus: " + why, "every component negated bit for bit", P().kv("prog", "-(" + pstr(prog) + ")"));
    return m;
}

static RefVal ref_apply(char op, const RefVal& a, const RefVal& b) {
    RefVal r;
    r.arr = a.arr || b.arr;
    r.cplx = a.cplx || b.cplx;
    for (int i = 0; i < PN; ++i) {
        const RefEl &x = a.el[i], &y = b.el[i];
        RefEl& z = r.el[i];
        z.ok = x.ok && y.ok;
        if (!z.ok) {
            z.v = 0;
            z.e = 0;
            continue;
        }
        const ld ax = std::abs(x.v), ay = std::abs(y.v);
        switch (op) {
            case '+':
            case '-':
                z.v = op == '+' ? x.v + y.v : x.v - y.v;
                z.e = x.e + y.e + EPS * (std::abs(z.v) + x.e + y.e);
                break;
            case '*':
                z.v = x.v * y.v;
                z.e = ax * y.e + ay * x.e + x.e * y.e + 2 * EPS * (ax + x.e) * (ay + y.e);
                break;
            default:
                if (ay == 0 || ay <= 4 * y.e) {
                    z.ok = false;
                    z.v = 0;
                    z.e = 0;
                    break;
                }
                z.v = x.v / y.v;
                z.e = (x.e + std::abs(z.v) * y.e) / (ay - y.e) + 4 * EPS * (ax + x.e) / (ay - y.e);
                break;
        }
        if (z.ok && (std::abs(z.v) > 1e100L || (std::abs(z.v) != 0 && std::abs(z.v) < 1e-100L))) z.ok = false;   // outside the claimed magnitudes
    }
    return r;
}
static RefVal ref_neg(const RefVal& a) {
    RefVal r = a;
    for (int i = 0; i < PN; ++i) r.el[i].v = -a.el[i].v;
    return r;
}

// compares the library value of a program with the reference; returns false (and reports) on a mismatch
template<class PF>
static bool prog_compare(Ctx& ctx, const Val& lv, const RefVal& rv, const PF& progf) {
    const bool l_arr = lv.index() >= 2, l_cplx = (lv.index() & 1);
    if (l_arr != rv.arr || l_cplx != rv.cplx) {
        ctx.fail("expression", fmt("result is %s %s", l_cplx ? "complex" : "real", l_arr ? "array" : "scalar"), fmt("%s %s", rv.cplx ? "complex" : "real", rv.arr ? "array" : "scalar"),
                 P().kv("prog", pstr(progf)));
        return false;
    }
    double re[PN], im[PN];
    int n = l_arr ? PN : 1;
    if (lv.index() == 0) {
        re[0] = std::get<0>(lv);
        im[0] = 0;
    } else if (lv.index() == 1) {
        re[0] = std::get<1>(lv).re;
        im[0] = std::get<1>(lv).im;
    } else if (lv.index() == 2) {
        const arr_real& a = std::get<2>(lv);
        if (a.size() != PN) {
            ctx.fail("expression", fmt("result length %d", a.size()), fmt("%d", PN), P().kv("prog", pstr(progf)));
            return false;
        }
        for (int i = 0; i < PN; ++i) re[i] = a[i], im[i] = 0;
    } else {
        const arr_cmplx& a = std::get<3>(lv);
        if (a.size() != PN) {
            ctx.fail("expression", fmt("result length %d", a.size()), fmt("%d", PN), P().kv("prog", pstr(progf)));
            return false;
        }
        for (int i = 0; i < PN; ++i) re[i] = a[i].re, im[i] = a[i].im;
    }
    for (int i = 0; i < n; ++i) {
        const RefEl& r = rv.el[i];
        if (!r.ok) {
            ctx.note("program elements outside the domain, not judged");
            continue;
        }
        const ld err = std::abs(cld(re[i], im[i]) - r.v);
        if (r.e > 0) ctx.worst("expression programs: err / forward bound, allowed 4", (double)(err / r.e));
        if (err > 4 * r.e) {
            ctx.fail("expression", fmt("element %d = (%.17g,%.17g)", i, re[i], im[i]), fmt("(%.17Lg,%.17Lg) +- %.3Lg", r.v.real(), r.v.imag(), 4 * r.e), P().kv("prog", pstr(progf)).kv("i", i));
            return false;
        }
    }
    return true;
}

static const char OPS[4] = {'+', '-', '*', '/'};

// left-deep chain = first leaf kind + list of extensions (0..15: op*4 + leaf kind, 16: unary minus)
static std::string chain_name(int l0, const std::vector<int>& path) {
    std::string prog = std::string(leaf_name(l0)) + "0";
    int depth = 0;
    for (int e : path) {
        if (e == 16) prog = "-(" + prog + ")";
        else prog = "(" + prog + " " + OPS[e >> 2] + " " + leaf_name(e & 3) + std::to_string(depth + 1) + ")";
        ++depth;
    }
    return prog;
}

// DFS over left-deep chains: node = value so far; extensions: 16 (op, leaf kind) + unary minus
static void chain_dfs(Ctx& ctx, const Val& lv, const RefVal& rv, int l0, std::vector<int>& path, int maxdepth, long& count) {
    const int depth = (int)path.size();
    if (depth >= maxdepth) return;
    for (int ext = 0; ext < 17; ++ext) {
        Val nl;
        RefVal nr;
        path.push_back(ext);
        auto name = [&] { return chain_name(l0, path); };
        if (ext == 16) {
            if (!can_neg(lv)) {
                ctx.note("programs: unary minus of a complex array skipped (form does not compile)");
                path.pop_back();
                continue;
            }
            path.pop_back();
            nl = checked_neg(lv, [&] { return chain_name(l0, path); });
            path.push_back(ext);
            nr = ref_neg(rv);
        } else {
            Val leaf;
            RefVal rleaf;
            make_leaf(ext & 3, depth + 1, leaf, rleaf);
            nl = lib_apply(OPS[ext >> 2], lv, leaf);
            nr = ref_apply(OPS[ext >> 2], rv, rleaf);
        }
        ++count;
        if (prog_compare(ctx, nl, nr, name)) chain_dfs(ctx, nl, nr, l0, path, maxdepth, count);
        path.pop_back();
        if (ctx.violations > 20) return;
    }
}

struct Tree   // depth <= 1 tree: leaf, neg(leaf) or leaf op leaf
{
    int kind;   // 0 leaf, 1 neg, 2 binary
    int l, r, op;
};
static void eval_tree(const Tree& t, int& pos, Val& lv, RefVal& rv, std::string& s, bool want_name = true) {
    if (!want_name) {
        // same evaluation, names rendered by tree_name() only when needed
        if (t.kind == 0) {
            make_leaf(t.l, pos++, lv, rv);
        } else if (t.kind == 1) {
            Val a;
            RefVal ra;
            const int p0 = pos;
            make_leaf(t.l, pos++, a, ra);
            lv = checked_neg(a, [&] { return std::string(leaf_name(t.l)) + std::to_string(p0); });
            rv = ref_neg(ra);
        } else {
            Val a, b;
            RefVal ra, rb;
            make_leaf(t.l, pos++, a, ra);
            make_leaf(t.r, pos++, b, rb);
            lv = lib_apply(OPS[t.op], a, b);
            rv = ref_apply(OPS[t.op], ra, rb);
        }
        return;
    }
    if (t.kind == 0) {
        make_leaf(t.l, pos, lv, rv);
        s = std::string(leaf_name(t.l)) + std::to_string(pos);
        ++pos;
    } else if (t.kind == 1) {
        Val a;
        RefVal ra;
        make_leaf(t.l, pos, a, ra);
        s = std::string("-") + leaf_name(t.l) + std::to_string(pos);
        ++pos;
        lv = checked_neg(a, s);
        rv = ref_neg(ra);
    } else {
        Val a, b;
        RefVal ra, rb;
        make_leaf(t.l, pos, a, ra);
        std::string sa = std::string(leaf_name(t.l)) + std::to_string(pos);
        ++pos;
        make_leaf(t.r, pos, b, rb);
        std::string sb = std::string(leaf_name(t.r)) + std::to_string(pos);
        ++pos;
        lv = lib_apply(OPS[t.op], a, b);
        rv = ref_apply(OPS[t.op], ra, rb);
        s = "(" + sa + " " + OPS[t.op] + " " + sb + ")";
    }
}

static std::string tree_name(const Tree& t, int pos) {
    if (t.kind == 0) return std::string(leaf_name(t.l)) + std::to_string(pos);
    if (t.kind == 1) return std::string("-") + leaf_name(t.l) + std::to_string(pos);
    return "(" + std::string(leaf_name(t.l)) + std::to_string(pos) + " " + OPS[t.op] + " " + leaf_name(t.r) + std::to_string(pos + 1) + ")";
}

// ---- aliasing programs: sequences of statements on ONE array variable a (and a fixed second array b):
//      a op= a | a op= b | a = a op a | a = a op b | a = b op a  (4 operators each)  | a = -a        (21 statement kinds)
static const int NSTMT = 21;
static std::string stmt_name(int st) {
    if (st == 20) return "a = -a";
    const char op = OPS[st & 3];
    switch (st >> 2) {
        case 0: return std::string("a ") + op + "= a";
        case 1: return std::string("a ") + op + "= b";
        case 2: return std::string("a = a ") + op + " a";
        case 3: return std::string("a = a ") + op + " b";
        default: return std::string("a = b ") + op + " a";
    }
}
static std::string stmts_name(const std::vector<int>& path) {
    std::string s;
    for (int st : path) s += (s.empty() ? "" : "; ") + stmt_name(st);
    return s;
}
// executes one statement on the real arrays (a is modified in place, exactly as the statement reads)
static void lib_stmt(int st, Val& a, const Val& b) {
    std::visit(
        [&](auto& x, const auto& y) {
            using X = std::decay_t<decltype(x)>;
            using Y = std::decay_t<decltype(y)>;
            constexpr bool ok = (std::is_same_v<X, arr_real> && std::is_same_v<Y, arr_real>) || (std::is_same_v<X, arr_cmplx> && (std::is_same_v<Y, arr_real> || std::is_same_v<Y, arr_cmplx>));
            if constexpr (!ok) {
                fprintf(stderr, "lib_stmt: unsupported operand types\n");
                exit(4);
            } else {
                if (st == 20) {
                    if constexpr (neg_compiles<X>()) x = -x;
                    return;
                }
                X& al = x;   // second name of the same object
                switch (st) {
                    case 0: x += al; break;
                    case 1: x -= al; break;
                    case 2: x *= al; break;
                    case 3: x /= al; break;
                    case 4: x += y; break;
                    case 5: x -= y; break;
                    case 6: x *= y; break;
                    case 7: x /= y; break;
                    case 8: x = x + al; break;
                    case 9: x = x - al; break;
                    case 10: x = x * al; break;
                    case 11: x = x / al; break;
                    case 12: x = x + y; break;
                    case 13: x = x - y; break;
                    case 14: x = x * y; break;
                    case 15: x = x / y; break;
                    case 16: x = y + x; break;
                    case 17: x = y - x; break;
                    case 18: x = y * x; break;
                    default: x = y / x; break;
                }
            }
        },
        a, b);
}
static RefVal ref_stmt(int st, const RefVal& a, const RefVal& b) {
    if (st == 20) return ref_neg(a);
    const char op = OPS[st & 3];
    switch (st >> 2) {
        case 0:
        case 2: return ref_apply(op, a, a);
        case 1:
        case 3: return ref_apply(op, a, b);
        default: {
            RefVal r = ref_apply(op, b, a);
            return r;
        }
    }
}
static void alias_dfs(Ctx& ctx, const Val& a, const RefVal& ra, const Val& b, const RefVal& rb, const Val& b0, std::vector<int>& path, int maxdepth, long& count) {
    if ((int)path.size() >= maxdepth) return;
    for (int st = 0; st < NSTMT; ++st) {
        if (st == 20 && !can_neg(a)) continue;
        Val na = a;
        lib_stmt(st, na, b);
        RefVal nr = ref_stmt(st, ra, rb);
        nr.cplx = ra.cplx;   // the variable keeps its element type
        path.push_back(st);
        ++count;
        auto name = [&] { return stmts_name(path); };
        bool ok = prog_compare(ctx, na, nr, name);
        if (st == 20) {
            std::string why;
            if (!neg_bits_ok(a, na, why)) ctx.fail("expression", "a = -a: " + why, "every component negated bit for bit", P().kv("prog", name()));
        }
        if (b.index() != b0.index() || (b.index() == 2 ? !bitsame(std::get<2>(b), std::get<2>(b0)) : !bitsame(std::get<3>(b), std::get<3>(b0)))) {
            ctx.fail("expression", "the second array b was modified by a statement on a", "unchanged", P().kv("prog", name()));
            ok = false;
        }
        if (ok) alias_dfs(ctx, na, nr, b, rb, b0, path, maxdepth, count);
        path.pop_back();
        if (ctx.violations > 20) return;
    }
}

static void programs(Ctx& ctx, bool T) {
    // ---- trees of depth <= 2 (all); thorough: all depth-3 trees  (t2 op t1) and (t1 op t2), t2 of depth <= 2, t1 of depth <= 1
    std::vector<Tree> t1;
    for (int l = 0; l < 4; ++l) t1.push_back({0, l, 0, 0});
    for (int l = 0; l < 4; ++l)
        if (l != 1 || neg_compiles<arr_cmplx>()) t1.push_back({1, l, 0, 0});   // -C: see can_neg()
    for (int op = 0; op < 4; ++op)
        for (int l = 0; l < 4; ++l)
            for (int r = 0; r < 4; ++r) t1.push_back({2, l, r, op});
    for (size_t a = 0; a < t1.size(); ++a)
        for (int op = 0; op <= 4; ++op) {   // op 4 = unary minus of the subtree
            if (!ctx.take("prog.tree", P().kv("left", (int)a).kv("op", op).kv("depth", T ? 3 : 2))) continue;
            long deep = 0;
            for (size_t b = 0; b < (op == 4 ? 1 : t1.size()); ++b) {
                int pos = 0;
                Val la, lb, lr;
                RefVal ra, rb, rr;
                std::string sa, sb, s;
                eval_tree(t1[a], pos, la, ra, sa);
                if (!prog_compare(ctx, la, ra, sa)) continue;
                if (op == 4) {
                    if (!can_neg(la)) {
                        ctx.note("programs: unary minus of a complex array skipped (form does not compile)");
                        continue;
                    }
                    lr = checked_neg(la, sa);
                    rr = ref_neg(ra);
                    s = "-" + sa;
                } else {
                    eval_tree(t1[b], pos, lb, rb, sb);
                    lr = lib_apply(OPS[op], la, lb);
                    rr = ref_apply(OPS[op], ra, rb);
                    s = "(" + sa + " " + OPS[op] + " " + sb + ")";
                }
                if (!prog_compare(ctx, lr, rr, s)) continue;
                ctx.note("programs.trees");
                if (!T) continue;
                // depth 3: the tree above as one operand, every depth<=1 tree (leaves numbered from 4) as the other
                for (size_t c = 0; c < t1.size(); ++c) {
                    int pc = 4;
                    Val lc;
                    RefVal rc;
                    std::string dummy;
                    eval_tree(t1[c], pc, lc, rc, dummy, false);
                    for (int op2 = 0; op2 < 4; ++op2)
                        for (int side = 0; side < 2; ++side) {
                            const Val v = side ? lib_apply(OPS[op2], lc, lr) : lib_apply(OPS[op2], lr, lc);
                            const RefVal r = side ? ref_apply(OPS[op2], rc, rr) : ref_apply(OPS[op2], rr, rc);
                            ++deep;
                            prog_compare(ctx, v, r, [&] {
                                const std::string sc = tree_name(t1[c], 4);
                                return side ? "(" + sc + " " + OPS[op2] + " " + s + ")" : "(" + s + " " + OPS[op2] + " " + sc + ")";
                            });
                        }
                    if (ctx.violations > 20) break;
                }
            }
            if (deep) {
                ctx.note("programs.trees-depth3", deep);
                ctx.evaluations += (uint64_t)deep;
                ctx.checks[ctx.cur_check].evals += (uint64_t)deep;
            }
            ctx.nontrivial();
        }
    // ---- left-deep chains; case = prefix of two extensions, DFS below
    const int maxdepth = T ? (g_asan ? 6 : 7) : 5;
    for (int l0 = 0; l0 < 4; ++l0)
        for (int e1 = 0; e1 < 17; ++e1)
            for (int e2 = 0; e2 < 17; ++e2) {
                if (!ctx.take("prog.chain", P().kv("leaf", l0).kv("ext1", e1).kv("ext2", e2).kv("depth", maxdepth))) continue;
                Val lv;
                RefVal rv;
                make_leaf(l0, 0, lv, rv);
                std::vector<int> path;
                bool ok = true;
                for (int e : {e1, e2}) {
                    Val nl;
                    RefVal nr;
                    const int depth = (int)path.size();
                    if (e == 16) {
                        if (!can_neg(lv)) {
                            ctx.note("programs: unary minus of a complex array skipped (form does not compile)");
                            ok = false;
                            break;
                        }
                        nl = checked_neg(lv, [&] { return chain_name(l0, path); });
                        nr = ref_neg(rv);
                    } else {
                        Val leaf;
                        RefVal rleaf;
                        make_leaf(e & 3, depth + 1, leaf, rleaf);
                        nl = lib_apply(OPS[e >> 2], lv, leaf);
                        nr = ref_apply(OPS[e >> 2], rv, rleaf);
                    }
                    path.push_back(e);
                    lv = nl;
                    rv = nr;
                    if (!prog_compare(ctx, lv, rv, [&] { return chain_name(l0, path); })) {
                        ok = false;
                        break;
                    }
                }
                long count = 2;
                if (ok) chain_dfs(ctx, lv, rv, l0, path, maxdepth, count);
                ctx.note("programs.chain-nodes", count);
                ctx.evaluations += (uint64_t)count - 1;
                ctx.checks[ctx.cur_check].evals += (uint64_t)count - 1;
                ctx.nontrivial();
            }
    // ---- aliasing programs; case = (operand types, first two statements), DFS below
    const int adepth = T ? (g_asan ? 5 : 6) : 4;
    for (int cfg = 0; cfg < 3; ++cfg)   // (a,b) = (real,real), (cmplx,cmplx), (cmplx,real)
        for (int s1 = 0; s1 < NSTMT; ++s1)
            for (int s2 = 0; s2 < NSTMT; ++s2) {
                if (!ctx.take("prog.alias", P().kv("types", cfg == 0 ? "real,real" : (cfg == 1 ? "cmplx,cmplx" : "cmplx,real")).kv("s1", s1).kv("s2", s2).kv("depth", adepth))) continue;
                Val a, b;
                RefVal ra, rb;
                make_leaf(cfg == 0 ? 0 : 1, 0, a, ra);
                make_leaf(cfg == 1 ? 1 : 0, 1, b, rb);
                const Val b0 = b;
                std::vector<int> path;
                long count = 0;
                bool ok = true;
                for (int st : {s1, s2}) {
                    if (st == 20 && !can_neg(a)) {
                        ok = false;
                        break;
                    }
                    const Val before = a;
                    lib_stmt(st, a, b);
                    ra = ref_stmt(st, ra, rb);
                    ra.cplx = cfg != 0;
                    path.push_back(st);
                    ++count;
                    if (st == 20) {
                        std::string why;
                        if (!neg_bits_ok(before, a, why)) ctx.fail("expression", "a = -a: " + why, "every component negated bit for bit", P().kv("prog", stmts_name(path)));
                    }
                    if (!prog_compare(ctx, a, ra, [&] { return stmts_name(path); })) {
                        ok = false;
                        break;
                    }
                }
                if (ok) alias_dfs(ctx, a, ra, b, rb, b0, path, adepth, count);
                ctx.note("programs.alias-nodes", count);
                if (count) {
                    ctx.evaluations += (uint64_t)count - 1;
                    ctx.checks[ctx.cur_check].evals += (uint64_t)count - 1;
                }
                ctx.nontrivial();
            }
}


// ------------------------------------------------------------------------------------------------ compile probes
// Forms the property promises but which are not accepted by the compiler on the pinned tree cannot be part of this
// translation unit (the error is inside the operator bodies, invisible to SFINAE).  Each such form is a case of its own:
// a 40-line program is written to a temporary directory, compiled with the compiler of this pass against the headers of
// $VERIF_REPO and - if it compiles - run; it checks the form over lengths 0..64 and all value pairs with the same oracle.
// "does not compile" is the recorded observation of the case (site "compile").
static std::string slurp(const std::string& path) {
    std::string out;
    if (FILE* f = fopen(path.c_str(), "r")) {
        char buf[4096];
        size_t k;
        while ((k = fread(buf, 1, sizeof buf, f)) > 0) out.append(buf, k);
        fclose(f);
    }
    return out;
}

static const char* PROBE_PRELUDE = R"PP(
#include <dsplib.h>
#include <cstdio>
#include <cstring>
#include <cmath>
#include <type_traits>
using namespace dsplib;
typedef long double ld;
static const double V[12] = {0.0, -0.0, 1, -1, 0.5, -0.5, 3, -3, 1e-100, -1e-100, 1e100, -1e100};
static const double EPS = 2.220446049250313e-16;
// complex-valued operation (at least one operand complex): 0 ok, 1 wrong, 2 outside the domain
static int judge(char op, double are, double aim, double bre, double bim, double gre, double gim) {
    if (op == '+') return (gre == are + bre && gim == aim + bim) ? 0 : 1;
    if (op == '-') return (gre == are - bre && gim == aim - bim) ? 0 : 1;
    if (op == '*') {
        ld p1 = (ld)are * bre, p2 = (ld)aim * bim, q1 = (ld)are * bim, q2 = (ld)aim * bre;
        return (fabsl(gre - (p1 - p2)) <= 8 * EPS * (fabsl(p1) + fabsl(p2)) && fabsl(gim - (q1 + q2)) <= 8 * EPS * (fabsl(q1) + fabsl(q2))) ? 0 : 1;
    }
    if (bre == 0 && bim == 0) return 2;
    ld d = (ld)bre * bre + (ld)bim * bim, rr = ((ld)are * bre + (ld)aim * bim) / d, ri = ((ld)aim * bre - (ld)are * bim) / d;
    ld sc = hypotl(are, aim) / sqrtl(d);
    return (fabsl(gre - rr) <= 8 * EPS * sc && fabsl(gim - ri) <= 8 * EPS * sc) ? 0 : 1;
}
)PP";

static const char* PROBE_NEG = R"PP(
int main() {
    long bad = 0, judged = 0;
    for (int n = 0; n <= 64; ++n)
        for (int k = 0; k < 12; ++k) {
            arr_cmplx a(n);
            for (int i = 0; i < n; ++i) a[i] = cmplx_t(V[(i + k) % 12], V[(i * 5 + 3 + k) % 12]);
            const arr_cmplx a0 = a;
            auto m = -a;
            const arr_cmplx& p = +a;
            static_assert(std::is_same<decltype(m), arr_cmplx>::value, "-arr_cmplx is an arr_cmplx");
            if (m.size() != n || p.size() != n) { ++bad; continue; }
            for (int i = 0; i < n; ++i) {
                ++judged;
                const double wr = -a0[i].re, wi = -a0[i].im;   // sign flip, compared bit for bit
                if (std::memcmp(&m[i].re, &wr, 8) != 0 || std::memcmp(&m[i].im, &wi, 8) != 0) ++bad;
                if (std::memcmp(&p[i], &a0[i], sizeof(cmplx_t)) != 0) ++bad;
            }
            if (n && std::memcmp(a.data(), a0.data(), n * sizeof(cmplx_t)) != 0) ++bad;
        }
    std::printf("judged=%ld bad=%ld\n", judged, bad);
    return bad ? 1 : 0;
}
)PP";

// EXPR is `a OP z` or `z OP a` with a an arr_real and z a std::complex<double>; LEFT = 1 if the scalar is on the left
static const char* PROBE_STDC = R"PP(
int main() {
    long bad = 0, judged = 0;
    for (int n = 0; n <= 64; ++n)
        for (int k = 0; k < 144; k += (n <= 8 ? 1 : 7)) {
            const std::complex<double> z(V[k % 12], V[k / 12]);
            arr_real a(n);
            for (int i = 0; i < n; ++i) a[i] = V[(i + k) % 12];
            const arr_real a0 = a;
            auto r = EXPR;
            static_assert(std::is_same<decltype(r), arr_cmplx>::value, "real array with complex scalar promotes to arr_cmplx");
            if (r.size() != n) { ++bad; continue; }
            for (int i = 0; i < n; ++i) {
                const int rc = LEFT ? judge(OPC, z.real(), z.imag(), a0[i], 0.0, r[i].re, r[i].im) : judge(OPC, a0[i], 0.0, z.real(), z.imag(), r[i].re, r[i].im);
                if (rc != 2) ++judged;
                if (rc == 1) ++bad;
            }
            if (n && std::memcmp(a.data(), a0.data(), n * sizeof(double)) != 0) ++bad;
        }
    std::printf("judged=%ld bad=%ld\n", judged, bad);
    return bad ? 1 : 0;
}
)PP";

static std::string replace_all(std::string s, const std::string& a, const std::string& b) {
    for (size_t p = 0; (p = s.find(a, p)) != std::string::npos; p += b.size()) s.replace(p, a.size(), b);
    return s;
}

static void run_probe(Ctx& ctx, const std::string& expr, const std::string& body) {
    char tmpl[] = "/tmp/c03probe-XXXXXX";
    if (!mkdtemp(tmpl)) {
        ctx.cap("probe: cannot create a temporary directory");
        return;
    }
    const std::string dir = tmpl;
    {
        FILE* f = fopen((dir + "/p.cpp").c_str(), "w");
        if (!f) {
            ctx.cap("probe: cannot write the probe source");
            return;
        }
        fputs(PROBE_PRELUDE, f);
        fputs(body.c_str(), f);
        fclose(f);
    }
    const char* repo_env = getenv("VERIF_REPO");
    const std::string repo = (repo_env && *repo_env) ? repo_env : "/repo";
    // generated dsplib/defs.h: next to the library this binary was linked with (build/lib/<variant>-<treehash>), found
    // from the location of this binary (build/h/<name>/<srchash>-<variant>-<treehash>-<flaghash>/<name>)
    std::string defs_dir, lib;
    {
        char buf[4096];
        ssize_t k = readlink("/proc/self/exe", buf, sizeof buf - 1);
        std::string exe = k > 0 ? std::string(buf, (size_t)k) : "";
        size_t h = exe.find("/build/h/");
        if (h != std::string::npos) {
            std::string rest = exe.substr(h + 9);   // <name>/<key>/<name>
            size_t s1 = rest.find('/'), s2 = rest.find('/', s1 + 1);
            if (s1 != std::string::npos && s2 != std::string::npos) {
                std::string key = rest.substr(s1 + 1, s2 - s1 - 1);
                size_t a = key.find('-'), b = key.rfind('-');
                if (a != std::string::npos && b != std::string::npos && b > a) {
                    std::string cand = exe.substr(0, h) + "/build/lib/" + key.substr(a + 1, b - a - 1);
                    if (!slurp(cand + "/dsplib/defs.h").empty()) {
                        defs_dir = cand;
                        lib = cand + "/libdsplib.a";
                    }
                }
            }
        }
    }
    if (defs_dir.empty()) {   // default configuration = nothing defined
        defs_dir = dir;
        (void)!system(("mkdir -p " + dir + "/dsplib && : > " + dir + "/dsplib/defs.h").c_str());
        ctx.note("probe: generated defs.h not found, empty default configuration used");
    }
#ifdef __clang__
    const std::string cxx = "clang++";
#else
    const std::string cxx = "g++";
#endif
    std::string cmd = cxx + " -std=c++17 -O0 -DNDEBUG -I" + repo + "/include -I" + repo + "/lib -I" + defs_dir + " " + dir + "/p.cpp " + lib + " -o " + dir + "/p > " + dir +
                      "/cc.txt 2>&1";
    const int rc = system(cmd.c_str());
    const std::string cc = slurp(dir + "/cc.txt");
    if (rc != 0) {
        size_t e = cc.find("error:");
        if (e == std::string::npos) {
            ctx.cap("probe: the compiler could not be run (" + cxx + ")");
        } else {
            size_t eol = cc.find('\n', e);
            ctx.fail("compile", "does not compile: " + cc.substr(e, std::min<size_t>(eol == std::string::npos ? 300 : eol - e, 300)), "compiles and yields the promoted element-wise result");
            ctx.note("probe.does-not-compile: " + expr);
        }
    } else {
        const int rr = system(("timeout 120 " + dir + "/p > " + dir + "/out.txt 2>&1").c_str());
        const std::string out = slurp(dir + "/out.txt");
        long judged = -1, bad = -1;
        sscanf(out.c_str(), "judged=%ld bad=%ld", &judged, &bad);
        if (rr != 0 || bad != 0 || judged <= 0) ctx.fail("probe", "probe program reports: " + out.substr(0, 200) + fmt(" (exit status %d)", rr), "all elements as the scalar definition, operand unchanged");
        else ctx.note("probe.compiled-and-passed: " + expr);
        if (judged > 0) {
            ctx.evaluations += (uint64_t)judged;
            ctx.checks[ctx.cur_check].evals += (uint64_t)judged;
        }
    }
    (void)!system(("rm -rf " + dir).c_str());
    ctx.nontrivial();
}

static void probes(Ctx& ctx) {
    if (g_asan) return;   // one build is enough: the probe program is compiled without sanitizers
    if (ctx.take("grid.probe", P().kv("expr", "-arr_cmplx"))) run_probe(ctx, "-arr_cmplx", PROBE_NEG);
    const char ops[4] = {'+', '-', '*', '/'};
    for (char op : ops)
        for (int left = 0; left < 2; ++left) {
            const std::string expr = left ? std::string("std::complex<double> ") + op + " arr_real" : std::string("arr_real ") + op + " std::complex<double>";
            if (!ctx.take("grid.probe", P().kv("expr", expr))) continue;
            std::string body = PROBE_STDC;
            body = replace_all(body, "EXPR", left ? std::string("z ") + op + " a" : std::string("a ") + op + " z");
            body = replace_all(body, "OPC", std::string("'") + op + "'");
            body = replace_all(body, "LEFT", left ? "1" : "0");
            run_probe(ctx, expr, body);
        }
}


// ------------------------------------------------------------------------------------------------ fatal errors in this process
// If the code under test kills this process (sanitizer report, fatal signal, std::terminate out of a noexcept function)
// the case in progress is recorded as a violation, the shard result is written and the shard stops (reported as capped):
// a wrong library must be classified, not crash the harness.  Forked children keep the default behaviour.
#include <csignal>
#if defined(__has_feature)
#if __has_feature(address_sanitizer)
#define VF_HAVE_SANITIZER 1
#endif
#endif
#if defined(__SANITIZE_ADDRESS__)
#define VF_HAVE_SANITIZER 1
#endif
#ifdef VF_HAVE_SANITIZER
extern "C" void __sanitizer_set_death_callback(void (*)(void));
#endif
static Ctx* g_die_ctx = nullptr;
static pid_t g_main_pid = 0;
static void record_death(const char* how) {
    static bool once = false;
    if (once) _exit(3);
    once = true;
    g_die_ctx->fail_as(g_die_ctx->cur_check.c_str(), "process", g_die_ctx->cur_params,
                       std::string(how) + " while this case was executing (report in the shard log)", "the case completes",
                       P().kv("outcome", "process-death"));
    g_die_ctx->cap("shard stopped at the first fatal error of the code under test");
    g_die_ctx->finish();
    _exit(0);
}
static void on_sanitizer_death() {
    if (getpid() == g_main_pid) record_death("sanitizer report");
}
static void on_signal(int sig) {
    if (getpid() != g_main_pid) {
        signal(sig, SIG_DFL);
        raise(sig);
        return;
    }
    record_death(sig == SIGSEGV ? "SIGSEGV" : sig == SIGABRT ? "SIGABRT" : sig == SIGFPE ? "SIGFPE" : sig == SIGBUS ? "SIGBUS" : "fatal signal");
}
static void install_death_handlers(Ctx& ctx) {
    g_die_ctx = &ctx;
    g_main_pid = getpid();
#ifdef VF_HAVE_SANITIZER
    __sanitizer_set_death_callback(on_sanitizer_death);
#endif
    for (int s : {SIGSEGV, SIGBUS, SIGFPE, SIGILL, SIGABRT}) signal(s, on_signal);
    std::set_terminate([] {
        if (getpid() == g_main_pid) record_death("std::terminate");
        _exit(42);
    });
}

// ------------------------------------------------------------------------------------------------ main
int main(int argc, char** argv) {
    Ctx ctx;
    ctx.parse(argc, argv, "C03");
    install_death_handlers(ctx);
    g_ctx = &ctx;
    for (int i = 1; i < argc; ++i)
        if (!strcmp(argv[i], "--asan-pass")) g_asan = true;
    const bool T = ctx.thorough();
    build_alphabet();

    // the grid
    for_types<arr_real, arr_cmplx, real_t, int, cmplx_t, stdc>([&](auto lt) {
        using L = typename decltype(lt)::type;
        for_types<arr_real, arr_cmplx, real_t, int, cmplx_t, stdc>([&](auto rt) {
            using R = typename decltype(rt)::type;
            for_types<Add, Sub, Mul, Div>([&](auto opt) {
                using Op = typename decltype(opt)::type;
                if constexpr (Tr<L>::arr || Tr<R>::arr) {
                    if constexpr (binary_supported<L, R, Op>()) {
                        if (ctx.wants("grid.binary")) grid_binary<L, R, Op>(ctx, T);
                    } else {
                        ctx.note(std::string("grid.not-provided: ") + Tr<L>::name() + " " + Op::c + " " + Tr<R>::name());
                    }
                }
                if constexpr (Tr<L>::arr) {
                    if constexpr (compound_supported<L, R>()) {
                        if (ctx.wants("grid.compound")) grid_compound<L, R, Op>(ctx, T);
                    } else {
                        ctx.note(std::string("grid.rejected-at-compile-time (would change the element type): ") + Tr<L>::name() + " " + Op::c + "= " + Tr<R>::name());
                    }
                }
                if constexpr ((Tr<L>::arr || Tr<R>::arr) && !std::is_same_v<L, stdc> && !std::is_same_v<R, stdc>) {
                    if (ctx.wants("sibling")) {
                        grid_sibling<L, R, Op>(ctx, false);
                        if constexpr (compound_supported<L, R>()) grid_sibling<L, R, Op>(ctx, true);
                    }
                }
                if constexpr (Tr<L>::arr && Tr<R>::arr) {
                    if (ctx.wants("mismatch")) {
                        grid_mismatch<L, R, Op>(ctx, false);
                        if constexpr (compound_supported<L, R>()) grid_mismatch<L, R, Op>(ctx, true);
                    }
                }
            });
        });
    });
    if (ctx.wants("stdc.equiv"))
        for_types<arr_real, arr_cmplx>([&](auto at) {
            using A = typename decltype(at)::type;
            for_types<Add, Sub, Mul, Div>([&](auto opt) {
                using Op = typename decltype(opt)::type;
                if constexpr (binary_supported<A, stdc, Op>()) grid_stdc_equiv<A, Op>(ctx, 0);
                if constexpr (binary_supported<stdc, A, Op>()) grid_stdc_equiv<A, Op>(ctx, 1);
                if constexpr (Tr<A>::cplx) grid_stdc_equiv<A, Op>(ctx, 2);
            });
        });
    if (ctx.wants("unary")) {
        unary_checks<arr_real>(ctx, T);
        unary_checks<arr_cmplx>(ctx, T);
    }
    probes(ctx);
    value_semantics<real_t>(ctx);
    value_semantics<cmplx_t>(ctx);
    aliasing<arr_real>(ctx, T);
    aliasing<arr_cmplx>(ctx, T);
    elem_aliasing<arr_real>(ctx);
    elem_aliasing<arr_cmplx>(ctx);
    scalar_aliasing(ctx);
    ref_binding<real_t>(ctx);
    ref_binding<cmplx_t>(ctx);
    concat_same<real_t>(ctx);
    concat_same<cmplx_t>(ctx);
    concat_mixed(ctx);
    zeropad_checks<real_t>(ctx);
    zeropad_checks<cmplx_t>(ctx);
    selection_checks<real_t>(ctx, T);
    selection_checks<cmplx_t>(ctx, T);
    if (ctx.wants("big.mask") || ctx.wants("big.indexlist") || ctx.wants("big.concat")) {
        big_checks<real_t>(ctx);
        big_checks<cmplx_t>(ctx);
    }
    big_mixed_concat(ctx);
    if (ctx.wants("prog.tree") || ctx.wants("prog.chain") || ctx.wants("prog.alias")) programs(ctx, T);
    return ctx.finish();
}
