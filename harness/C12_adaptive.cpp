// C12 - adaptive filters report a-priori errors, honour the lock, and converge.
// Engine E2 (history exploration on the real LmsFilter / RlsFilter objects) + E1 parameter boxes.
//
// Conventions implemented by both headers (plain product, no conjugate in the output):
//     y[k] = sum_j c[j] * x[k-j],  c = coeffs();   e[k] = d[k] - y[k]
//     LMS :  c <- leak*c + mu * e * conj(u)                 NLMS: ... / (||u||^2 + eps)
//     RLS :  g = P u / (lambda + u^H P u);  P <- (P - g u^H P)/lambda;  c <- c + conj(g) e;   P(0) = delta*I
// which minimise sum lambda^(k-i) |d_i - c^T u_i|^2 (+ lambda^(k+1)/delta ||c||^2), i.e. the normal equations
//     (lambda^(k+1)/delta I + sum lambda^(k-i) conj(u_i) u_i^T) c = sum lambda^(k-i) conj(u_i) d_i .
// The reference recursions below are these textbook recursions in long double; the RLS recursion is
// cross-checked against the normal equations (oracle self-check, real and complex) before it is trusted.
//
// Sub-checks
//   adapt.step      one sample per call: e = d - y bit-exactly, a-priori y from coeffs() read before the sample,
//                   y / e / coeffs against the long-double recursion (1e-9 relative)
//   adapt.long      the same per-sample drive over 200 (thorough 1000) unlocked samples on one object, reduced parameter set, and over
//                   horizons > 1.2*745/|ln f| for every geometric parameter f (leak, lambda) in {0.5, 0.9} (thorough 0.99)
//   adapt.stream    140 000 samples on one object in one call and in frames of 1000, every sample against the recursion
//   rls.batch       RLS coefficients after every sample against the long-double normal-equation solution
//   adapt.hist      all framings x all lock schedules: locked frames are the fixed FIR with coeffs() and leave it
//                   bit-identical, every history agrees with the per-sample drive under the same lock pattern
//   adapt.converge  NLMS (mu 1, leak 1) / RLS (lambda 1, delta 1e4), white input, noise-free system no longer than
//                   the filter: normalised misalignment < 1e-6
#include "vf.hpp"
#include <optional>

using namespace vf;
using namespace dsplib;

enum Kind { K_LMS = 0, K_NLMS = 1, K_RLS = 2 };
static const char* KNAME[] = {"lms", "nlms", "rls"};

struct Cfg {
    Kind kind;
    int len;
    double mu, leak;        // LMS / NLMS
    double lambda, delta;   // RLS
};

static P cfg_params(const Cfg& c, bool cplx) {
    P p;
    p.kv("kind", KNAME[c.kind]).kv("cplx", cplx).kv("len", c.len);
    if (c.kind == K_RLS) p.kv("lambda", c.lambda).kv("delta", c.delta);
    else p.kv("mu", c.mu).kv("leak", c.leak);
    return p;
}

// ------------------------------------------------------------------------------------------ scalar traits
template<class T>
struct TT;
template<>
struct TT<real_t> {
    static constexpr bool cplx = false;
    static cld up(real_t v) { return cld(v, 0); }
    static real_t down(cld v) { return (double)v.real(); }
    static bool fin(real_t v) { return std::isfinite(v); }
};
template<>
struct TT<cmplx_t> {
    static constexpr bool cplx = true;
    static cld up(cmplx_t v) { return cld(v.re, v.im); }
    static cmplx_t down(cld v) { return cmplx_t((double)v.real(), (double)v.imag()); }
    static bool fin(cmplx_t v) { return std::isfinite(v.re) && std::isfinite(v.im); }
};
template<class T>
static bool same_bits(const T& a, const T& b) {
    return std::memcmp(&a, &b, sizeof(T)) == 0;
}
template<class T>
static bool same_bits(const base_array<T>& a, const base_array<T>& b) {
    return a.size() == b.size() && (a.size() == 0 || std::memcmp(a.data(), b.data(), sizeof(T) * (size_t)a.size()) == 0);
}

// ------------------------------------------------------------------------------------------ the real object
template<class T>
struct Filt {
    Kind kind;
    std::optional<LmsFilter<T>> lms;
    std::optional<RlsFilter<T>> rls;
    explicit Filt(const Cfg& c)
      : kind(c.kind) {
        if (c.kind == K_RLS) rls.emplace(c.len, c.lambda, c.delta);
        else lms.emplace(c.len, c.mu, c.kind == K_NLMS ? LmsType::NLMS : LmsType::LMS, c.leak);
    }
    void process(const base_array<T>& x, const base_array<T>& d, base_array<T>& y, base_array<T>& e) {
        if (kind == K_RLS) {
            auto r = rls->process(x, d);
            y = r.y;
            e = r.e;
        } else {
            auto r = lms->process(x, d);
            y = r.y;
            e = r.e;
        }
    }
    base_array<T> coeffs() const { return kind == K_RLS ? base_array<T>(rls->coeffs()) : lms->coeffs(); }
    void lock(bool l) {
        if (kind == K_RLS) rls->set_lock_coeffs(l);
        else lms->set_lock_coeffs(l);
    }
    bool locked() const { return kind == K_RLS ? rls->coeffs_locked() : lms->coeffs_locked(); }
    // canonical state: coefficients + history (+ inverse correlation matrix) + lock flag, as raw bytes
    uint64_t state_hash(uint64_t h) const {
        auto add = [&](const base_array<T>& a) {
            h = mix(h, (uint64_t)a.size());
            const unsigned char* p = (const unsigned char*)a.data();
            for (size_t i = 0; i < sizeof(T) * (size_t)a.size(); i += 8) {
                uint64_t v;
                std::memcpy(&v, p + i, 8);
                h = mix(h, v);
            }
        };
        // private members are read through VF_TRY: a tree that renames them still builds (state counts degrade, verdict unaffected)
        if (kind == K_RLS) {
            auto& f = *rls;
            VF_TRY(f, (add(o._w), 0), 0);
            VF_TRY(f, (add(o._u), 0), 0);
            VF_TRY(f, (add(o._p), 0), 0);
            h = mix(h, (uint64_t)VF_TRY(f, (int)o._locked, (int)f.coeffs_locked()));
        } else {
            auto& f = *lms;
            VF_TRY(f, (add(o._w), 0), 0);
            VF_TRY(f, (add(o._u), 0), 0);
            h = mix(h, (uint64_t)VF_TRY(f, (int)o._locked, (int)f.coeffs_locked()));
        }
        return h;
    }
};

// ------------------------------------------------------------------------------------------ long-double reference
struct Ref {
    Cfg c;
    int n;
    std::vector<cld> w, u, Pm, Phi;   // natural order: w[j], u[j] <-> x[k-j]
    ld cond = 1;
    explicit Ref(const Cfg& cfg)
      : c(cfg)
      , n(cfg.len)
      , w(cfg.len)
      , u(cfg.len) {
        if (c.kind == K_RLS) {
            Pm.assign((size_t)n * n, cld(0));
            Phi.assign((size_t)n * n, cld(0));
            for (int i = 0; i < n; ++i) {
                Pm[(size_t)i * n + i] = (ld)c.delta;
                Phi[(size_t)i * n + i] = 1.0L / (ld)c.delta;
            }
        }
    }
    ld unorm2() const {
        ld s = 0;
        for (auto& v : u) s += std::norm(v);
        return s;
    }
    // one sample; returns a-priori y
    cld step(cld x, cld d, bool locked, cld* e_out = nullptr) {
        for (int j = n - 1; j > 0; --j) u[j] = u[j - 1];
        u[0] = x;
        cld y = 0;
        for (int j = 0; j < n; ++j) y += w[j] * u[j];
        const cld e = d - y;
        if (e_out) *e_out = e;
        if (locked) return y;
        if (c.kind == K_LMS) {
            for (int j = 0; j < n; ++j) w[j] = w[j] * (ld)c.leak + (ld)c.mu * e * std::conj(u[j]);
        } else if (c.kind == K_NLMS) {
            const ld nrm = unorm2() + (ld)EPS;   // regulariser of the header (eps()); irrelevant unless u == 0
            for (int j = 0; j < n; ++j) w[j] = w[j] * (ld)c.leak + (ld)c.mu * e * std::conj(u[j]) / nrm;
        } else {
            const ld lam = (ld)c.lambda;
            std::vector<cld> Pu(n), uHP(n);
            for (int i = 0; i < n; ++i) {
                cld a = 0, b = 0;
                for (int k = 0; k < n; ++k) {
                    a += Pm[(size_t)i * n + k] * u[k];
                    b += std::conj(u[k]) * Pm[(size_t)k * n + i];
                }
                Pu[i] = a;
                uHP[i] = b;
            }
            cld den = lam;
            for (int i = 0; i < n; ++i) den += uHP[i] * u[i];
            ld pf = 0, ff = 0;
            for (int i = 0; i < n; ++i)
                for (int k = 0; k < n; ++k) {
                    cld& p = Pm[(size_t)i * n + k];
                    p = (p - (Pu[i] / den) * uHP[k]) / lam;
                    pf += std::norm(p);
                    cld& f = Phi[(size_t)i * n + k];
                    f = lam * f + u[i] * std::conj(u[k]);
                    ff += std::norm(f);
                }
            cond = sqrtl(pf) * sqrtl(ff);   // Frobenius condition estimate >= 2-norm condition number
            for (int i = 0; i < n; ++i) w[i] += std::conj(Pu[i] / den) * e;
        }
        return y;
    }
};

// normal equations in long double, accumulated sample by sample; solve() = Gaussian elimination, partial pivoting
struct Batch {
    int n;
    ld lam;
    std::vector<cld> A, b, u;
    Batch(int n_, ld lam_, ld delta)
      : n(n_)
      , lam(lam_)
      , A((size_t)n_ * n_)
      , b(n_)
      , u(n_) {
        for (int i = 0; i < n; ++i) A[(size_t)i * n + i] = 1.0L / delta;
    }
    void push(cld x, cld d) {
        for (int j = n - 1; j > 0; --j) u[j] = u[j - 1];
        u[0] = x;
        for (int i = 0; i < n; ++i) {
            for (int k = 0; k < n; ++k) A[(size_t)i * n + k] = lam * A[(size_t)i * n + k] + std::conj(u[i]) * u[k];
            b[i] = lam * b[i] + std::conj(u[i]) * d;
        }
    }
    bool solve(std::vector<cld>& w) const {
        std::vector<cld> M = A, r = b;
        for (int c = 0; c < n; ++c) {
            int piv = c;
            for (int i = c + 1; i < n; ++i)
                if (std::abs(M[(size_t)i * n + c]) > std::abs(M[(size_t)piv * n + c])) piv = i;
            if (std::abs(M[(size_t)piv * n + c]) == 0) return false;
            if (piv != c) {
                for (int k = 0; k < n; ++k) std::swap(M[(size_t)piv * n + k], M[(size_t)c * n + k]);
                std::swap(r[piv], r[c]);
            }
            for (int i = c + 1; i < n; ++i) {
                const cld f = M[(size_t)i * n + c] / M[(size_t)c * n + c];
                if (f == cld(0)) continue;
                for (int k = c; k < n; ++k) M[(size_t)i * n + k] -= f * M[(size_t)c * n + k];
                r[i] -= f * r[c];
            }
        }
        w.assign(n, cld(0));
        for (int i = n - 1; i >= 0; --i) {
            cld s = r[i];
            for (int k = i + 1; k < n; ++k) s -= M[(size_t)i * n + k] * w[k];
            w[i] = s / M[(size_t)i * n + i];
        }
        return true;
    }
};

// ------------------------------------------------------------------------------------------ data letters
// "levels": the white letter with granule i scaled by 10^((i%3)-2) (0.01, 0.1, 1: 20 dB steps between granules), so that
// a normalisation / correlation state that is not advanced while the filter is locked becomes visible after unlocking
static const char* XL[] = {"white", "sinus", "imptrain", "levels"};
static const char* DL[] = {"sys_impulse", "sys_decay_rot", "sys_dense", "indep"};

static std::vector<cld> make_x(int xl, bool cplx, int n, bool gauss = false, int gran = 1, int seed = 0) {
    std::vector<cld> x(n);
    for (int k = 0; k < n; ++k) {
        ld re = 0, im = 0;
        if (xl == 3) {
            const ld sc = powl(10.0L, (ld)((k / gran) % 3) - 2);
            re = sc * lcg_val(33, k);
            im = sc * lcg_val(34, k);
        } else if (xl == 0) {
            if (gauss) {
                re = lcg_gauss(31 + 10 * seed, k);
                im = lcg_gauss(32 + 10 * seed, k);
                if (cplx) re *= 0.70710678118654752440L, im *= 0.70710678118654752440L;
            } else {
                re = lcg_val(31, k);
                im = lcg_val(32, k);
            }
        } else if (xl == 1) {
            re = cosl(0.9L * k + 0.3L);
            im = sinl(0.9L * k + 0.3L);
        } else {
            if (k % 3 == 0) {
                const ld a = (1 + 0.25L * ((k / 3) % 4)) * (((k / 3) & 2) ? -1 : 1);
                re = a * cosl(0.5L * k);
                im = a * sinl(0.5L * k);
                if (!cplx) re = a;
            }
        }
        x[k] = cld((ld)(double)re, cplx ? (ld)(double)im : 0.0L);
    }
    return x;
}

// unknown system of length slen (<= filter length)
static std::vector<cld> make_h0(int dl, bool cplx, int slen) {
    std::vector<cld> h(slen);
    for (int j = 0; j < slen; ++j) {
        if (dl == 0) h[j] = (j == slen - 1) ? (cplx ? cld(0.48L, -0.64L) : cld(0.8L)) : cld(0);
        else if (dl == 1) h[j] = cplx ? powl(0.7L, j) * cis(0.4L * j + 0.2L) : cld(powl(-0.7L, j));
        else h[j] = cld(lcg_val(41, j), cplx ? lcg_val(42, j) : 0.0);
    }
    return h;
}

// d = h0 * x (noise-free, rounded to double) or an independent letter
static std::vector<cld> make_d(int dl, bool cplx, const std::vector<cld>& x, const std::vector<cld>& h0) {
    const int n = (int)x.size();
    std::vector<cld> d(n);
    for (int k = 0; k < n; ++k) {
        cld s = 0;
        if (dl == 3) s = cld(lcg_val(43, k), cplx ? lcg_val(44, k) : 0.0);
        else
            for (int j = 0; j < (int)h0.size() && j <= k; ++j) s += h0[j] * x[k - j];
        d[k] = cld((ld)(double)s.real(), (ld)(double)s.imag());
    }
    return d;
}

template<class T>
static base_array<T> to_frame(const std::vector<cld>& v, int a, int b) {
    base_array<T> f(b - a);
    for (int i = a; i < b; ++i) f[i - a] = TT<T>::down(v[i]);
    return f;
}

static const ld REL = 1e-9L;
// RLS comparisons stop once the Frobenius condition estimate of the reference exceeds CONDMAX: the error of the double
// recursion grows like cond*eps, so 1e-9 is only a fair demand well below cond ~ 1e7.  (DESIGN C12 said 1e8; with the dense
// thorough box the worst deviation in the cond 1e6..1e8 bucket was 2.8e-10, a margin of only 3.6, hence 1e6: margin >= 10.)
static const ld CONDMAX = 1e6L;

// ------------------------------------------------------------------------------------------ per-sample drive
template<class T>
struct Trace {
    std::vector<T> y, e;
    std::vector<ld> ysc;   // sum |c||x| per sample
    base_array<T> final_coeffs;
    uint64_t final_state = 0;
    bool ok = false;
};

struct StepOpt {
    bool with_ref = false;     // compare with the long-double recursion
    bool ref_allowed = true;   // false: step size outside the stable range (comparison skipped, identities kept)
    ld condmax = CONDMAX;
    const char* tag = "";   // prefix of the worst-margin key
};

// Drives a fresh real filter one sample per call with the given per-sample lock flags.
// Checks: result sizes, e == d - y bit-exactly, a-priori y from coeffs() read before the sample, lock leaves
// coeffs() bit-identical, coeffs_locked() reports the flag, optionally the reference recursion.
template<class T>
static bool step_drive(Ctx& ctx, const Cfg& cfg, uint64_t cfg_hash, const std::vector<cld>& x, const std::vector<cld>& d,
                       const std::vector<char>& lock, const StepOpt& opt, Trace<T>& tr, const P& extra = P()) {
    const char* site = cfg.kind == K_RLS ? "RlsFilter.process" : "LmsFilter.process";
    const int n = (int)x.size(), L = cfg.len;
    Filt<T> f(cfg);
    Ref ref(cfg);
    bool ref_on = opt.with_ref && opt.ref_allowed;
    tr.y.assign(n, T());
    tr.e.assign(n, T());
    tr.ysc.assign(n, 0);
    tr.ok = false;
    auto detail = [&](const char* sub, int k) {
        P p = extra;
        p.kv("sub", sub).kv("k", k);
        return p;
    };
    for (int k = 0; k < n; ++k) {
        const bool lk = lock.empty() ? false : (bool)lock[k];
        f.lock(lk);
        if (f.locked() != lk) {
            ctx.fail(site, fmt("coeffs_locked()=%d after set_lock_coeffs(%d)", (int)f.locked(), (int)lk), "the flag that was set", detail("flag", k));
            return false;
        }
        const base_array<T> cb = f.coeffs();
        if (cb.size() != L) {
            ctx.fail(site, fmt("coeffs() has %d entries", cb.size()), fmt("%d", L), detail("size", k));
            return false;
        }
        base_array<T> y, e;
        f.process(to_frame<T>(x, k, k + 1), to_frame<T>(d, k, k + 1), y, e);
        ++ctx.transitions;
        ctx.state(f.state_hash(cfg_hash));
        if (y.size() != 1 || e.size() != 1) {
            ctx.fail(site, fmt("result sizes y=%d e=%d for one sample", y.size(), e.size()), "1", detail("size", k));
            return false;
        }
        tr.y[k] = y[0];
        tr.e[k] = e[0];
        if (!TT<T>::fin(y[0]) || !TT<T>::fin(e[0])) {
            // only possible for step sizes outside the stable range: the run leaves the domain, stop judging it
            ctx.note("adapt: run left the finite range (unstable step), stopped");
            if (opt.ref_allowed) ctx.fail(site, "non-finite y/e for a stable configuration", "finite", detail("finite", k));
            return false;
        }
        // e = d - y exactly
        const T dk = TT<T>::down(d[k]);
        const T ee = dk - y[0];
        if (!same_bits(ee, e[0])) {
            ctx.fail(site, fmt("e[%d] differs from d - y: e=%s d-y=%s", k, show(std::vector<ld>{TT<T>::up(e[0]).real(), TT<T>::up(e[0]).imag()}).c_str(),
                               show(std::vector<ld>{TT<T>::up(ee).real(), TT<T>::up(ee).imag()}).c_str()),
                     "e[k] = d[k] - y[k] bit-exactly", detail("e_identity", k));
            return false;
        }
        // a-priori output of the coefficients held before the sample
        cld yp = 0;
        ld ysc = 0;
        for (int j = 0; j < L && j <= k; ++j) {
            yp += TT<T>::up(cb[j]) * x[k - j];
            ysc += std::abs(TT<T>::up(cb[j])) * std::abs(x[k - j]);
        }
        tr.ysc[k] = ysc;
        const ld aerr = std::abs(TT<T>::up(y[0]) - yp);
        const ld atol = (8 + 2 * L) * (ld)EPS * ysc;
        if (ysc > 0) ctx.worst("a-priori |y - c_before.x| / (eps*sum|c||x|)", (double)(aerr / ((ld)EPS * ysc)));
        if (!(aerr <= atol)) {
            ctx.fail(site, fmt("y[%d] = %.17Lg%+.17Lgi, coeffs() read before the sample give %.17Lg%+.17Lgi", k, TT<T>::up(y[0]).real(), TT<T>::up(y[0]).imag(), yp.real(), yp.imag()),
                     "y[k] = sum_j coeffs_before[j] x[k-j] (a-priori output)", detail(lk ? "locked_fir" : "apriori", k));
            return false;
        }
        const base_array<T> ca = f.coeffs();
        if (lk && !same_bits(ca, cb)) {
            ctx.fail(site, fmt("coeffs() changed during a locked sample %d", k), "bit-identical coefficients while locked", detail("locked_coeffs", k));
            return false;
        }
        if (ca.size() != L) {
            ctx.fail(site, fmt("coeffs() has %d entries", ca.size()), fmt("%d", L), detail("size", k));
            return false;
        }
        for (int j = 0; j < L; ++j)
            if (!TT<T>::fin(ca[j])) {
                if (opt.ref_allowed) ctx.fail(site, fmt("coeffs()[%d] is not finite after sample %d (stable configuration, finite input)", j, k), "finite", detail("finite_coeffs", k));
                else ctx.note("adapt: run left the finite range (unstable step), stopped");
                return false;
            }
        // long-double recursion
        if (ref_on) {
            cld er;
            const cld yr = ref.step(x[k], d[k], lk, &er);
            if (cfg.kind == K_RLS && opt.tag[0]) ctx.worst(fmt("%srls reference condition estimate, lambda=%g len=%d", opt.tag, cfg.lambda, L), (double)ref.cond);
            if (cfg.kind == K_RLS && ref.cond > opt.condmax) {
                ref_on = false;
                ctx.note("adapt.step: reference ill-conditioned (cond > 1e6), comparison stopped for the configuration");
            } else {
                ld cn = 0, un = 0, dn = 0;
                for (int j = 0; j < L; ++j) {
                    cn += std::norm(ref.w[j]);
                    un += std::norm(ref.u[j]);
                    dn += std::norm(TT<T>::up(ca[j]) - ref.w[j]);
                }
                cn = sqrtl(cn), un = sqrtl(un), dn = sqrtl(dn);
                // scale of y: ||c_before|| ||u||; use the larger of the norms before/after the update
                ld cbn = 0;
                for (int j = 0; j < L; ++j) cbn += std::norm(TT<T>::up(cb[j]));
                const ld ys = std::max(sqrtl(cbn), cn) * un + std::abs(d[k]);
                const ld ry = ys > 0 ? std::abs(TT<T>::up(y[0]) - yr) / ys : 0;
                const ld re = ys > 0 ? std::abs(TT<T>::up(e[0]) - er) / ys : 0;
                const ld rc = cn > 0 ? dn / cn : (dn > 0 ? 1 : 0);
                const std::string key = std::string(opt.tag) + KNAME[cfg.kind] + " vs long-double recursion, rel err" +
                                        (cfg.kind == K_RLS ? (ref.cond > 1e6L ? " (cond 1e6..1e8)" : ref.cond > 1e4L ? " (cond 1e4..1e6)" : " (cond < 1e4)") : "");
                ctx.worst(key, (double)std::max(rc, std::max(ry, re)));
                if (ry > REL || re > REL || rc > REL) {
                    ctx.fail(site, fmt("sample %d: relative deviation from the reference recursion y %.3Lg e %.3Lg coeffs %.3Lg (cond %.3Lg)", k, ry, re, rc, ref.cond),
                             "<= 1e-9 (textbook recursion in long double)", detail("reference", k));
                    return false;
                }
            }
        }
    }
    tr.final_coeffs = f.coeffs();
    tr.final_state = f.state_hash(cfg_hash);
    tr.ok = true;
    ++ctx.traces;
    return true;
}

// stable range of plain LMS for this letter: mu * max ||u||^2 < 2
static bool lms_stable(const Cfg& c, const std::vector<cld>& x) {
    if (c.kind == K_RLS) return true;
    if (c.kind == K_NLMS) return c.mu > 0 && c.mu < 2;
    ld mx = 0;
    for (int k = 0; k < (int)x.size(); ++k) {
        ld s = 0;
        for (int j = 0; j < c.len && j <= k; ++j) s += std::norm(x[k - j]);
        mx = std::max(mx, s);
    }
    return c.mu * mx < 2;
}

// ------------------------------------------------------------------------------------------ rls.batch
// returns false on oracle self-check failure (harness bug), reported through *selfcheck
template<class T>
static void rls_batch(Ctx& ctx, const Cfg& cfg, uint64_t /*cfg_hash*/, const std::vector<cld>& x, const std::vector<cld>& d, bool judged, bool& selfcheck_ok) {
    const char* site = "RlsFilter.process";
    const int n = (int)x.size(), L = cfg.len;
    Filt<T> f(cfg);
    Ref ref(cfg);
    Batch bt(L, cfg.lambda, cfg.delta);
    const int stride = L <= 16 ? 1 : 4;
    for (int k = 0; k < n; ++k) {
        base_array<T> y, e;
        f.process(to_frame<T>(x, k, k + 1), to_frame<T>(d, k, k + 1), y, e);
        ++ctx.transitions;   // states are not counted here: the trajectory is the one adapt.step already counted
        ref.step(x[k], d[k], false);
        bt.push(x[k], d[k]);
        if (k % stride != 0 && k != n - 1) continue;
        if (ref.cond > CONDMAX) {
            ctx.note("rls.batch: ill-conditioned normal equations (cond > 1e6), comparison stopped");
            break;
        }
        std::vector<cld> wb;
        if (!bt.solve(wb)) {
            ctx.note("rls.batch: singular normal equations, stopped");
            break;
        }
        ld nb = 0, dref = 0, dimp = 0;
        const base_array<T> c = f.coeffs();
        if (c.size() != L) {
            ctx.fail(site, fmt("coeffs() has %d entries", c.size()), fmt("%d", L));
            return;
        }
        for (int j = 0; j < L; ++j) {
            nb += std::norm(wb[j]);
            dref += std::norm(ref.w[j] - wb[j]);
            dimp += std::norm(TT<T>::up(c[j]) - wb[j]);
        }
        nb = sqrtl(nb), dref = sqrtl(dref), dimp = sqrtl(dimp);
        if (nb == 0) continue;
        // oracle self-check: the long-double recursion must be the normal-equation solution (error ~ cond * 1e-19)
        const ld selftol = std::max((ld)1e-13L, ref.cond * 64 * L * 1.1e-19L);
        ctx.worst("oracle self-check: recursion vs normal equations / allowed", (double)(dref / nb / selftol));
        if (dref / nb > selftol) {
            fprintf(stderr, "oracle self-check failed: %s cplx=%d len=%d lambda=%g delta=%g k=%d: recursion vs batch %.3Lg (cond %.3Lg)\n", KNAME[cfg.kind],
                    (int)TT<T>::cplx, L, cfg.lambda, cfg.delta, k, dref / nb, ref.cond);
            selfcheck_ok = false;
            return;
        }
        if (!judged) continue;   // complex data: the statement only demands the real-valued case
        const std::string key = std::string("rls vs normal equations, rel err") + (ref.cond > 1e6L ? " (cond 1e6..1e8)" : ref.cond > 1e4L ? " (cond 1e4..1e6)" : " (cond < 1e4)");
        ctx.worst(key, (double)(dimp / nb));
        if (dimp / nb > REL) {
            ctx.fail(site, fmt("after sample %d: ||coeffs - w_LS|| / ||w_LS|| = %.3Lg (cond %.3Lg)", k, dimp / nb, ref.cond),
                     "<= 1e-9: exponentially weighted, diagonally regularised least-squares solution", P().kv("sub", "batch").kv("k", k));
            return;
        }
        ctx.note("rls.batch: solutions compared");
    }
    ++ctx.traces;
}

// ------------------------------------------------------------------------------------------ adapt.hist
// lock-aware long-double recursion over a per-sample lock pattern (locked: coefficients frozen, tap history advances,
// y/e computed; the NLMS normalisation is always the power of the true current window)
struct RefTrace {
    std::vector<cld> y, e, w;   // w: coefficients after sample k, n x L
    std::vector<ld> ys, wn;     // scale of y/e, ||w|| after sample k
    std::vector<char> valid;    // reference usable at sample k (RLS: condition estimate <= CONDMAX so far)
};
static RefTrace ref_trace(const Cfg& cfg, const std::vector<cld>& x, const std::vector<cld>& d, const std::vector<char>& lock, ld condmax) {
    const int n = (int)x.size(), L = cfg.len;
    RefTrace t;
    t.y.resize(n), t.e.resize(n), t.w.resize((size_t)n * L), t.ys.resize(n), t.wn.resize(n), t.valid.assign(n, 1);
    Ref ref(cfg);
    bool ok = true;
    for (int k = 0; k < n; ++k) {
        ld cb = 0;
        for (int j = 0; j < L; ++j) cb += std::norm(ref.w[j]);
        t.y[k] = ref.step(x[k], d[k], (bool)lock[k], &t.e[k]);
        if (cfg.kind == K_RLS && ref.cond > condmax) ok = false;
        ld ca = 0, un = 0;
        for (int j = 0; j < L; ++j) {
            ca += std::norm(ref.w[j]);
            un += std::norm(ref.u[j]);
            t.w[(size_t)k * L + j] = ref.w[j];
        }
        t.wn[k] = sqrtl(ca);
        t.ys[k] = sqrtl(std::max(cb, ca)) * sqrtl(un) + std::abs(d[k]);
        t.valid[k] = ok;
    }
    return t;
}

// all compositions of G granules x all lock flags per frame, each on a fresh real object.  Two oracles per history:
// (1) the lock-aware long-double recursion, sample by sample (independent of the implementation), and
// (2) the per-sample drive of the real object (itself checked for a-priori ordering) under the induced lock pattern.
// coeffs() read policies of a history: when the accessor is called matters for implementations that cache it
enum { POL_EVERY = 0, POL_END = 1, POL_AFTER_LOCKED = 2, NPOL = 3 };
static const char* POLNAME[] = {"every_frame", "end_only", "after_locked_frames"};

template<class T>
static void hist_case(Ctx& ctx, const Cfg& cfg, uint64_t cfg_hash, const std::vector<cld>& x, const std::vector<cld>& d, int G, int gs) {
    const char* site = cfg.kind == K_RLS ? "RlsFilter.process" : "LmsFilter.process";
    const int n = G * gs, L = cfg.len;
    StepOpt so;
    so.with_ref = true;   // the per-sample drives are compared with the lock-aware recursion too
    so.ref_allowed = lms_stable(cfg, x);
    if (!so.ref_allowed) ctx.note("adapt.hist: LMS step outside the stable range for this letter (reference comparison skipped)");
    // per-sample model traces and long-double reference traces for every granule-level lock pattern
    std::vector<Trace<T>> model((size_t)1 << G);
    std::vector<RefTrace> rts((size_t)1 << G);
    for (int m = 0; m < (1 << G); ++m) {
        std::vector<char> lock(n);
        for (int k = 0; k < n; ++k) lock[k] = (m >> (k / gs)) & 1;
        if (so.ref_allowed) rts[m] = ref_trace(cfg, x, d, lock, so.condmax);
        if (!step_drive<T>(ctx, cfg, cfg_hash, x, d, lock, so, model[m], P().kv("drive", "per-sample").kv("lockmask", m))) return;
    }
    long long bitident = 0, frames = 0, lockedframes = 0, refcmp = 0, refskip = 0, rejected = 0, reads[NPOL] = {0, 0, 0};
    const std::string refkey = std::string("hist: ") + KNAME[cfg.kind] + " history vs lock-aware long-double recursion, rel err";
    // compositions: bit i of comp set = frame boundary after granule i (i = 0..G-2)
    for (int comp = 0; comp < (1 << (G - 1)); ++comp) {
        std::vector<int> fs;   // frame sizes in granules
        int run = 1;
        for (int i = 0; i < G - 1; ++i) {
            if ((comp >> i) & 1) fs.push_back(run), run = 1;
            else ++run;
        }
        fs.push_back(run);
        const int F = (int)fs.size();
        for (int lk = 0; lk < (1 << F); ++lk)
            for (int pol = 0; pol < NPOL; ++pol) {
                int mask = 0, g0 = 0;
                for (int i = 0; i < F; ++i) {
                    if ((lk >> i) & 1)
                        for (int g = g0; g < g0 + fs[i]; ++g) mask |= 1 << g;
                    g0 += fs[i];
                }
                const Trace<T>& mt = model[mask];
                const RefTrace& rt = rts[mask];
                Filt<T> f(cfg);
                int pos = 0;
                auto detail = [&](const char* sub, int fi, int k) {
                    return P().kv("sub", sub).kv("framing", comp).kv("locks", lk).kv("reads", POLNAME[pol]).kv("frame", fi).kv("k", k);
                };
                // a value returned by coeffs() after sample ke: size, agreement with the lock-aware reference
                auto check_read = [&](const base_array<T>& c, int fi, int ke) -> bool {
                    ++reads[pol];
                    if (c.size() != L) {
                        ctx.fail(site, fmt("coeffs() has %d entries (read policy %s)", c.size(), POLNAME[pol]), fmt("%d", L), detail("size", fi, ke));
                        return false;
                    }
                    if (!so.ref_allowed || ke < 0 || !rt.valid[ke]) return true;
                    ld dn = 0;
                    for (int j = 0; j < L; ++j) dn += std::norm(TT<T>::up(c[j]) - rt.w[(size_t)ke * L + j]);
                    const ld rc = rt.wn[ke] > 0 ? sqrtl(dn) / rt.wn[ke] : (dn > 0 ? 1 : 0);
                    ctx.worst(refkey, (double)rc);
                    if (rc > REL) {
                        ctx.fail(site, fmt("coeffs() read after frame %d (sample %d, read policy %s) deviates from the lock-aware reference recursion by %.3Lg relative", fi, ke, POLNAME[pol], rc),
                                 "<= 1e-9 (textbook recursion in long double: locked = coefficients frozen, history advances)", detail("reference_coeffs", fi, ke));
                        return false;
                    }
                    return true;
                };
                // locked frame = the fixed FIR filter with the given coeffs() value over the true input history
                auto check_fir = [&](const base_array<T>& c, const base_array<T>& y, int p0, int len, int fi, const char* when) -> bool {
                    for (int i = 0; i < len; ++i) {
                        const int k = p0 + i;
                        cld yp = 0;
                        ld ysc = 0;
                        for (int j = 0; j < L && j <= k; ++j) {
                            yp += TT<T>::up(c[j]) * x[k - j];
                            ysc += std::abs(TT<T>::up(c[j])) * std::abs(x[k - j]);
                        }
                        const ld err = std::abs(TT<T>::up(y[i]) - yp);
                        if (ysc > 0) ctx.worst("locked frame |y - FIR(coeffs)| / (eps*sum|c||x|)", (double)(err / ((ld)EPS * ysc)));
                        if (!(err <= (8 + 2 * L) * (ld)EPS * ysc)) {
                            ctx.fail(site, fmt("locked frame: y[%d] = %.17Lg, FIR with the coeffs() read %s the frame (policy %s) gives %.17Lg", k, TT<T>::up(y[i]).real(), when, POLNAME[pol], yp.real()),
                                     "locked filter = fixed FIR with coeffs()", detail("locked_fir", fi, k));
                            return false;
                        }
                    }
                    return true;
                };
                bool stop = false;
                base_array<T> last_read;
                int last_read_frame = -2;
                for (int fi = 0; fi < F && !stop; ++fi) {
                    const bool locked = (lk >> fi) & 1;
                    const int len = fs[fi] * gs;
                    f.lock(locked);
                    base_array<T> cb;
                    if (pol == POL_EVERY) {
                        cb = f.coeffs();
                        if (!check_read(cb, fi, pos - 1)) return;
                    }
                    base_array<T> y, e;
                    f.process(to_frame<T>(x, pos, pos + len), to_frame<T>(d, pos, pos + len), y, e);
                    ++ctx.transitions;
                    ++frames;
                    ctx.state(f.state_hash(cfg_hash));
                    if (y.size() != len || e.size() != len) {
                        ctx.fail(site, fmt("result sizes y=%d e=%d", y.size(), e.size()), fmt("%d, %d", len, len), detail("size", fi, pos));
                        return;
                    }
                    bool same = true;
                    for (int i = 0; i < len; ++i) {
                        const int k = pos + i;
                        if (!TT<T>::fin(y[i]) || !TT<T>::fin(e[i])) {
                            if (so.ref_allowed) {
                                ctx.fail(site, "non-finite y/e for a stable configuration", "finite", detail("finite", fi, k));
                                return;
                            }
                            stop = true;
                            break;
                        }
                        const T ee = TT<T>::down(d[k]) - y[i];
                        if (!same_bits(ee, e[i])) {
                            ctx.fail(site, fmt("e[%d] differs from d - y in a %d-sample frame", i, len), "e[k] = d[k] - y[k] bit-exactly", detail("e_identity", fi, k));
                            return;
                        }
                        // independent oracle: the lock-aware long-double recursion, sample by sample
                        if (so.ref_allowed) {
                            if (!rt.valid[k]) ++refskip;
                            else {
                                ++refcmp;
                                const ld ry = rt.ys[k] > 0 ? std::abs(TT<T>::up(y[i]) - rt.y[k]) / rt.ys[k] : 0;
                                const ld re = rt.ys[k] > 0 ? std::abs(TT<T>::up(e[i]) - rt.e[k]) / rt.ys[k] : 0;
                                ctx.worst(refkey, (double)std::max(ry, re));
                                if (ry > REL || re > REL) {
                                    ctx.fail(site, fmt("sample %d of the history: relative deviation from the lock-aware reference recursion y %.3Lg e %.3Lg (y = %.17Lg, reference %.17Lg)", k, ry, re,
                                                       TT<T>::up(y[i]).real(), rt.y[k].real()),
                                             "<= 1e-9 (textbook recursion in long double: locked = coefficients frozen, history advances)", detail("reference", fi, k));
                                    return;
                                }
                            }
                        }
                        // self-consistency: agreement with the per-sample drive under the same lock pattern
                        const ld sc = mt.ysc[k] + std::abs(d[k]);
                        const ld dy = std::abs(TT<T>::up(y[i]) - TT<T>::up(mt.y[k]));
                        if (!same_bits(y[i], mt.y[k])) same = false;
                        if (sc > 0) ctx.worst("hist: |y_frame - y_per-sample| / (sum|c||x| + |d|)", (double)(dy / sc));
                        if (!(dy <= REL * sc)) {
                            ctx.fail(site, fmt("y[%d] = %.17Lg in this history, %.17Lg when driven sample by sample with the same lock pattern", k, TT<T>::up(y[i]).real(), TT<T>::up(mt.y[k]).real()),
                                     "the a-priori output does not depend on the framing", detail(locked ? "locked_fir" : "framing", fi, k));
                            return;
                        }
                    }
                    if (stop) break;
                    if (same) ++bitident;
                    if (locked) ++lockedframes;
                    // coeffs() reads of this frame according to the policy
                    const int ke = pos + len - 1;
                    if (pol == POL_EVERY) {
                        const base_array<T> ca = f.coeffs();
                        if (!check_read(ca, fi, ke)) return;
                        if (locked) {
                            if (!same_bits(ca, cb)) {
                                ctx.fail(site, fmt("coeffs() changed during locked frame %d (%d samples)", fi, len), "bit-identical coefficients while locked", detail("locked_coeffs", fi, pos));
                                return;
                            }
                            if (!check_fir(cb, y, pos, len, fi, "before")) return;
                        }
                    } else if (pol == POL_AFTER_LOCKED && locked) {
                        const base_array<T> ca = f.coeffs();
                        if (!check_read(ca, fi, ke)) return;
                        if (!check_fir(ca, y, pos, len, fi, "after")) return;
                        if (last_read_frame == fi - 1 && !same_bits(ca, last_read)) {
                            ctx.fail(site, fmt("coeffs() changed between the reads after locked frames %d and %d", fi - 1, fi), "bit-identical coefficients while locked",
                                     detail("locked_coeffs", fi, pos));
                            return;
                        }
                        last_read = ca;
                        last_read_frame = fi;
                    }
                    pos += len;
                }
                if (stop) {
                    ctx.note("adapt.hist: history left the finite range (unstable step), not judged");
                    continue;
                }
                // the read at the very end (the only one under POL_END): reference, FIR of a locked last frame, per-sample drive
                const base_array<T> cf = f.coeffs();
                if (!check_read(cf, F - 1, n - 1)) return;
                ld cn = 0, dn = 0;
                for (int j = 0; j < L && j < mt.final_coeffs.size(); ++j) {
                    cn += std::norm(TT<T>::up(mt.final_coeffs[j]));
                    dn += std::norm(TT<T>::up(cf[j]) - TT<T>::up(mt.final_coeffs[j]));
                }
                if (sqrtl(dn) > REL * sqrtl(cn)) {
                    ctx.fail(site, fmt("final coeffs() deviate from the per-sample drive by %.3Lg relative", cn > 0 ? sqrtl(dn / cn) : sqrtl(dn)),
                             "same coefficients for every framing of the same samples and lock pattern", detail("final_coeffs", F - 1, n - 1));
                    return;
                }
                if (f.state_hash(cfg_hash) == mt.final_state) ctx.note("adapt.hist: final state bit-identical to the per-sample drive");
                else ctx.note("adapt.hist: final state equal within tolerance only");
                ++ctx.traces;

                // rejected calls: process(x', d') with len(x') != len(d') inserted at every frame boundary in turn must throw
                // and leave y / e / coeffs() of the history bit-identical to the history without it
                if (pol == POL_EVERY) {
                    struct Rec {
                        std::vector<T> y, e;
                        std::vector<base_array<T>> c;
                    };
                    auto run = [&](int rb, int var, Rec& r, bool& threw) -> bool {
                        Filt<T> g(cfg);
                        r.y.clear(), r.e.clear(), r.c.clear();
                        threw = false;
                        auto reject = [&]() {
                            const int nxr = var == 0 ? L + 2 : 1, ndr = var == 0 ? 1 : L + 2;   // x' longer / shorter than d'
                            base_array<T> xr(nxr), dr(ndr), yy, ee;
                            for (int i = 0; i < nxr; ++i) xr[i] = TT<T>::down(cld(7.5L + i, -3.25L));
                            for (int i = 0; i < ndr; ++i) dr[i] = TT<T>::down(cld(-2.5L, 1.5L + i));
                            try {
                                g.process(xr, dr, yy, ee);
                            } catch (...) {
                                threw = true;
                            }
                            ++ctx.transitions;
                        };
                        int p0 = 0;
                        for (int fi = 0; fi < F; ++fi) {
                            if (rb == fi) reject();
                            g.lock((lk >> fi) & 1);
                            const int len = fs[fi] * gs;
                            base_array<T> y, e;
                            g.process(to_frame<T>(x, p0, p0 + len), to_frame<T>(d, p0, p0 + len), y, e);
                            ++ctx.transitions;
                            if (y.size() != len || e.size() != len) {
                                ctx.fail(site, fmt("result sizes y=%d e=%d", y.size(), e.size()), fmt("%d, %d", len, len), detail("size", fi, p0));
                                return false;
                            }
                            for (int i = 0; i < len; ++i) r.y.push_back(y[i]), r.e.push_back(e[i]);
                            r.c.push_back(g.coeffs());
                            p0 += len;
                        }
                        if (rb == F) reject();
                        r.c.push_back(g.coeffs());
                        return true;
                    };
                    Rec base, rr;
                    bool threw = false;
                    if (!run(-1, 0, base, threw)) return;
                    for (int rb = 0; rb <= F; ++rb)
                        for (int var = 0; var < 2; ++var) {
                            if (!run(rb, var, rr, threw)) return;
                            ++rejected;
                            auto rdetail = [&](const char* sub, int k) {
                                return P().kv("sub", sub).kv("framing", comp).kv("locks", lk).kv("boundary", rb).kv("xlonger", var == 0).kv("k", k);
                            };
                            if (!threw) {
                                ctx.fail(site, fmt("process(x', d') with len(x')=%d, len(d')=%d did not throw", var == 0 ? L + 2 : 1, var == 0 ? 1 : L + 2), "exception: len(x) != len(d)",
                                         rdetail("rejected_nothrow", -1));
                                return;
                            }
                            for (size_t k = 0; k < base.y.size(); ++k)
                                if (!same_bits(rr.y[k], base.y[k]) || !same_bits(rr.e[k], base.e[k])) {
                                    ctx.fail(site, fmt("after a rejected call before frame %d: y[%zu] = %.17Lg, without the rejected call %.17Lg", rb, k, TT<T>::up(rr.y[k]).real(), TT<T>::up(base.y[k]).real()),
                                             "a rejected call (exception) leaves y / e / coeffs() of the history bit-identical", rdetail("rejected_call", (int)k));
                                    return;
                                }
                            for (size_t k = 0; k < base.c.size(); ++k)
                                if (!same_bits(rr.c[k], base.c[k])) {
                                    ctx.fail(site, fmt("after a rejected call before frame %d: coeffs() read #%zu differs from the history without the rejected call", rb, k),
                                             "a rejected call (exception) leaves y / e / coeffs() of the history bit-identical", rdetail("rejected_call_coeffs", (int)k));
                                    return;
                                }
                            ++ctx.traces;
                        }
                }
            }
    }
    ctx.note("adapt.hist: histories with an inserted rejected call (len(x') != len(d'))", rejected);
    ctx.note("adapt.hist: frames executed", frames);
    ctx.note("adapt.hist: locked frames", lockedframes);
    ctx.note("adapt.hist: frames bit-identical to the per-sample drive", bitident);
    ctx.note("adapt.hist: history samples compared with the lock-aware long-double recursion", refcmp);
    for (int p = 0; p < NPOL; ++p) ctx.note(std::string("adapt.hist: coeffs() values checked, read policy ") + POLNAME[p], reads[p]);
    if (refskip) ctx.note("adapt.hist: history samples skipped, reference ill-conditioned (cond > 1e6)", refskip);
    ctx.nontrivial();
}

// ------------------------------------------------------------------------------------------ adapt.converge
static const int CFR[] = {1, 2, 7, 64, 3, 129};

template<class T>
static void converge_case(Ctx& ctx, const Cfg& cfg, uint64_t cfg_hash, int dl, int slen, int horizon, int seed = 0) {
    const char* site = cfg.kind == K_RLS ? "RlsFilter.process" : "LmsFilter.process";
    const bool cplx = TT<T>::cplx;
    const int L = cfg.len;
    const std::vector<cld> x = make_x(0, cplx, horizon, true, 1, seed);
    const std::vector<cld> h0 = make_h0(dl, cplx, slen);
    const std::vector<cld> d = make_d(dl, cplx, x, h0);
    Filt<T> f(cfg);
    int pos = 0, fi = 0;
    while (pos < horizon) {
        const int len = std::min(CFR[fi % 6], horizon - pos);
        ++fi;
        base_array<T> y, e;
        f.process(to_frame<T>(x, pos, pos + len), to_frame<T>(d, pos, pos + len), y, e);
        ++ctx.transitions;
        ctx.state(f.state_hash(cfg_hash));
        if (y.size() != len || e.size() != len) {
            ctx.fail(site, fmt("result sizes y=%d e=%d", y.size(), e.size()), fmt("%d", len));
            return;
        }
        pos += len;
    }
    ++ctx.traces;
    const base_array<T> c = f.coeffs();
    if (c.size() != L) {
        ctx.fail(site, fmt("coeffs() has %d entries", c.size()), fmt("%d", L));
        return;
    }
    ld num = 0, den = 0;
    for (int j = 0; j < L; ++j) {
        const cld h = j < slen ? h0[j] : cld(0);
        num += std::norm(TT<T>::up(c[j]) - h);
        den += std::norm(h);
    }
    const ld mis = num / den;
    ctx.worst(std::string(KNAME[cfg.kind]) + (cfg.kind == K_NLMS ? fmt(" mu=%g", cfg.mu) : std::string()) + " misalignment after the horizon (allowed 1e-6)", (double)mis);
    if (!(mis < 1e-6L))
        ctx.fail(site, fmt("normalised misalignment %.3Lg after %d samples", mis, horizon), "< 1e-6 (white input, noise-free system no longer than the filter)",
                 P().kv("sub", "converge"));
    ctx.nontrivial();
}

// ------------------------------------------------------------------------------------------ enumeration
// which: 0 = design box (37 configurations), 1 = dense box (107), 2 = dense box minus design box
static std::vector<Cfg> param_box(int len, int which = 0) {
    std::vector<Cfg> v;
    auto in = [](double a, std::initializer_list<double> l) {
        for (double b : l)
            if (a == b) return true;
        return false;
    };
    const std::initializer_list<double> lmu = {0.01, 0.1, 0.5}, nmu = {0.01, 0.1, 0.5, 1.0}, lk = {1.0, 0.999, 0.9}, lam0 = {0.9, 0.95, 0.99, 0.9995, 1.0}, del0 = {1e-2, 1.0, 1e2, 1e4};
    if (which == 0) {
        for (double mu : lmu)
            for (double leak : lk) v.push_back(Cfg{K_LMS, len, mu, leak, 0, 0});
        for (double mu : nmu)
            for (double leak : lk) v.push_back(Cfg{K_NLMS, len, mu, leak, 0, 0});
        for (double lam : lam0)
            for (double del : del0) v.push_back(Cfg{K_RLS, len, 0, 0, lam, del});
        return v;
    }
    for (double mu : {0.005, 0.01, 0.05, 0.1, 0.2, 0.5})
        for (double leak : {1.0, 0.9999, 0.999, 0.99, 0.9})
            if (which == 1 || !(in(mu, lmu) && in(leak, lk))) v.push_back(Cfg{K_LMS, len, mu, leak, 0, 0});
    for (double mu : {0.01, 0.05, 0.1, 0.25, 0.5, 1.0, 1.5})
        for (double leak : {1.0, 0.9999, 0.999, 0.99, 0.9})
            if (which == 1 || !(in(mu, nmu) && in(leak, lk))) v.push_back(Cfg{K_NLMS, len, mu, leak, 0, 0});
    for (double lam : {0.9, 0.95, 0.98, 0.99, 0.999, 0.9992, 0.9995, 0.9999, 1.0})   // incl. factors strictly between 0.999 and 1 (after seed C12-Z)
        for (double del : {1e-2, 1e-1, 1.0, 10.0, 1e2, 1e3, 1e4})
            if (which == 1 || !(in(lam, lam0) && in(del, del0))) v.push_back(Cfg{K_RLS, len, 0, 0, lam, del});
    return v;
}

// ------------------------------------------------------------------------------------------ adapt.stream
// one long stream on one object, fed in one call (frame = 0) or in frames; every sample of y / e and every coeffs()
// value read after a call is compared with the long-double recursion
template<class T>
static void stream_case(Ctx& ctx, const Cfg& cfg, uint64_t cfg_hash, const std::vector<cld>& x, const std::vector<cld>& d, int frame) {
    const char* site = cfg.kind == K_RLS ? "RlsFilter.process" : "LmsFilter.process";
    const int n = (int)x.size(), L = cfg.len;
    Filt<T> f(cfg);
    std::vector<T> y(n), e(n);
    std::vector<std::pair<int, base_array<T>>> reads;
    for (int pos = 0; pos < n;) {
        const int len = frame > 0 ? std::min(frame, n - pos) : n;
        base_array<T> yy, ee;
        f.process(to_frame<T>(x, pos, pos + len), to_frame<T>(d, pos, pos + len), yy, ee);
        ++ctx.transitions;
        ctx.state(f.state_hash(cfg_hash));
        if (yy.size() != len || ee.size() != len) {
            ctx.fail(site, fmt("result sizes y=%d e=%d", yy.size(), ee.size()), fmt("%d", len), P().kv("sub", "size").kv("k", pos));
            return;
        }
        for (int i = 0; i < len; ++i) y[pos + i] = yy[i], e[pos + i] = ee[i];
        pos += len;
        reads.emplace_back(pos - 1, f.coeffs());
    }
    ++ctx.traces;
    Ref ref(cfg);
    size_t ri = 0;
    bool ref_on = true;
    const std::string key = std::string("stream: ") + KNAME[cfg.kind] + " vs long-double recursion, rel err";
    for (int k = 0; k < n; ++k) {
        if (!TT<T>::fin(y[k]) || !TT<T>::fin(e[k])) {
            ctx.fail(site, fmt("non-finite y/e at sample %d of the stream", k), "finite", P().kv("sub", "finite").kv("k", k));
            return;
        }
        const T ee = TT<T>::down(d[k]) - y[k];
        if (!same_bits(ee, e[k])) {
            ctx.fail(site, fmt("e[%d] differs from d - y", k), "e[k] = d[k] - y[k] bit-exactly", P().kv("sub", "e_identity").kv("k", k));
            return;
        }
        ld cb = 0;
        for (int j = 0; j < L; ++j) cb += std::norm(ref.w[j]);
        cld er;
        const cld yr = ref.step(x[k], d[k], false, &er);
        if (cfg.kind == K_RLS) ctx.worst(fmt("stream: rls reference condition estimate, lambda=%g len=%d", cfg.lambda, L), (double)ref.cond);
        if (cfg.kind == K_RLS && ref.cond > CONDMAX && ref_on) {
            ref_on = false;
            ctx.note("adapt.stream: reference ill-conditioned (cond > 1e6), comparison stopped");
        }
        ld ca = 0, un = 0;
        for (int j = 0; j < L; ++j) ca += std::norm(ref.w[j]), un += std::norm(ref.u[j]);
        if (ref_on) {
            const ld ys = sqrtl(std::max(cb, ca)) * sqrtl(un) + std::abs(d[k]);
            const ld ry = ys > 0 ? std::abs(TT<T>::up(y[k]) - yr) / ys : 0, re = ys > 0 ? std::abs(TT<T>::up(e[k]) - er) / ys : 0;
            ctx.worst(key, (double)std::max(ry, re));
            if (ry > REL || re > REL) {
                ctx.fail(site, fmt("sample %d of the stream (%s): relative deviation from the reference recursion y %.3Lg e %.3Lg", k, frame ? "framed" : "one call", ry, re),
                         "<= 1e-9 (textbook recursion in long double)", P().kv("sub", "reference").kv("k", k));
                return;
            }
        }
        if (ri < reads.size() && reads[ri].first == k) {
            const base_array<T>& c = reads[ri].second;
            ++ri;
            if (c.size() != L) {
                ctx.fail(site, fmt("coeffs() has %d entries", c.size()), fmt("%d", L), P().kv("sub", "size").kv("k", k));
                return;
            }
            ld dn = 0;
            bool fin = true;
            for (int j = 0; j < L; ++j) dn += std::norm(TT<T>::up(c[j]) - ref.w[j]), fin = fin && TT<T>::fin(c[j]);
            const ld rc = ca > 0 ? sqrtl(dn / ca) : (dn > 0 ? 1 : 0);
            if (ref_on) ctx.worst(key, (double)rc);
            if (!fin || (ref_on && rc > REL)) {
                ctx.fail(site, fmt("coeffs() after sample %d of the stream deviate from the reference recursion by %.3Lg relative", k, rc), "<= 1e-9, finite",
                         P().kv("sub", "reference_coeffs").kv("k", k));
                return;
            }
        }
    }
    ctx.note("adapt.stream: samples compared", n);
    ctx.nontrivial();
}

int main(int argc, char** argv) {
    Ctx ctx;
    ctx.parse(argc, argv, "C12");
    const bool TH = ctx.thorough();
    const int H = TH ? 64 : 32;
    const std::vector<int> lens = TH ? std::vector<int>{2, 3, 4, 5, 6, 7, 8, 10, 12, 16, 20, 24, 32, 40, 48, 64} : std::vector<int>{2, 3, 4, 8, 16};
    const int BOX = TH ? 1 : 0;   // thorough: dense parameter box
    bool selfcheck_ok = true;

    // ---- adapt.step: parameter box x letters, one sample per call
    for (int len : lens)
        for (const Cfg& cfg : param_box(len, BOX))
            for (int cplx = 0; cplx < 2; ++cplx)
                for (int xl = 0; xl < 3; ++xl)
                    for (int dl = 0; dl < 4; ++dl) {
                        P p = cfg_params(cfg, cplx);
                        p.kv("x", XL[xl]).kv("d", DL[dl]).kv("horizon", H);
                        if (!ctx.take("adapt.step", p)) continue;
                        const std::vector<cld> x = make_x(xl, cplx, H);
                        const std::vector<cld> d = make_d(dl, cplx, x, make_h0(dl, cplx, len));
                        const uint64_t ch = fnv(p.str());
                        StepOpt so;
                        so.with_ref = true;
                        so.ref_allowed = lms_stable(cfg, x);
                        if (!so.ref_allowed) ctx.note("adapt.step: LMS step outside the stable range for this letter (reference comparison skipped)");
                        bool ok;
                        if (cplx) {
                            Trace<cmplx_t> tr;
                            ok = step_drive<cmplx_t>(ctx, cfg, ch, x, d, {}, so, tr);
                        } else {
                            Trace<real_t> tr;
                            ok = step_drive<real_t>(ctx, cfg, ch, x, d, {}, so, tr);
                        }
                        if (ok) ctx.nontrivial();
                        ctx.note(std::string("adapt.step ") + KNAME[cfg.kind] + (cplx ? " complex" : " real"));
                    }

    // ---- adapt.long: long unlocked horizons (>= 200 quick / 1000 thorough samples on one object), white input, reduced
    // parameter set; RLS with lambda < 1 so that the reference stays well conditioned
    {
        const int HL = TH ? 1000 : 200;
        const std::vector<int> ll = TH ? std::vector<int>{2, 3, 4, 8, 16} : std::vector<int>{2, 4, 8};
        for (int len : ll) {
            const Cfg sel[] = {Cfg{K_LMS, len, 0.01, 1, 0, 0},     Cfg{K_LMS, len, 0.1, 0.999, 0, 0}, Cfg{K_NLMS, len, 0.5, 1, 0, 0},  Cfg{K_NLMS, len, 1, 0.999, 0, 0},
                               Cfg{K_RLS, len, 0, 0, 0.9, 1},      Cfg{K_RLS, len, 0, 0, 0.95, 1e2},  Cfg{K_RLS, len, 0, 0, 0.99, 1},  Cfg{K_RLS, len, 0, 0, 0.99, 1e2}};
            for (const Cfg& cfg : sel)
                for (int cplx = 0; cplx < 2; ++cplx)
                    for (int dl : {2, 3}) {
                        P p = cfg_params(cfg, cplx);
                        p.kv("x", XL[0]).kv("d", DL[dl]).kv("horizon", HL);
                        if (!ctx.take("adapt.long", p)) continue;
                        const std::vector<cld> x = make_x(0, cplx, HL);
                        const std::vector<cld> d = make_d(dl, cplx, x, make_h0(dl, cplx, len));
                        StepOpt so;
                        so.with_ref = true;
                        so.ref_allowed = lms_stable(cfg, x);
                        so.tag = "long horizon: ";
                        if (!so.ref_allowed) ctx.note("adapt.long: LMS step outside the stable range for this letter (reference comparison skipped)");
                        bool ok;
                        if (cplx) {
                            Trace<cmplx_t> tr;
                            ok = step_drive<cmplx_t>(ctx, cfg, fnv(p.str()), x, d, {}, so, tr);
                        } else {
                            Trace<real_t> tr;
                            ok = step_drive<real_t>(ctx, cfg, fnv(p.str()), x, d, {}, so, tr);
                        }
                        if (ok) ctx.nontrivial();
                        ctx.note(std::string("adapt.long ") + KNAME[cfg.kind] + (cplx ? " complex" : " real"));
                    }
        }
    }

    // ---- adapt.long, geometric factors: any factor f^k (leak^k, lambda^k, lambda^-k) kept in a long-lived object leaves the
    // double range after k > 745/|ln f| samples; horizons > 1.2 * 745/|ln f| for every geometric parameter, every sample
    // judged (finite y / e / coeffs(), identities, long-double recursion)
    {
        struct Geo {
            double f;
            int horizon;
        };
        std::vector<Geo> geo = {{0.5, 1300}, {0.9, 8500}};
        if (TH) geo.push_back({0.99, 90000});
        for (const Geo& g : geo)
            for (int len : {2, 4}) {
                const Cfg sel[] = {Cfg{K_LMS, len, 0.1, g.f, 0, 0}, Cfg{K_NLMS, len, 0.5, g.f, 0, 0}, Cfg{K_RLS, len, 0, 0, g.f, 1}};
                for (const Cfg& cfg : sel)
                    for (int cplx = 0; cplx < 2; ++cplx)
                        for (int dl : {2, 3}) {
                            P p = cfg_params(cfg, cplx);
                            p.kv("x", XL[0]).kv("d", DL[dl]).kv("horizon", g.horizon);
                            if (!ctx.take("adapt.long", p)) continue;
                            const std::vector<cld> x = make_x(0, cplx, g.horizon);
                            const std::vector<cld> d = make_d(dl, cplx, x, make_h0(dl, cplx, len));
                            StepOpt so;
                            so.with_ref = true;
                            so.ref_allowed = lms_stable(cfg, x);
                            so.tag = "geometric horizon: ";
                            if (!so.ref_allowed) ctx.note("adapt.long: LMS step outside the stable range for this letter (reference comparison skipped)");
                            bool ok;
                            if (cplx) {
                                Trace<cmplx_t> tr;
                                ok = step_drive<cmplx_t>(ctx, cfg, fnv(p.str()), x, d, {}, so, tr);
                            } else {
                                Trace<real_t> tr;
                                ok = step_drive<real_t>(ctx, cfg, fnv(p.str()), x, d, {}, so, tr);
                            }
                            if (ok) ctx.nontrivial();
                            ctx.note(fmt("adapt.long geometric %s factor %g horizon %d", KNAME[cfg.kind], g.f, g.horizon));
                        }
            }
    }

    // ---- adapt.stream: 140 000 samples on one object, in one call and in frames of 1000 (thorough: also 4097 and 65 536),
    // every sample against the long-double recursion (sizes above the 4096 / 65 536 thresholds of buffers and 16-bit counters)
    {
        const int NS = 140000;
        const std::vector<int> sl = TH ? std::vector<int>{2, 4, 8} : std::vector<int>{4};
        const std::vector<int> frames = TH ? std::vector<int>{0, 1000, 4097, 65536} : std::vector<int>{0, 1000};
        for (int len : sl) {
            const Cfg sel[] = {Cfg{K_LMS, len, 0.05, 0.999, 0, 0}, Cfg{K_NLMS, len, 0.5, 1, 0, 0}, Cfg{K_RLS, len, 0, 0, 0.99, 1}};
            for (const Cfg& cfg : sel)
                for (int cplx = 0; cplx < 2; ++cplx)
                    for (int frame : frames) {
                        P p = cfg_params(cfg, cplx);
                        p.kv("x", XL[0]).kv("d", "sys_dense+indep").kv("samples", NS).kv("frame", frame);
                        if (!ctx.take("adapt.stream", p)) continue;
                        const std::vector<cld> x = make_x(0, cplx, NS);
                        std::vector<cld> d = make_d(2, cplx, x, make_h0(2, cplx, len));
                        const std::vector<cld> d2 = make_d(3, cplx, x, {});
                        for (int k = 0; k < NS; ++k) {
                            const cld v = d[k] + 0.5L * d2[k];
                            d[k] = cld((ld)(double)v.real(), (ld)(double)v.imag());
                        }
                        if (cplx) stream_case<cmplx_t>(ctx, cfg, fnv(p.str()), x, d, frame);
                        else stream_case<real_t>(ctx, cfg, fnv(p.str()), x, d, frame);
                    }
        }
    }

    // ---- rls.batch: RLS part of the box against the normal equations (complex data: oracle self-check only)
    for (int len : lens)
        for (const Cfg& cfg : param_box(len, BOX)) {
            if (cfg.kind != K_RLS) continue;
            for (int cplx = 0; cplx < 2; ++cplx)
                for (int xl = 0; xl < 3; ++xl)
                    for (int dl = 0; dl < 4; ++dl) {
                        P p = cfg_params(cfg, cplx);
                        p.kv("x", XL[xl]).kv("d", DL[dl]).kv("horizon", H);
                        if (!ctx.take("rls.batch", p)) continue;
                        const std::vector<cld> x = make_x(xl, cplx, H);
                        const std::vector<cld> d = make_d(dl, cplx, x, make_h0(dl, cplx, len));
                        const uint64_t ch = mix(fnv(p.str()), 2);
                        if (cplx) rls_batch<cmplx_t>(ctx, cfg, ch, x, d, false, selfcheck_ok);
                        else rls_batch<real_t>(ctx, cfg, ch, x, d, true, selfcheck_ok);
                        if (!cplx) ctx.nontrivial();
                        if (!selfcheck_ok) return 4;
                    }
        }

    // ---- adapt.hist: all framings x all lock schedules
    {
        // (a) len <= 4: 6 granules, the whole parameter box
        // (granules, samples per granule)
        const std::vector<std::pair<int, int>> gss =
            TH ? std::vector<std::pair<int, int>>{{6, 1}, {6, 2}, {6, 3}, {7, 2}, {8, 1}} : std::vector<std::pair<int, int>>{{6, 2}};
        const int pairs[][2] = {{0, 2}, {1, 1}, {2, 3}, {3, 2}};   // (x letter, d letter)
        for (int len : {2, 3, 4})
            for (const Cfg& cfg : param_box(len))
                for (int cplx = 0; cplx < 2; ++cplx)
                    for (auto& pr : pairs)
                        for (auto& gg : gss) {
                            const int G = gg.first, gs = gg.second;
                            P p = cfg_params(cfg, cplx);
                            p.kv("x", XL[pr[0]]).kv("d", DL[pr[1]]).kv("granules", G).kv("gsize", gs);
                            if (!ctx.take("adapt.hist", p)) continue;
                            const std::vector<cld> x = make_x(pr[0], cplx, G * gs, false, gs);
                            const std::vector<cld> d = make_d(pr[1], cplx, x, make_h0(pr[1], cplx, len));
                            if (cplx) hist_case<cmplx_t>(ctx, cfg, fnv(p.str()), x, d, G, gs);
                            else hist_case<real_t>(ctx, cfg, fnv(p.str()), x, d, G, gs);
                        }
        // (a2) thorough: the rest of the dense parameter box for len 2..4 and the design box for len 5, 6 (6 granules of 2 samples)
        if (TH)
            for (int len : {2, 3, 4, 5, 6})
                for (const Cfg& cfg : param_box(len, len <= 4 ? 2 : 0))
                    for (int cplx = 0; cplx < 2; ++cplx)
                        for (auto& pr : pairs) {
                            P p = cfg_params(cfg, cplx);
                            p.kv("x", XL[pr[0]]).kv("d", DL[pr[1]]).kv("granules", 6).kv("gsize", 2);
                            if (!ctx.take("adapt.hist", p)) continue;
                            const std::vector<cld> x = make_x(pr[0], cplx, 12, false, 2);
                            const std::vector<cld> d = make_d(pr[1], cplx, x, make_h0(pr[1], cplx, len));
                            if (cplx) hist_case<cmplx_t>(ctx, cfg, fnv(p.str()), x, d, 6, 2);
                            else hist_case<real_t>(ctx, cfg, fnv(p.str()), x, d, 6, 2);
                        }
        // (b) longer filters: 4 granules (thorough also 5) of len/2+1 samples, representative parameter sets per kind
        const std::vector<int> big = TH ? std::vector<int>{8, 12, 16, 24, 32, 48, 64} : std::vector<int>{8, 16};
        for (int len : big) {
            const Cfg sel[] = {Cfg{K_LMS, len, 0.01, 0.999, 0, 0}, Cfg{K_LMS, len, 0.1, 1, 0, 0},   Cfg{K_NLMS, len, 0.5, 1, 0, 0},
                               Cfg{K_NLMS, len, 1, 0.9, 0, 0},     Cfg{K_RLS, len, 0, 0, 0.99, 1}, Cfg{K_RLS, len, 0, 0, 1, 1e4}};
            for (const Cfg& cfg : sel)
                for (int cplx = 0; cplx < 2; ++cplx)
                    for (auto& pr : pairs)
                        for (int G : {4, 5}) {
                            if (G == 5 && !TH) continue;
                            const int gs = len / 2 + 1;
                            P p = cfg_params(cfg, cplx);
                            p.kv("x", XL[pr[0]]).kv("d", DL[pr[1]]).kv("granules", G).kv("gsize", gs);
                            if (!ctx.take("adapt.hist", p)) continue;
                            const std::vector<cld> x = make_x(pr[0], cplx, G * gs, false, gs);
                            const std::vector<cld> d = make_d(pr[1], cplx, x, make_h0(pr[1], cplx, len));
                            if (cplx) hist_case<cmplx_t>(ctx, cfg, fnv(p.str()), x, d, G, gs);
                            else hist_case<real_t>(ctx, cfg, fnv(p.str()), x, d, G, gs);
                        }
        }
    }

    // ---- adapt.converge
    {
        std::vector<int> cl;
        for (int len = 2; len <= 64; ++len)
            if (TH || len <= 16 || len == 32 || len == 64) cl.push_back(len);
        // variants: 0 NLMS mu 1 (40 len), 1 RLS lambda 1 delta 1e4 (4 len); thorough: 2 NLMS mu 0.5, 3 NLMS mu 1.5 (80 len samples:
        // contraction mu(2-mu)/len per sample), and three realisations of the white letter
        for (int len : cl)
            for (int var = 0; var < (TH ? 4 : 2); ++var)
                for (int cplx = 0; cplx < 2; ++cplx)
                    for (int dl = 0; dl < 3; ++dl)
                        for (int sl = 0; sl < 3; ++sl)
                            for (int seed = 0; seed < (TH ? 3 : 1); ++seed) {
                                const int slen = sl == 0 ? len : sl == 1 ? (len + 1) / 2 : 1;
                                if (sl > 0 && slen == (sl == 1 ? len : (len + 1) / 2)) continue;   // duplicates for tiny len
                                const Cfg cfg = var == 1 ? Cfg{K_RLS, len, 0, 0, 1.0, 1e4} : Cfg{K_NLMS, len, var == 0 ? 1.0 : var == 2 ? 0.5 : 1.5, 1.0, 0, 0};
                                const int horizon = var == 1 ? 4 * len : var == 0 ? 40 * len : 80 * len;
                                P p = cfg_params(cfg, cplx);
                                p.kv("system", DL[dl]).kv("syslen", slen).kv("horizon", horizon);
                                if (seed) p.kv("white", seed);
                                if (!ctx.take("adapt.converge", p)) continue;
                                if (cplx) converge_case<cmplx_t>(ctx, cfg, fnv(p.str()), dl, slen, horizon, seed);
                                else converge_case<real_t>(ctx, cfg, fnv(p.str()), dl, slen, horizon, seed);
                            }
    }
    return ctx.finish();
}
