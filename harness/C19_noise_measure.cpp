// C19 - noise injection and SNR/THD measurement are calibrated; random streams reproduce.
// Engine E1 (+ E2-style call programs for the generator state).  Nothing here draws random numbers of its own: the
// only source of pseudo-random values is the library's generator after rng(seed) for an enumerated, fixed seed set
// (0..99 quick / 0..999 thorough), so every run explores the same cases and sees the same values.  The noise
// calibration is a statistical statement; its oracle is the 6-standard-error band of DESIGN C19.
#include "vf.hpp"

using namespace vf;
namespace d = dsplib;
using d::arr_cmplx;
using d::arr_int;
using d::arr_real;
using d::cmplx_t;

// ------------------------------------------------------------------------------------------- awgn calibration
// requested SNR in dB: integer values and fractional values (the parameter is real-valued)
static const double SNRS[13] = {-10, 0, 10, 20, 40, 60, 80, -3.5, -0.5, 0.5, 6.6, 12.7, 59.9};
static const int NSNR_INT = 7;
static const double POWS[3] = {1e-6, 1, 1e6};
// zero-mean letters and letters with a DC component (the power of x includes its DC)
static const int NSIG = 9;   // the last two are complex only: unequal power of the in-phase and quadrature components
static const char* SIGLET[NSIG] = {"tone", "constant-modulus", "broadband", "unipolar-broadband", "tone-on-3x-offset", "constant", "carrier-leak",
                                   "iq-imbalance", "real-signal-as-complex"};

// unit-power-ish signal letters (the exact power is measured in long double)
static std::vector<cld> signal_letter(int letter, int N, bool cplx) {
    std::vector<cld> x((size_t)N);
    for (int i = 0; i < N; ++i) {
        const ld ph = 2 * PI_L * fmodl(0.0123L * i, 1.0L) + 0.3L;
        if (cplx) {
            switch (letter) {
            case 0: x[(size_t)i] = cis(ph); break;
            case 1: {   // QPSK-like, |x| = 1
                const int q = (int)std::floor((lcg_val(1901, (uint64_t)i) + 1) * 2) & 3;
                x[(size_t)i] = cis(PI_L / 4 + q * PI_L / 2);
                break;
            }
            case 3: x[(size_t)i] = cld(0.5 + 0.5 * lcg_val(1906, (uint64_t)i), 0.5 + 0.5 * lcg_val(1907, (uint64_t)i)); break;
            case 4: x[(size_t)i] = cis(ph) + cld(3, 0); break;
            case 5: x[(size_t)i] = cld(0.6, -0.8); break;
            case 6: {   // baseband with carrier leak: constant offset larger than the modulation
                const int q = (int)std::floor((lcg_val(1908, (uint64_t)i) + 1) * 2) & 3;
                x[(size_t)i] = cld(2, -1.5) + (ld)0.3 * cis(PI_L / 4 + q * PI_L / 2);
                break;
            }
            case 7: x[(size_t)i] = cld(lcg_gauss(1911, (uint64_t)i), 0.1 * lcg_gauss(1912, (uint64_t)i)); break;   // Q 20 dB below I
            case 8: x[(size_t)i] = cld(sqrtl(2.0L) * cosl(ph), 0); break;                                           // Q identically zero
            default: x[(size_t)i] = cld(lcg_gauss(1902, (uint64_t)i), lcg_gauss(1903, (uint64_t)i)) * (ld)0.7071067811865476; break;
            }
        } else {
            switch (letter) {
            case 0: x[(size_t)i] = cld(sqrtl(2.0L) * cosl(ph), 0); break;
            case 1: x[(size_t)i] = cld(lcg_val(1904, (uint64_t)i) < 0 ? -1.0 : 1.0, 0); break;
            case 3: x[(size_t)i] = cld(0.5 + 0.5 * lcg_val(1909, (uint64_t)i), 0); break;
            case 4: x[(size_t)i] = cld(cosl(ph) + 3, 0); break;
            case 5: x[(size_t)i] = cld(1, 0); break;
            case 6: x[(size_t)i] = cld(2 + (lcg_val(1910, (uint64_t)i) < 0 ? -0.3 : 0.3), 0); break;
            default: x[(size_t)i] = cld(lcg_gauss(1905, (uint64_t)i), 0); break;
            }
        }
    }
    return x;
}

struct AwgnFail {
    bool have = false;
    std::string obs, exp;
    P det;
};

static void run_awgn(Ctx& ctx, bool T) {
    struct Plan {
        int N, seeds;
    };
    // quick: 100 seeds at 10^4 samples and 2 seeds at the big sizes 65537 and 200000; thorough: more seeds and odd / prime / 2^k lengths
    std::vector<Plan> plans = {{10000, T ? 1000 : 100}};
    if (T) {
        plans.push_back({100000, 50});
        plans.push_back({1000000, 5});
        for (int n : {9973, 10001, 65536, 65537, 131072}) plans.push_back({n, 20});
        plans.push_back({200000, 10});
    } else {
        plans.push_back({65537, 2});
        plans.push_back({200000, 2});
    }
    for (int cplx = 0; cplx < 2; ++cplx) {
        const char* chk = cplx ? "awgn.cmplx" : "awgn.real";
        if (!ctx.wants(chk)) continue;
        for (const Plan& pl : plans) {
            const int N = pl.N;
            for (int letter = 0; letter < NSIG; ++letter) {
                if (!cplx && letter >= 7) continue;
                std::vector<cld> u;   // built lazily, one letter in memory at a time
                for (int seed = 0; seed < pl.seeds; ++seed) {
                    if (!ctx.take(chk, P().kv("seed", seed).kv("N", N).kv("letter", SIGLET[letter]))) continue;
                    ctx.nontrivial();
                    ctx.note(letter >= 7 ? "awgn complex letter with unequal I/Q power" : (letter >= 3 ? "awgn signal letter with DC component" : "awgn zero-mean signal letter"));
                    if (u.empty()) u = signal_letter(letter, N, cplx != 0);
                    std::map<std::string, AwgnFail> fails;   // first failure of each class within the block
                    for (double pw : POWS) {
                        // scaled signal in double, its exact power in long double
                        const double amp = std::sqrt(pw);
                        arr_real xr(cplx ? 0 : N);
                        arr_cmplx xc(cplx ? N : 0);
                        ld px = 0;
                        for (int i = 0; i < N; ++i) {
                            if (cplx) {
                                xc[i] = cmplx_t((double)u[(size_t)i].real() * amp, (double)u[(size_t)i].imag() * amp);
                                px += (ld)xc[i].re * xc[i].re + (ld)xc[i].im * xc[i].im;
                            } else {
                                xr[i] = (double)u[(size_t)i].real() * amp;
                                px += (ld)xr[i] * xr[i];
                            }
                        }
                        px /= N;
                        for (int si = 0; si < 13; ++si) {
                            // thorough tier: the fractional values only at signal power 1 (the noise stream of a seed is the same at every power)
                            if (T && si >= NSNR_INT && pw != 1) continue;
                            const double snr = SNRS[si];
                            ctx.note(si >= NSNR_INT ? "awgn fractional snr evaluations" : "awgn integer snr evaluations");
                            d::rng(seed);
                            arr_cmplx yc;
                            arr_real yr;
                            if (cplx) yc = d::awgn(xc, snr);
                            else yr = d::awgn(xr, snr);
                            const int ny = cplx ? yc.size() : yr.size();
                            auto rec = [&](const char* cls, const std::string& obs, const std::string& exp, const P& det) {
                                AwgnFail& f = fails[cls];
                                if (f.have) return;
                                f.have = true;
                                f.obs = obs;
                                f.exp = exp;
                                f.det = det;
                            };
                            if (ny != N) {
                                rec("size", fmt("size %d", ny), fmt("%d", N), P().kv("cls", "size").kv("snr", snr).kv("power", pw));
                                continue;
                            }
                            // noise w = y - x: power, mean, lag-1 autocorrelation
                            ld s2 = 0, l1r = 0, l1i = 0;
                            cld mean = 0, prev = 0;
                            for (int i = 0; i < N; ++i) {
                                const cld w = cplx ? cld((ld)yc[i].re - xc[i].re, (ld)yc[i].im - xc[i].im) : cld((ld)yr[i] - xr[i], 0);
                                s2 += std::norm(w);
                                mean += w;
                                if (i) {
                                    const cld c = prev * std::conj(w);
                                    l1r += c.real();
                                    l1i += c.imag();
                                }
                                prev = w;
                            }
                            const ld target = px * powl(10.0L, -(ld)snr / 10);
                            const double ratio = (double)(s2 / N / target);
                            const double band = 6 * std::sqrt((cplx ? 1.0 : 2.0) / N);
                            const double mdev = (double)(std::abs(mean) / N / sqrtl(target)) * std::sqrt((double)N);   // in standard errors
                            const double r1 = (double)(sqrtl(l1r * l1r + l1i * l1i) / s2) * std::sqrt((double)N);      // in standard errors
                            const P det0 = P().kv("snr", snr).kv("power", pw);
                            if (!(std::fabs(ratio - 1) <= band)) {
                                const bool half = std::fabs(ratio - 0.5) <= band * 0.5;
                                P det = P().kv("cls", "power").kv("half", half).kv("snr", snr).kv("power", pw).kv("ratio", ratio);
                                rec(half ? "power.half" : "power", fmt("noise power / requested = %.6f (snr %g dB, signal power %g)", ratio, snr, pw),
                                    fmt("1 +- %.4f (6 standard errors)", band), det);
                            } else {
                                ctx.worst(std::string(chk) + " |noise power ratio - 1| / band (passing)", std::fabs(ratio - 1) / band);
                            }
                            if (std::isfinite(mdev)) ctx.worst(std::string(chk) + " |mean| in standard errors (limit 6)", mdev);
                            if (std::isfinite(r1)) ctx.worst(std::string(chk) + " lag-1 autocorrelation in standard errors (limit 6)", r1);
                            if (!(mdev <= 6)) rec("mean", fmt("noise mean = %.3f standard errors (snr %g, power %g)", mdev, snr, pw), "<= 6", P().kv("cls", "mean").kv("snr", snr).kv("power", pw));
                            if (!(r1 <= 6)) rec("lag1", fmt("lag-1 autocorrelation = %.3f standard errors (snr %g, power %g)", r1, snr, pw), "<= 6", P().kv("cls", "lag1").kv("snr", snr).kv("power", pw));
                            ctx.note(std::string(chk) + " elementary evaluations (seed x N x letter x power x snr)");
                        }
                    }
                    for (auto& kv : fails) ctx.fail("awgn", kv.second.obs, kv.second.exp, kv.second.det);
                }
            }
        }
    }
}

// ---- long records with short-period tones: any estimate of the signal level taken from a sub-sampled or strided part of
// the record aliases on a tone whose period divides the stride.  Real tones and complex "I only" tones with
// f in {1/4, 1/3, 1/6, 1/8, 1/10, 3/10} cycles/sample, three phases, two amplitudes, an integer and a fractional SNR.
static void run_awgn_tones(Ctx& ctx, bool T) {
    if (!ctx.wants("awgn.tones")) return;
    std::vector<int> lens = {131072, 200000, 262144};
    if (T) {
        lens.push_back(1000000);
        lens.push_back(1 << 20);
    }
    const int FP[6] = {1, 1, 1, 1, 1, 3}, FQ[6] = {4, 3, 6, 8, 10, 10};
    const double PH[3] = {0.0, 1.5707963267948966, 0.3};
    int caseno = 0;
    for (int N : lens)
        for (int cplx = 0; cplx < 2; ++cplx)
            for (int fi = 0; fi < 6; ++fi)
                for (int ph = 0; ph < 3; ++ph) {
                    const int seed = (caseno++) % 100;
                    if (!ctx.take("awgn.tones", P().kv("N", N).kv("type", cplx ? "cmplx-I-only" : "real").kv("f", fmt("%d/%d", FP[fi], FQ[fi])).kv("phase", PH[ph]).kv("seed", seed))) continue;
                    ctx.nontrivial();
                    std::vector<double> u((size_t)N);
                    for (int i = 0; i < N; ++i) u[(size_t)i] = std::cos(2 * 3.14159265358979323846 * (double)(((long long)i * FP[fi]) % FQ[fi]) / FQ[fi] + PH[ph]);
                    bool failed = false;
                    for (double amp : {1.0, 1e-3})
                        for (double snr : {10.0, 20.5}) {
                            arr_real xr(cplx ? 0 : N);
                            arr_cmplx xc(cplx ? N : 0);
                            ld px = 0;
                            for (int i = 0; i < N; ++i) {
                                const double v = u[(size_t)i] * amp;
                                if (cplx) xc[i] = cmplx_t(v, 0);
                                else xr[i] = v;
                                px += (ld)v * v;
                            }
                            px /= N;
                            d::rng(seed);
                            arr_real yr;
                            arr_cmplx yc;
                            if (cplx) yc = d::awgn(xc, snr);
                            else yr = d::awgn(xr, snr);
                            if ((cplx ? yc.size() : yr.size()) != N) {
                                if (!failed) ctx.fail("awgn", fmt("size %d", cplx ? yc.size() : yr.size()), fmt("%d", N));
                                failed = true;
                                continue;
                            }
                            ld s2 = 0, l1r = 0, l1i = 0;
                            cld mean = 0, prev = 0;
                            for (int i = 0; i < N; ++i) {
                                const cld w = cplx ? cld((ld)yc[i].re - xc[i].re, (ld)yc[i].im - xc[i].im) : cld((ld)yr[i] - xr[i], 0);
                                s2 += std::norm(w);
                                mean += w;
                                if (i) {
                                    const cld c = prev * std::conj(w);
                                    l1r += c.real();
                                    l1i += c.imag();
                                }
                                prev = w;
                            }
                            const ld target = px * powl(10.0L, -(ld)snr / 10);
                            const double ratio = (double)(s2 / N / target), band = 6 * std::sqrt((cplx ? 1.0 : 2.0) / N);
                            const double mdev = (double)(std::abs(mean) / N / sqrtl(target)) * std::sqrt((double)N);
                            const double r1 = (double)(sqrtl(l1r * l1r + l1i * l1i) / s2) * std::sqrt((double)N);
                            if (std::isfinite(ratio)) ctx.worst("awgn.tones |noise power ratio - 1| / band", std::fabs(ratio - 1) / band);
                            if (std::isfinite(mdev)) ctx.worst("awgn.tones |mean| in standard errors (limit 6)", mdev);
                            if (std::isfinite(r1)) ctx.worst("awgn.tones lag-1 autocorrelation in standard errors (limit 6)", r1);
                            if (failed) continue;
                            if (!(std::fabs(ratio - 1) <= band)) {
                                failed = true;
                                ctx.fail("awgn", fmt("noise power / requested = %.6f (snr %g dB, amplitude %g)", ratio, snr, amp), fmt("1 +- %.4f (6 standard errors)", band), P().kv("cls", "power").kv("snr", snr).kv("amp", amp));
                            } else if (!(mdev <= 6) || !(r1 <= 6)) {
                                failed = true;
                                ctx.fail("awgn", fmt("noise mean %.2f / lag-1 autocorrelation %.2f standard errors (snr %g, amplitude %g)", mdev, r1, snr, amp), "<= 6", P().kv("cls", "mean/lag1").kv("snr", snr).kv("amp", amp));
                            }
                        }
                }
}

// ------------------------------------------------------------------------------------------- reproducibility of the streams
static const int NOPS = 9;
static const char* OPN[NOPS] = {"rand", "rand3", "randab2", "randn", "randn3", "randi5", "randir3", "awgnr", "awgnc"};
static std::vector<double> run_op(int op) {
    std::vector<double> o;
    switch (op) {
    case 0: o.push_back(d::rand()); break;
    case 1: {
        arr_real r = d::rand(3);
        o.assign(r.begin(), r.end());
        break;
    }
    case 2: {
        arr_real r = d::rand({-2.5, 4.0}, 2);
        o.assign(r.begin(), r.end());
        break;
    }
    case 3: o.push_back(d::randn()); break;
    case 4: {
        arr_real r = d::randn(3);
        o.assign(r.begin(), r.end());
        break;
    }
    case 5: o.push_back(d::randi(5)); break;
    case 6: {
        arr_int r = d::randi({-2, 2}, 3);
        for (int i = 0; i < r.size(); ++i) o.push_back(r[i]);
        break;
    }
    case 7: {
        arr_real x(5);
        for (int i = 0; i < 5; ++i) x[i] = i - 1.5;
        arr_real r = d::awgn(x, 10);
        o.assign(r.begin(), r.end());
        break;
    }
    default: {
        arr_cmplx x(4);
        for (int i = 0; i < 4; ++i) x[i] = cmplx_t(i + 1, -i);
        arr_cmplx r = d::awgn(x, 10);
        for (int i = 0; i < r.size(); ++i) {
            o.push_back(r[i].re);
            o.push_back(r[i].im);
        }
        break;
    }
    }
    return o;
}
static std::vector<std::vector<double>> run_prog(int seed, const std::vector<int>& prog) {
    d::rng(seed);
    std::vector<std::vector<double>> o;
    for (int op : prog) o.push_back(run_op(op));
    return o;
}
static bool same_out(const std::vector<double>& a, const std::vector<double>& b) {
    return a.size() == b.size() && (a.empty() || std::memcmp(a.data(), b.data(), a.size() * sizeof(double)) == 0);
}

static void run_repro(Ctx& ctx, bool T) {
    const int SEEDS = T ? 10000 : 100;   // the replay programs are cheap: 10^4 seeds in the thorough tier
    const size_t expect_len[NOPS] = {1, 3, 2, 1, 3, 1, 3, 5, 8};
    for (int seed = 0; seed < SEEDS; ++seed) {
        if (!ctx.wants("rng.replay")) break;
        for (int len = 1; len <= 3; ++len) {
            std::vector<int> prog((size_t)len, 0);
            while (true) {
                std::string name;
                for (int op : prog) name += (name.empty() ? "" : ".") + std::string(OPN[op]);
                if (ctx.take("rng.replay", P().kv("seed", seed).kv("prog", name))) {
                    if (len >= 2) ctx.nontrivial();
                    const auto a = run_prog(seed, prog);
                    // disturb the generator state between the two runs so that a no-op rng() cannot pass
                    d::rng(seed + 7919);
                    (void)d::randn(3);
                    const auto b = run_prog(seed, prog);
                    for (int k = 0; k < len; ++k) {
                        if (a[(size_t)k].size() != expect_len[prog[(size_t)k]])
                            ctx.fail(OPN[prog[(size_t)k]], fmt("call %d returned %zu values", k, a[(size_t)k].size()), fmt("%zu", expect_len[prog[(size_t)k]]), P().kv("what", "size"));
                        if (!same_out(a[(size_t)k], b[(size_t)k])) {
                            ctx.fail(OPN[prog[(size_t)k]], fmt("call %d differs between two runs after rng(%d): %s vs %s", k, seed, show(a[(size_t)k]).c_str(), show(b[(size_t)k]).c_str()),
                                     "bit-identical", P().kv("what", "replay").kv("call", k));
                            break;
                        }
                    }
                    if (len >= 2) {   // the values of a prefix do not depend on what follows
                        const std::vector<int> pre(prog.begin(), prog.end() - 1);
                        const auto c = run_prog(seed, pre);
                        for (int k = 0; k + 1 < len; ++k)
                            if (!same_out(a[(size_t)k], c[(size_t)k])) {
                                ctx.fail(OPN[prog[(size_t)k]], fmt("call %d of the program differs from the same call of its prefix", k), "bit-identical", P().kv("what", "prefix").kv("call", k));
                                break;
                            }
                    }
                    // range sanity of the values that have documented ranges
                    for (int k = 0; k < len; ++k)
                        for (double v : a[(size_t)k]) {
                            const int op = prog[(size_t)k];
                            bool ok = true;
                            if (op == 5) ok = v >= 1 && v <= 5 && v == std::floor(v);
                            if (op == 6) ok = v >= -2 && v <= 2 && v == std::floor(v);
                            if (!ok) ctx.fail(OPN[op], fmt("value %.17g", v), "inside the inclusive bounds", P().kv("what", "bounds"));
                        }
                }
                int p = len - 1;
                while (p >= 0 && prog[(size_t)p] == NOPS - 1) prog[(size_t)p--] = 0;
                if (p < 0) break;
                ++prog[(size_t)p];
            }
        }
    }
    // scalar randi draws that ALTERNATE between ranges (a generator that caches its distribution between calls must key the
    // cache on both bounds): groups of ranges sharing an upper bound (negative, zero, positive) with different lower bounds,
    // sharing a lower bound with different upper bounds, single-value ranges {k,k} for negative k.  Every draw lies inside its
    // own range and the whole interleaved sequence replays after rng(seed).
    {
        struct R {
            int lo, hi;
        };
        std::vector<std::pair<std::string, std::vector<R>>> groups = {
            {"upper=-3", {{-10, -3}, {-5, -3}, {-3, -3}}},
            {"upper=-1", {{-100, -1}, {-1, -1}, {-2, -1}}},
            {"upper=0", {{-7, 0}, {-2, 0}, {0, 0}}},
            {"upper=7", {{0, 7}, {5, 7}, {7, 7}, {-7, 7}}},
            {"lower=-10", {{-10, -10}, {-10, -8}, {-10, -1}, {-10, 0}, {-10, 5}}},
            {"lower=0", {{0, 0}, {0, 2}, {0, 9}}},
            {"lower=5", {{5, 5}, {5, 7}, {5, 14}}},
            {"single-negative", {{-1, -1}, {-3, -3}, {-100, -100}, {-2147483647, -2147483647}}},
            {"mixed", {{-5, -3}, {-5, 5}, {3, 5}, {-2147483647, -3}, {-10, -3}}},
        };
        for (auto& g : groups)
            for (int seed = 0; seed < (T ? 200 : 20); ++seed) {
                if (!ctx.take("randi.alternate", P().kv("group", g.first).kv("seed", seed))) continue;
                ctx.nontrivial();
                const std::vector<R>& rs = g.second;
                const int NR = (int)rs.size(), ND = 600;
                std::vector<int> first((size_t)ND);
                bool reported = false;
                for (int pass = 0; pass < 2; ++pass) {
                    d::rng(seed);
                    for (int i = 0; i < ND; ++i) {
                        // interleaving: forward sweeps, backward sweeps and immediate repeats of one range
                        const int k = (i / NR) % 3 == 0 ? i % NR : ((i / NR) % 3 == 1 ? NR - 1 - i % NR : (i / 2) % NR);
                        const int v = d::randi({rs[(size_t)k].lo, rs[(size_t)k].hi});
                        if (pass == 0) first[(size_t)i] = v;
                        if (reported) continue;
                        if (v < rs[(size_t)k].lo || v > rs[(size_t)k].hi) {
                            reported = true;
                            ctx.fail("randi", fmt("draw %d: randi({%d,%d}) = %d (previous range {%d,%d})", i, rs[(size_t)k].lo, rs[(size_t)k].hi, v,
                                                  i ? rs[(size_t)((i - 1) / NR % 3 == 0 ? (i - 1) % NR : ((i - 1) / NR % 3 == 1 ? NR - 1 - (i - 1) % NR : ((i - 1) / 2) % NR))].lo : 0,
                                                  i ? rs[(size_t)((i - 1) / NR % 3 == 0 ? (i - 1) % NR : ((i - 1) / NR % 3 == 1 ? NR - 1 - (i - 1) % NR : ((i - 1) / 2) % NR))].hi : 0),
                                     "inside its own inclusive bounds", P().kv("what", "bounds").kv("i", i));
                        } else if (pass == 1 && v != first[(size_t)i]) {
                            reported = true;
                            ctx.fail("randi", fmt("draw %d differs on replay after rng(%d): %d vs %d", i, seed, v, first[(size_t)i]), "same values", P().kv("what", "replay").kv("i", i));
                        }
                    }
                }
            }
    }
    // rand({a,b}, n) takes a real-valued range: fractional bounds must be honoured (values inside [a,b]; the attained spread is
    // recorded - the statement demands no distribution for rand, so only the documented range is judged)
    {
        const double rr[6][2] = {{-2.5, 4.0}, {0.25, 0.75}, {-0.5, 0.5}, {1e-3, 2e-3}, {-7.3, -7.1}, {0.0, 0.9}};
        for (int r = 0; r < 6; ++r)
            for (int seed = 0; seed < (T ? 200 : 20); ++seed) {
                if (!ctx.take("rand.range", P().kv("a", rr[r][0]).kv("b", rr[r][1]).kv("seed", seed))) continue;
                ctx.nontrivial();
                const double a = rr[r][0], b = rr[r][1];
                d::rng(seed);
                const arr_real v = d::rand({a, b}, 10000);
                if (v.size() != 10000) {
                    ctx.fail("rand", fmt("size %d", v.size()), "10000");
                    continue;
                }
                double mn = b, mx = a;
                bool ok = true;
                for (int i = 0; i < v.size(); ++i) {
                    ok &= v[i] >= a && v[i] <= b;
                    mn = std::min(mn, v[i]);
                    mx = std::max(mx, v[i]);
                }
                if (!ok) ctx.fail("rand", fmt("rand({%g,%g}) produced a value outside the range (min %.17g max %.17g)", a, b, mn, mx), "inside [a,b]");
                ctx.worst("rand({a,b}) unattained fraction of the range at either end (10^4 draws)", std::max(mn - a, b - mx) / (b - a));
            }
    }
    // different seeds give different streams (guards against a generator that ignores the seed: the checks above would be vacuous)
    for (int seed = 0; seed < SEEDS; ++seed) {
        if (!ctx.take("rng.seed_matters", P().kv("seed", seed))) continue;
        d::rng(seed);
        const arr_real a = d::randn(4);
        d::rng(seed + 1);
        const arr_real b = d::randn(4);
        if (bitsame(a, b)) ctx.fail("rng", fmt("rng(%d) and rng(%d) give the same randn(4)", seed, seed + 1), "different streams");
    }
    // randi stays inside its inclusive bounds: 5 ranges x 20 seeds x 10^4 draws, array and scalar overloads, randi(imax)
    {
        const int ranges[5][2] = {{1, 1}, {-3, -3}, {-5, 5}, {0, 1}, {-(1 << 30), 1 << 30}};
        for (int r = 0; r < 5; ++r)
            for (int seed = 0; seed < (T ? 200 : 20); ++seed) {
                if (!ctx.take("randi.bounds", P().kv("lo", ranges[r][0]).kv("hi", ranges[r][1]).kv("seed", seed))) continue;
                const int lo = ranges[r][0], hi = ranges[r][1];
                if (lo != hi) ctx.nontrivial();
                d::rng(seed);
                const arr_int a = d::randi({lo, hi}, 10000);
                if (a.size() != 10000) ctx.fail("randi", fmt("size %d", a.size()), "10000");
                long long mn = hi, mx = lo;
                bool ok = true;
                for (int i = 0; i < a.size(); ++i) {
                    ok &= a[i] >= lo && a[i] <= hi;
                    mn = std::min<long long>(mn, a[i]);
                    mx = std::max<long long>(mx, a[i]);
                }
                d::rng(seed);
                bool same = true;
                for (int i = 0; i < 10000; ++i) {
                    const int v = d::randi({lo, hi});
                    ok &= v >= lo && v <= hi;
                    if (i < a.size()) same &= v == a[i];
                }
                if (!ok) ctx.fail("randi", fmt("value outside [%d,%d]", lo, hi), "inside the inclusive bounds", P().kv("what", "bounds"));
                if (!same) ctx.fail("randi", "scalar randi stream differs from the array overload after the same rng(seed)", "same values", P().kv("what", "scalar-vs-array"));
                if (hi - lo >= 1 && hi - lo <= 10 && ok) ctx.note((mn == lo && mx == hi) ? "randi small range: both bounds attained" : "randi small range: a bound was never drawn");
                if (lo == 1) {   // randi(imax) = [1, imax]
                    d::rng(seed);
                    const arr_int b = d::randi(hi, 100);
                    bool okb = b.size() == 100;
                    for (int i = 0; okb && i < 100; ++i) okb = b[i] >= 1 && b[i] <= hi && b[i] == a[i];
                    if (!okb) ctx.fail("randi", "randi(imax, n) outside [1, imax] or different from randi({1, imax}, n)", "same values inside [1, imax]", P().kv("what", "imax"));
                }
            }
        for (int imax : {1, 2, 6, 1000})
            for (int seed = 0; seed < (T ? 200 : 20); ++seed) {
                if (!ctx.take("randi.imax", P().kv("imax", imax).kv("seed", seed))) continue;
                if (imax > 1) ctx.nontrivial();
                d::rng(seed);
                bool ok = true;
                for (int i = 0; i < 10000; ++i) {
                    const int v = d::randi(imax);
                    ok &= v >= 1 && v <= imax;
                }
                const arr_int b = d::randi(imax, 10000);
                for (int i = 0; i < b.size(); ++i) ok &= b[i] >= 1 && b[i] <= imax;
                if (!ok || b.size() != 10000) ctx.fail("randi", fmt("randi(%d) outside [1,%d]", imax, imax), "inside [1, imax]");
            }
    }
}

// ------------------------------------------------------------------------------------------- snr / sinad / thd
static const double LEVELS[4] = {-10, -20, -30, -40};   // dBc
static const int OFF100[5] = {0, 10, 25, 50, 73};       // fundamental offset from the record's bin grid, in 1/100 bin
static const double SCALES[5] = {1.0, 1e-4, 1e4, 1.0 / 8192, 8192.0};

// x[n] = sum_h a_h cos(2 pi h f0 n + phi_h), f0 = K / (100 N) cycles/sample; the phase is reduced exactly in integers
static std::vector<double> make_tones(int N, long long K, const std::vector<double>& amp, const std::vector<double>& phi) {
    std::vector<double> x((size_t)N, 0.0);
    const long long M = 100LL * N;
    for (size_t h = 0; h < amp.size(); ++h) {
        const long long step = ((long long)(h + 1) * K) % M;
        long long acc = 0;
        for (int n = 0; n < N; ++n) {
            x[(size_t)n] += amp[h] * std::cos(2 * 3.14159265358979323846 * ((double)acc / (double)M) + phi[h]);
            acc += step;
            if (acc >= M) acc -= M;
        }
    }
    return x;
}

// one multi-tone configuration: f0 = (bin + off/100)/N, H harmonics with the level pattern `pat`, phase letter phl,
// analysed at 5 amplitude scales by thd, sinad and snr
static void measure_case(Ctx& ctx, const char* family, int N, int H, int bin, int oi, const std::vector<int>& pat, int phl) {
    std::string lv;
    for (int v : pat) lv += (char)('0' + v);
    // a component exactly half-way between two bins of the analysis grid (power-of-two record: nfft = N);
    // such cases form their own check so that their (known) failures cannot crowd out others
    bool halfbin = false;
    for (int h = 1; h <= H + 1; ++h) halfbin |= ((N & (N - 1)) == 0) && ((h * OFF100[oi]) % 100 == 50);
    if (!ctx.take(halfbin ? (std::string(family) + ".halfbin").c_str() : family, P().kv("N", N).kv("H", H).kv("bin", bin).kv("off100", OFF100[oi]).kv("levels", lv).kv("phase", phl))) return;
    ctx.nontrivial();
    const long long K = 100LL * bin + OFF100[oi];
    const double f0 = (double)K / (100.0 * N);
    std::vector<double> amp = {1.0}, phi;
    ld dist = 0;
    for (int v : pat) {
        amp.push_back(std::pow(10.0, LEVELS[v] / 20));
        dist += powl(10.0L, (ld)LEVELS[v] / 10);
    }
    for (int h = 0; h <= H; ++h) phi.push_back(phl == 0 ? 0.0 : (phl == 1 ? 0.7 * (h + 1) * (h + 1) : 3.141592653589793 * lcg_val(1910, (uint64_t)h)));
    const double thd_true = (double)(10 * log10l(dist));
    const char* wsfx = halfbin ? " [half-bin cases]" : (std::strcmp(family, "measure.tones") ? " [low fundamental]" : ((N & 1) ? " [odd lengths]" : ""));
    std::set<std::string> reported;   // one record per (site, kind) and case
    auto failonce = [&](const char* site, const char* what, const std::string& obs, const std::string& exp, const P& det) {
        if (reported.insert(std::string(site) + "/" + what).second) ctx.fail(site, obs, exp, det);
    };
    if (halfbin) ctx.note("a component exactly half-way between two analysis bins");
    const std::vector<double> x1 = make_tones(N, K, amp, phi);
    ctx.note(OFF100[oi] == 0 ? "fundamental on-bin" : "fundamental off-bin");
    ctx.note((N & 1) ? "length odd" : ((N & (N - 1)) ? "length even, not a power of two" : "length power of two"));
    double v_thd[5], v_sinad[5], v_snr_h[5], v_snr_all[5];
    bool sized = true;
    for (int sc = 0; sc < 5 && sized; ++sc) {
        arr_real x(N);
        for (int i = 0; i < N; ++i) x[i] = x1[(size_t)i] * SCALES[sc];
        const d::ThdRes tr = d::thd(x, H + 1);
        v_thd[sc] = tr.value;
        v_sinad[sc] = d::sinad(x);
        v_snr_h[sc] = d::snr(x, H);         // the last harmonic is left in the "noise": a deterministic ratio
        v_snr_all[sc] = d::snr(x, H + 1);   // everything removed: what is left is the rounding floor of the scaled signal
        if (tr.harmfreq.size() < H + 1 || tr.harmpow.size() < H + 1) {
            ctx.fail("thd", fmt("harmfreq/harmpow sizes %d/%d", tr.harmfreq.size(), tr.harmpow.size()), fmt(">= %d", H + 1));
            sized = false;
            break;
        }
        if (sc == 0) {
            const double e = std::fabs(tr.value - thd_true);
            ctx.worst(std::string("thd error dB (limit 0.1)") + wsfx, std::isfinite(e) ? e : 1e300);
            if (!(e <= 0.1)) failonce("thd", "value", fmt("thd=%.6f dB", tr.value), fmt("%.6f dB +- 0.1", thd_true), P().kv("halfbin", halfbin).kv("what", "value"));
            for (int h = 0; h <= H; ++h) {
                const double fe = std::fabs(tr.harmfreq[h] - (h + 1) * f0) * N;   // in bins of the record (1/N), the weaker reading of "bin"
                ctx.worst(std::string("harmonic frequency error in bins 1/N (limit 0.1)") + wsfx, std::isfinite(fe) ? fe : 1e300);
                if (!(fe <= 0.1)) {
                    failonce("thd", "freq", fmt("harmfreq[%d]=%.9f", h, tr.harmfreq[h]), fmt("%.9f +- 0.1/N", (h + 1) * f0), P().kv("halfbin", halfbin).kv("what", "freq").kv("h", h));
                    break;
                }
            }
            // per-component levels: harmpow[k] - harmpow[0] is the level of harmonic k+1 relative to the fundamental
            for (int h = 1; h <= H; ++h) {
                const double le = std::fabs((tr.harmpow[h] - tr.harmpow[0]) - LEVELS[pat[(size_t)h - 1]]);
                ctx.worst(std::string("harmonic level error dB (limit 0.1)") + wsfx, std::isfinite(le) ? le : 1e300);
                if (!(le <= 0.1)) {
                    failonce("thd", "level", fmt("harmpow[%d]-harmpow[0]=%.6f dB", h, tr.harmpow[h] - tr.harmpow[0]), fmt("%.1f dBc +- 0.1", LEVELS[pat[(size_t)h - 1]]), P().kv("halfbin", halfbin).kv("what", "level").kv("h", h));
                    break;
                }
            }
            const double es = std::fabs(v_sinad[0] - (-thd_true));
            ctx.worst(std::string("sinad error dB (limit 1.5)") + wsfx, std::isfinite(es) ? es : 1e300);
            if (!(es <= 1.5)) failonce("sinad", "value", fmt("sinad=%.6f dB", v_sinad[0]), fmt("%.6f dB +- 1.5", -thd_true), P().kv("halfbin", halfbin).kv("what", "value"));
        }
    }
    if (!sized) return;
    // invariance under positive scaling
    for (int sc = 1; sc < 5; ++sc) {
        const double e1 = std::fabs(v_thd[sc] - v_thd[0]), e2 = std::fabs(v_sinad[sc] - v_sinad[0]), e3 = std::fabs(v_snr_h[sc] - v_snr_h[0]);
        ctx.worst(std::string("thd change under scaling dB (limit 1e-6)") + wsfx, std::isfinite(e1) ? e1 : 1e300);
        ctx.worst(std::string("sinad change under scaling dB (limit 1e-6)") + wsfx, std::isfinite(e2) ? e2 : 1e300);
        ctx.worst(std::string("snr (one harmonic left) change under scaling dB (limit 1e-6)") + wsfx, std::isfinite(e3) ? e3 : 1e300);
        if (!(e1 <= 1e-6)) failonce("thd", "scale", fmt("thd %.9f vs %.9f at scale %g", v_thd[sc], v_thd[0], SCALES[sc]), "equal within 1e-6 dB", P().kv("halfbin", halfbin).kv("what", "scale").kv("scale", SCALES[sc]));
        if (!(e2 <= 1e-6)) failonce("sinad", "scale", fmt("sinad %.9f vs %.9f at scale %g", v_sinad[sc], v_sinad[0], SCALES[sc]), "equal within 1e-6 dB", P().kv("halfbin", halfbin).kv("what", "scale").kv("scale", SCALES[sc]));
        if (!(e3 <= 1e-6)) failonce("snr", "scale", fmt("snr %.9f vs %.9f at scale %g", v_snr_h[sc], v_snr_h[0], SCALES[sc]), "equal within 1e-6 dB", P().kv("halfbin", halfbin).kv("what", "scale").kv("scale", SCALES[sc]));
        // noise-free signal with every component removed: the value is the rounding floor of the particular
        // scaled samples; only power-of-two scalings (exact) are required to leave it unchanged
        const double e4 = std::fabs(v_snr_all[sc] - v_snr_all[0]);
        if (sc >= 3) {
            ctx.worst(std::string("snr (all removed) change under power-of-two scaling dB (limit 1e-6)") + wsfx, std::isfinite(e4) ? e4 : 1e300);
            if (!(e4 <= 1e-6)) failonce("snr", "scale2", fmt("snr %.9f vs %.9f at scale %g", v_snr_all[sc], v_snr_all[0], SCALES[sc]), "equal within 1e-6 dB", P().kv("halfbin", halfbin).kv("what", "scale2").kv("scale", SCALES[sc]));
        } else {
            ctx.worst(std::string("informational: snr (all removed, rounding floor) change under scaling by 1e+-4, dB") + wsfx, std::isfinite(e4) ? e4 : 1e300);
        }
    }
    ctx.worst(std::string("informational: -snr of a noise-free signal (all components removed), dB") + wsfx, -v_snr_all[0]);
}

static void run_measure(Ctx& ctx, bool T) {
    // grid per length: FULL = every combination of the first three harmonic levels (thorough), SET8 = 8 level patterns,
    // REDUCED = H in {1,3,5}, 2 level patterns, offsets {0, 0.25, 0.73}, 2 phase letters (108 configurations),
    // MINI = H in {1,5}, 2 level patterns, offsets {0, 0.25}, 1 phase letter (24 configurations, for the big records in the quick tier)
    enum Mode { FULL, SET8, REDUCED, MINI };
    struct LenPlan {
        int N;
        Mode mode;
        bool full, reduced, mini;
        LenPlan(int n, Mode m) : N(n), mode(m), full(m == FULL), reduced(m == REDUCED || m == MINI), mini(m == MINI) {}
    };
    // odd lengths (the one-sided spectrum then has no Nyquist bin and (nfft or len-1)/2 bins: the bin <-> frequency map matters);
    // big records 65536, 100000, 131072 (products of the length exceed 2^31)
    const Mode main_mode = T ? FULL : SET8, odd_mode = T ? SET8 : REDUCED;
    std::vector<LenPlan> lens = {{2048, main_mode}, {4096, main_mode}, {5000, main_mode}, {8192, SET8},
                                 {2049, odd_mode}, {4095, odd_mode}, {5001, odd_mode}, {8191, odd_mode}, {10001, odd_mode}};
    if (T) {
        for (int n : {3000, 6000, 10000, 16384}) lens.push_back({n, SET8});
        for (int n : {32767, 32768, 65536, 65537, 100000, 100003, 131071, 1 << 17}) lens.push_back({n, REDUCED});
    } else {
        for (int n : {65536, 100000, 131072}) lens.push_back({n, MINI});
    }
    for (const LenPlan& lp : lens) {
        const int N = lp.N;
        if (!ctx.wants("measure.tones") && !ctx.wants("measure.tones.halfbin")) break;
        for (int H = 1; H <= 5; ++H) {
            if (lp.reduced && H % 2 == 0) continue;
            if (lp.mini && H == 3) continue;
            // level patterns (index into LEVELS per harmonic)
            std::vector<std::vector<int>> pats;
            if (lp.full) {   // every combination of the first three levels; further levels derived (sum of the others + position) mod 4
                const int F = std::min(H, 3);
                int tot = 1;
                for (int i = 0; i < F; ++i) tot *= 4;
                for (int c = 0; c < tot; ++c) {
                    std::vector<int> p;
                    int sum = 0;
                    for (int i = 0, v = c; i < F; ++i, v /= 4) {
                        p.push_back(v % 4);
                        sum += v % 4;
                    }
                    for (int i = F; i < H; ++i) {
                        p.push_back((sum + i) % 4);
                        sum += p.back();
                    }
                    pats.push_back(p);
                }
            } else {
                for (int c = 0; c < 4; ++c) pats.push_back(std::vector<int>((size_t)H, c));
                for (int r = 0; r < 4; ++r) {
                    std::vector<int> p;
                    for (int i = 0; i < H; ++i) p.push_back((i + r) % 4);
                    if (std::find(pats.begin(), pats.end(), p) == pats.end()) pats.push_back(p);
                }
                if (lp.reduced) {   // constant -10 dBc and the rotation starting at -20 dBc
                    std::vector<int> rot;
                    for (int i = 0; i < H; ++i) rot.push_back((i + 1) % 4);
                    pats = {std::vector<int>((size_t)H, 0), rot};
                }
            }
            const int b_lo = 100, b_hi = (N / 2 - 100) / (H + 1) - 1;
            const int poss[3] = {b_lo, (b_lo + b_hi) / 2, b_hi};
            for (int pi = 0; pi < 3; ++pi)
                for (int oi = 0; oi < 5; ++oi)
                    for (size_t pt = 0; pt < pats.size(); ++pt)
                        for (int phl = 0; phl < 3; ++phl) {
                            if (lp.reduced && ((oi & 1) || phl == 1)) continue;
                            if (lp.mini && (oi == 4 || phl == 0)) continue;
                            measure_case(ctx, "measure.tones", N, H, poss[pi], oi, pats[pt], phl);
                        }
        }
    }
}

// long records with a LOW fundamental: harmonics only 110..200 bins apart (still >= 100 as the statement requires) and
// non-monotone harmonic levels, so that a component search that looks too far around the nominal bin locks onto a
// stronger neighbour (frequencies off by hundreds of bins, per-harmonic levels swapped while the thd sum stays right)
static void run_measure_lowfund(Ctx& ctx, bool T) {
    if (!ctx.wants("measure.lowfund") && !ctx.wants("measure.lowfund.halfbin")) return;
    const std::vector<std::vector<int>> pats_q = {{3, 0, 2, 1}, {2, 3, 0}};                        // {-40,-10,-30,-20}, {-30,-40,-10} dBc
    const std::vector<std::vector<int>> pats_t = {{3, 0, 2, 1}, {2, 3, 0}, {3, 0}, {1, 3, 2, 0, 3}};
    const std::vector<int> lens = T ? std::vector<int>{1 << 14, 1 << 15, 1 << 17, 40000} : std::vector<int>{1 << 15, 1 << 17};
    const std::vector<int> bins = T ? std::vector<int>{110, 130, 150, 170, 200} : std::vector<int>{110, 150, 200};
    for (int N : lens)
        for (int bin : bins)
            for (int oi = 0; oi < 5; ++oi) {
                if (!T && oi != 0 && oi != 2) continue;
                for (const auto& pat : (T ? pats_t : pats_q))
                    for (int phl = 0; phl < 3; ++phl) {
                        if (!T && phl != 2) continue;
                        measure_case(ctx, "measure.lowfund", N, (int)pat.size(), bin, oi, pat, phl);
                    }
            }
}

int main(int argc, char** argv) {
    Ctx ctx;
    ctx.parse(argc, argv, "C19");
    const bool T = ctx.thorough();
    run_repro(ctx, T);
    run_measure(ctx, T);
    run_measure_lowfund(ctx, T);
    run_awgn(ctx, T);
    run_awgn_tones(ctx, T);
    return ctx.finish();
}
