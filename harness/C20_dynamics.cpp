// C20 - dynamics processors never amplify, follow their static curves, and settle.
// Engine E1 (bounded-exhaustive parameter boxes x level grids x signal letters) with E2-style step histories for
// the smoothing.  Everything runs on the real Compressor / Limiter / NoiseGate / Agc objects; the oracles are
// the documented static characteristic in long double and output-only invariants (monotone, 1-Lipschitz grid).
//
// Sub-checks
//   static.curve   attack = release = 0: out level vs documented law (1e-6 dB), monotone + continuous on the grid
//   static.exact   samples whose computed level equals T, T-W/2 or T+W/2 bit-exactly (searched among 200 neighbouring doubles)
//   gain.range     all attack/release combinations on signal letters: gain in [0,1], out = x*gain, limiter ceiling
//   smooth.step    level steps up/down: dB gain moves monotonically toward the static target, 10%->90% in fs*t
//   smooth.silence burst | exact zeros for k release times | quiet tone (1 call / 3 calls): first-order release through the silence
//   gate.silence   the same history for the NoiseGate: hold, then closing with the attack time through zeros and tone
//   stream         140 000 samples per processor (Agc real and complex) in one call and in frames of 1000, every sample against
//                  the reference recursion; holds / silences / averaging windows span samples 65 536 and 131 072
//   gate.bursts    bursts shorter than the release time with hold > 0 against the reference recursion
//   gate.step      NoiseGate open/close history: hold of floor(hold*fs) samples, time constants, monotone
//   gate.range     NoiseGate on signal letters: gain in [0,1], monotone toward the decision, out = x*gain
//   agc.settle     Agc on constant-envelope letters: settles to target power within 1 %, gain <= max_gain
//   agc.bound      Agc on silence / level-switch letters: gain finite and <= max_gain on every sample
#include "vf.hpp"
#include <type_traits>

using namespace vf;
using namespace dsplib;

// ---------------------------------------------------------------------------------------------- helpers
static inline ld level_db(double x) { return 20.0L * log10l(fabsl((ld)x)); }

// documented static characteristic (output level for input level L, all dB); limiter: R = infinity
static ld static_out(bool limiter, ld T, ld R, ld W, ld L) {
    const ld inv = limiter ? 0.0L : 1.0L / R;
    if (W > 0 && L > T - W / 2 && L < T + W / 2) {
        const ld t = L - T + W / 2;
        return L + (inv - 1) * t * t / (2 * W);
    }
    if (L >= T + W / 2) return T + (L - T) * inv;
    return L;
}

static const int FRAMES[] = {1, 2, 7, 64, 512, 3001};

// run a real processor over x in frames of cycling sizes; returns false (after ctx.fail) on a wrong-size result
template<class Proc>
static bool run_framed(Ctx& ctx, const char* site, Proc& p, const std::vector<double>& x, std::vector<double>& out,
                       std::vector<double>& gain, bool framed = true) {
    const int n = (int)x.size();
    out.assign(n, 0);
    gain.assign(n, 0);
    int pos = 0, f = 0;
    while (pos < n) {
        int len = framed ? std::min(FRAMES[f % 6], n - pos) : n;
        ++f;
        arr_real fr(len);
        for (int i = 0; i < len; ++i) fr[i] = x[pos + i];
        auto r = p.process(fr);
        if (r.out.size() != len || r.gain.size() != len) {
            ctx.fail(site, fmt("result sizes out=%d gain=%d", r.out.size(), r.gain.size()), fmt("%d", len));
            return false;
        }
        for (int i = 0; i < len; ++i) {
            out[pos + i] = r.out[i];
            gain[pos + i] = r.gain[i];
        }
        pos += len;
    }
    return true;
}

// gain in [0,1], finite, out == x*gain (to 4 eps).  Reports the first offending sample.
// "gain <= 1" is read to rounding: the dB-domain gain computer evaluates T + (xdb - T)/R - xdb, whose rounding error
// is a few eps*(|xdb| + |T|) dB, i.e. a relative gain excess of ~1e-14 at most; 1e-12 is allowed and the worst excess
// is recorded (pinned tree: 1 ulp for ratio 1).
static bool check_range(Ctx& ctx, const char* site, const std::vector<double>& x, const std::vector<double>& out,
                        const std::vector<double>& gain) {
    for (size_t i = 0; i < x.size(); ++i) {
        const double g = gain[i];
        if (g > 1.0) ctx.worst("gain excess over 1 (allowed 1e-12)", g - 1.0);
        if (!(g >= 0.0 && g <= 1.0 + 1e-12)) {
            ctx.fail(site, fmt("gain[%zu]=%.17g for x=%.17g", i, g, x[i]), "gain in [0,1]", P().kv("sub", "range").kv("i", (long long)i));
            return false;
        }
        const double e = x[i] * g;
        if (!(std::fabs(out[i] - e) <= 4 * EPS * std::fabs(e))) {
            ctx.fail(site, fmt("out[%zu]=%.17g, x*gain=%.17g", i, out[i], e), "out = x*gain", P().kv("sub", "product").kv("i", (long long)i));
            return false;
        }
    }
    return true;
}

// ---------------------------------------------------------------------------------------------- signal letters
static const char* LETTERS[] = {"noise", "lognoise", "bursts", "steps", "silence", "square", "zerogaps"};
static const int NLET = 7;

static std::vector<double> letter(int id, int n) {
    std::vector<double> x(n);
    switch (id) {
    case 0:   // uniform noise, peak +12 dB
        for (int i = 0; i < n; ++i) x[i] = 4.0 * lcg_val(11, i);
        break;
    case 1:   // level uniform in [-100, +20] dB, random sign
        for (int i = 0; i < n; ++i) {
            double u = 0.5 * (lcg_val(12, i) + 1.0);
            double s = lcg_val(13, i) < 0 ? -1.0 : 1.0;
            x[i] = s * std::pow(10.0, (u * 120.0 - 100.0) / 20.0);
        }
        break;
    case 2: {   // loud / quiet bursts of lengths 1..2000
        int i = 0, b = 0;
        while (i < n) {
            int len = 1 + (int)(1999.0 * 0.5 * (lcg_val(14, b) + 1.0));
            double a = (b & 1) ? 1e-4 : 3.0;
            for (int k = 0; k < len && i < n; ++k, ++i) x[i] = a * lcg_val(15, i);
            ++b;
        }
        break;
    }
    case 3: {   // +-steps between fixed levels
        static const double lv[] = {0.0, 1e-3, 0.1, 0.5, 1.0, 10.0, 0.03, 2.0};
        int i = 0, b = 0;
        while (i < n) {
            int len = 1 + (int)(700.0 * 0.5 * (lcg_val(16, b) + 1.0));
            double a = lv[b % 8] * ((b / 8) & 1 ? -1.0 : 1.0);
            for (int k = 0; k < len && i < n; ++k, ++i) x[i] = a;
            ++b;
        }
        break;
    }
    case 4:
        break;   // silence
    case 6: {   // loud noise bursts separated by runs of exact zeros of lengths 1..2000
        int i = 0, b = 0;
        while (i < n) {
            int len = 1 + (int)(1999.0 * 0.5 * (lcg_val(17, b) + 1.0));
            for (int k = 0; k < len && i < n; ++k, ++i) x[i] = (b & 1) ? 0.0 : 3.0 * lcg_val(18, i);
            ++b;
        }
        break;
    }
    default:   // full-scale square
        for (int i = 0; i < n; ++i) x[i] = ((i / 37) & 1) ? -1.0 : 1.0;
    }
    return x;
}

// ---------------------------------------------------------------------------------------------- static.curve
struct CurveFail {
    std::map<std::string, int> seen;
};

template<class Proc>
static void static_curve(Ctx& ctx, const char* site, Proc& proc, bool limiter, double T, int R, double W, int sign, bool deep = false) {
    // level grid in milli-dB: every 0.5 dB in [-100,20], every 0.01 dB within +-0.1 dB of T-W/2, T, T+W/2
    // (deep: additionally every 0.001 dB within +-0.05 dB of these breakpoints)
    std::set<long long> g;
    for (long long c = -100000; c <= 20000; c += 500) g.insert(c);
    for (double b : {T - W / 2, T, T + W / 2}) {
        long long c0 = llround(b * 1000);
        for (int j = -10; j <= 10; ++j) g.insert(c0 + 10 * j);
        if (deep)
            for (int j = -50; j <= 50; ++j) g.insert(c0 + j);
    }
    std::vector<long long> lv(g.begin(), g.end());
    if (sign < 0) std::reverse(lv.begin(), lv.end());   // descending order: the law must be memoryless
    const int n = (int)lv.size();
    std::vector<double> x(n), out(n), gain(n);
    for (int i = 0; i < n; ++i) x[i] = sign * (double)powl(10.0L, (ld)lv[i] / 20000.0L);
    {
        // the sweep with an exact 0.0 after every 5th level: zero samples are below every threshold (unity gain,
        // zero output) and must not disturb the law for the following sample
        std::vector<double> xx, oo, gg;
        std::vector<int> idx(n);
        for (int i = 0; i < n; ++i) {
            idx[i] = (int)xx.size();
            xx.push_back(x[i]);
            if (i % 5 == 4) xx.push_back(0.0);
        }
        if (!run_framed(ctx, site, proc, xx, oo, gg, false)) return;
        if (!check_range(ctx, site, xx, oo, gg)) return;
        for (size_t i = 0; i < xx.size(); ++i)
            if (xx[i] == 0.0 && (oo[i] != 0.0 || !(std::fabs(gg[i] - 1.0) <= 1e-12))) {
                ctx.fail(site, fmt("exact-zero sample %zu (after %.17g): out=%.17g gain=%.17g", i, i ? xx[i - 1] : 0.0, oo[i], gg[i]),
                         "zero input is below the threshold: out = 0, gain = 1 (zero attack/release)", P().kv("sub", "zero_gain").kv("i", (long long)i));
                return;
            }
        for (int i = 0; i < n; ++i) out[i] = oo[idx[i]], gain[i] = gg[idx[i]];
        ctx.note("static.curve exact-zero samples interleaved", (long long)xx.size() - n);
    }

    const ld lo = T - W / 2, hi = T + W / 2;
    // regions are named by the nominal grid level (exact centi-dB), not by the level of the rounded sample
    auto region = [&](ld L) { return (W > 0 && L > lo && L < hi) ? "knee" : (L >= hi ? "above" : "below"); };
    std::vector<ld> nom(n);
    for (int i = 0; i < n; ++i) nom[i] = (ld)lv[i] / 1000.0L;
    std::set<std::string> reported;
    std::map<std::string, int> counts;
    auto report = [&](const std::string& sub, const std::string& reg, const std::string& obs, const std::string& exp, ld L) {
        std::string k = sub + "/" + reg;
        ++counts[k];
        if (reported.count(k)) return;
        reported.insert(k);
        ctx.fail(site, obs, exp, P().kv("sub", sub).kv("region", reg).kv("L", (double)L));
    };
    std::vector<ld> Lin(n), Lout(n);
    bool attenuated = false;
    for (int i = 0; i < n; ++i) {
        Lin[i] = level_db(x[i]);
        if (out[i] == 0.0 || !std::isfinite(out[i])) {
            report("curve", region(nom[i]), fmt("out=%.17g at %.4Lf dB", out[i], Lin[i]), "finite non-zero output", Lin[i]);
            Lout[i] = Lin[i];
            continue;
        }
        Lout[i] = level_db(out[i]);
        if ((out[i] < 0) != (x[i] < 0)) report("curve", region(nom[i]), fmt("sign flipped at %.4Lf dB", Lin[i]), "same sign", Lin[i]);
        const ld ref = static_out(limiter, T, R, W, Lin[i]);
        const ld d = fabsl(Lout[i] - ref);
        ctx.worst(std::string(region(nom[i])) == "knee" ? "static |dB err| in knee" : "static |dB err| outside knee", (double)d);
        if (d > 1e-6L)
            report("curve", region(nom[i]), fmt("%.6Lf dB out for %.4Lf dB in", Lout[i], Lin[i]), fmt("%.6Lf dB (documented law)", ref), Lin[i]);
        if (gain[i] < 1.0) attenuated = true;
    }
    // output-only oracles on adjacent grid points (ascending level order)
    for (int i = 0; i + 1 < n; ++i) {
        int a = sign > 0 ? i : i + 1, b = sign > 0 ? i + 1 : i;   // Lin[a] < Lin[b]
        const ld din = Lin[b] - Lin[a], dout = Lout[b] - Lout[a];
        std::string reg;
        if (nom[a] < hi && nom[b] >= hi && W > 0) reg = "knee_hi_edge";
        else if (nom[a] <= lo && nom[b] > lo && W > 0) reg = "knee_lo_edge";
        else reg = region(nom[b]);
        if (dout < -1e-6L)
            report("monotone", reg, fmt("%.6Lf dB at %.4Lf in, %.6Lf dB at %.4Lf in", Lout[a], Lin[a], Lout[b], Lin[b]), "non-decreasing output level", Lin[b]);
        if (dout > din + 1e-6L)
            report("continuity", reg, fmt("%.6Lf dB at %.4Lf in, %.6Lf dB at %.4Lf in", Lout[a], Lin[a], Lout[b], Lin[b]),
                   "output step <= input step (slope <= 1, no jump)", Lin[b]);
    }
    ctx.note(std::string("static.curve grid points"), n);
    if (attenuated) ctx.nontrivial();
}

// ---------------------------------------------------------------------------------------------- static.exact
// amplitudes a among the 200 doubles around db2mag(E) whose level, as the library computes it (mag2db(a + eps())), equals
// E bit-exactly: the branch conditions of the gain computers are evaluated exactly at their boundary
static std::vector<double> exact_hits(double E) {
    std::vector<double> h;
    const double c = dsplib::db2mag(E);
    double a = c;
    for (int i = 0; i <= 100; ++i) {
        if (dsplib::mag2db(a + dsplib::eps()) == E) h.push_back(a);
        a = std::nextafter(a, INFINITY);
    }
    a = std::nextafter(c, 0.0);
    for (int i = 0; i < 100; ++i) {
        if (dsplib::mag2db(a + dsplib::eps()) == E) h.push_back(a);
        a = std::nextafter(a, 0.0);
    }
    return h;
}

template<class Proc>
static void static_exact(Ctx& ctx, const char* site, Proc& proc, bool limiter, double T, int R, double W, double tr, bool count) {
    std::vector<double> edges = {T};
    if (W > 0) edges.push_back(T - W / 2), edges.push_back(T + W / 2);
    std::vector<double> x, out, gain;
    for (double E : edges) {
        const std::vector<double> h = exact_hits(E);
        if (count) ctx.note(fmt("static.exact: amplitudes with mag2db(a+eps) == %g dB exactly (T=%g W=%g)", E, T, W), (long long)h.size());
        for (double a : h)
            for (double v : {a, -a, a, 0.5 * a, a}) x.push_back(v);
    }
    if (x.empty()) {
        ctx.note("static.exact cases without an exact hit");
        return;
    }
    if (!run_framed(ctx, site, proc, x, out, gain, false)) return;
    if (!check_range(ctx, site, x, out, gain)) return;
    const double ceil_ = std::pow(10.0, T / 20.0);
    for (size_t i = 0; i < x.size(); ++i) {
        if (limiter && !(std::fabs(out[i]) <= ceil_ * (1 + 1e-9))) {
            ctx.fail(site, fmt("|out[%zu]| = %.17g for x = %.17g", i, std::fabs(out[i]), x[i]), fmt("<= 10^(T/20) = %.17g", ceil_), P().kv("sub", "ceiling").kv("i", (long long)i));
            return;
        }
        if (tr == 0) {
            const ld Lin = level_db(x[i]), ref = static_out(limiter, T, R, W, Lin);
            const ld d = out[i] != 0 ? fabsl(level_db(out[i]) - ref) : 1e30L;
            ctx.worst("static.exact |dB err| at exact breakpoints", (double)d);
            if (!(d <= 1e-6L)) {
                ctx.fail(site, fmt("out = %.17g for x = %.17g (level exactly at a breakpoint)", out[i], x[i]), fmt("%.6Lf dB (documented law)", ref), P().kv("sub", "curve").kv("i", (long long)i));
                return;
            }
        }
    }
    ctx.nontrivial();
}

// ---------------------------------------------------------------------------------------------- smooth.step
// one phase of a step history: gdb[first..last) after the level changed; g0 = dB gain before the phase
struct Phase {
    int first, last;
    ld target;   // static dB gain for the new level
    double t;    // configured time for this direction
};

// One-pole law toward a constant target G: (v[k+1] - G) / (v[k] - G) = w for every k.  The ratio is estimated as the median
// of the per-sample ratios over the samples whose distance to G is above 1e-6 of the step (v0 = value before the phase);
// the implied 10->90 % time is -ln 9 / (fs ln w).  spread = max |ratio - median| (recorded, not judged).
struct PoleEst {
    int n = 0;
    ld w = 0, spread = 0;
};
template<class V>
static PoleEst pole_est(const V* v, int n, ld v0, ld G) {
    PoleEst pe;
    const ld thr = 1e-6L * fabsl(v0 - G);
    std::vector<ld> r;
    ld prev = v0;
    for (int k = 0; k < n; ++k) {
        if (!(fabsl(prev - G) > thr)) break;
        r.push_back(((ld)v[k] - G) / (prev - G));
        prev = (ld)v[k];
    }
    pe.n = (int)r.size();
    if (r.empty()) return pe;
    std::vector<ld> q = r;
    std::nth_element(q.begin(), q.begin() + q.size() / 2, q.end());
    pe.w = q[q.size() / 2];
    for (ld x : r) pe.spread = std::max(pe.spread, fabsl(x - pe.w));
    return pe;
}
// judge the estimated time constant: within 2 % of the configured time (t = 0: the target is reached at once)
static bool check_pole(Ctx& ctx, const char* site, const PoleEst& pe, int fs, double t, const std::string& what, const P& detail) {
    if (pe.n == 0) return true;
    ctx.worst("one-pole ratio spread max|r_k - median|", (double)pe.spread);
    if (t == 0) {
        if (!(fabsl(pe.w) <= 1e-9L)) {
            ctx.fail(site, fmt("%s: per-sample ratio %.6Lg with a configured time of 0", what.c_str(), pe.w), "target reached on the first sample", detail);
            return false;
        }
        return true;
    }
    const ld test = (pe.w > 0 && pe.w < 1) ? -logl(9.0L) / ((ld)fs * logl(pe.w)) : (pe.w <= 0 ? 0.0L : 1e30L);
    const ld dev = fabsl(test / (ld)t - 1);
    ctx.worst("one-pole |t_est/t - 1| (allowed 0.02)", (double)dev);
    if (!(dev <= 0.02L)) {
        ctx.fail(site, fmt("%s: per-sample decay ratio %.9Lf over %d samples implies a 10%%->90%% time of %.6Lg s = %.4Lf samples", what.c_str(), pe.w, pe.n, test, test * fs),
                 fmt("configured %.6g s = fs*t = %.4f samples, within 2 %%", t, fs * t), detail);
        return false;
    }
    return true;
}

static void check_phase(Ctx& ctx, const char* site, const std::vector<ld>& g, ld g0, const Phase& ph, int fs, const char* name, int pidx) {
    const ld TOL = 1e-9L;
    const ld delta = ph.target - g0;
    if (fabsl(delta) < 1e-3L) return;   // no step
    const bool down = delta < 0;
    if (!check_pole(ctx, site, pole_est(g.data() + ph.first, ph.last - ph.first, g0, ph.target), fs, ph.t, fmt("%s phase %d", name, pidx),
                    P().kv("sub", "time_constant").kv("phase", pidx)))
        return;
    long long n10 = -1, n90 = -1;
    ld prev = g0;
    for (int k = ph.first; k < ph.last; ++k) {
        const ld v = g[k];
        const bool mono = down ? (v <= prev + TOL) : (v >= prev - TOL);
        const bool noover = down ? (v >= ph.target - TOL) : (v <= ph.target + TOL);
        if (!mono || !noover) {
            ctx.fail(site, fmt("%s phase %d: gain %.12Lf dB after %.12Lf dB at sample %d (target %.12Lf dB)", name, pidx, v, prev, k - ph.first + 1, ph.target),
                     mono ? "no overshoot of the static target" : "monotone move toward the static target",
                     P().kv("sub", mono ? "overshoot" : "monotone").kv("phase", pidx));
            return;
        }
        const ld frac = (v - g0) / delta;
        if (n10 < 0 && frac >= 0.1L) n10 = k - ph.first + 1;
        if (n90 < 0 && frac >= 0.9L) {
            n90 = k - ph.first + 1;
            break;
        }
        prev = v;
    }
    const double want = (double)fs * ph.t;
    if (n90 < 0) {
        ctx.fail(site, fmt("%s phase %d: 90%% of the step not reached within %d samples", name, pidx, ph.last - ph.first),
                 fmt("10%%->90%% in fs*t = %.1f samples", want), P().kv("sub", "time").kv("phase", pidx));
        return;
    }
    const double got = (double)(n90 - n10);
    const double slack = 1.0 + 0.01 * want;
    ctx.worst("smooth |n90-n10 - fs*t| / (1 + 1% fs*t)", std::fabs(got - want) / slack);
    if (std::fabs(got - want) > slack)
        ctx.fail(site, fmt("%s phase %d: 10%%->90%% took %.0f samples", name, pidx, got), fmt("fs*t = %.1f +- (1 + 1%%)", want),
                 P().kv("sub", "time").kv("phase", pidx));
    ctx.note(down ? "smooth phases attack" : "smooth phases release");
}

template<class Proc>
static void smooth_step(Ctx& ctx, const char* site, Proc& proc, bool limiter, double T, int R, double W, int fs, double ta, double tr, bool deep = false) {
    // levels outside the knee so that the target does not depend on the knee formula
    const double Llow = T - W / 2 - 6, Lh1 = std::min(20.0, T + W / 2 + 24), Lh2 = T + W / 2 + 8, Lh3 = std::min(20.0, T + W / 2 + 16);
    const int NA = (int)std::ceil(1.3 * fs * ta) + 16, NR = (int)std::ceil(1.3 * fs * tr) + 16;
    struct Seg {
        double L;
        int n;
    };
    std::vector<Seg> segs = {{Llow, 16}, {Lh1, NA}, {Lh2, NR}, {Lh1, NA}, {Llow, NR}};
    if (deep) {   // three more phases: attack from unity to a middle level, release to a lower level above the knee, release to unity
        segs.push_back({Lh3, NA});
        segs.push_back({Lh2, NR});
        segs.push_back({Llow, NR});
    }
    std::vector<double> x, out, gain;
    std::vector<int> start;
    for (auto& s : segs) {
        start.push_back((int)x.size());
        const double a = std::pow(10.0, s.L / 20.0);
        for (int i = 0; i < s.n; ++i) x.push_back(((x.size() / 3) & 1) ? -a : a);
    }
    start.push_back((int)x.size());
    if (!run_framed(ctx, site, proc, x, out, gain)) return;
    if (!check_range(ctx, site, x, out, gain)) return;
    std::vector<ld> g(x.size());
    for (size_t i = 0; i < x.size(); ++i) {
        if (!(gain[i] > 0)) {
            ctx.fail(site, fmt("gain[%zu]=%.17g", i, gain[i]), "positive gain", P().kv("sub", "range"));
            return;
        }
        g[i] = 20.0L * log10l((ld)gain[i]);
    }
    // segment 0: below the knee, gain must be exactly unity
    for (int i = 0; i < 16; ++i)
        if (gain[i] != 1.0) {
            ctx.fail(site, fmt("gain %.17g below the knee", gain[i]), "unity", P().kv("sub", "unity"));
            return;
        }
    auto tgt = [&](double L) {
        const ld Lin = level_db(std::pow(10.0, L / 20.0));
        return static_out(limiter, T, R, W, Lin) - Lin;
    };
    const ld t1 = tgt(Lh1), t2 = tgt(Lh2), t3 = tgt(Lh3);
    const ld targets[] = {0, t1, t2, t1, 0, t3, t2, 0};
    for (int s = 1; s < (int)segs.size(); ++s) {
        const ld g0 = g[start[s] - 1];
        Phase ph{start[s], start[s + 1], targets[s], targets[s] < g0 ? ta : tr};
        check_phase(ctx, site, g, g0, ph, fs, limiter ? "limiter" : "compressor", s);
    }
    if (t1 < -1e-3L) ctx.nontrivial();
}

// ---------------------------------------------------------------------------------------------- smooth.silence
// run x through the processor in the calls given by the segment boundaries `cuts` (calls == 1: one call)
template<class Proc>
static bool run_cuts(Ctx& ctx, const char* site, Proc& p, const std::vector<double>& x, const std::vector<int>& cuts, int calls, std::vector<double>& out,
                     std::vector<double>& gain) {
    const int n = (int)x.size();
    out.assign(n, 0);
    gain.assign(n, 0);
    std::vector<int> b = {0};
    if (calls > 1)
        for (int c : cuts)
            if (c > 0 && c < n) b.push_back(c);
    b.push_back(n);
    for (size_t s = 0; s + 1 < b.size(); ++s) {
        const int len = b[s + 1] - b[s];
        arr_real fr(len);
        for (int i = 0; i < len; ++i) fr[i] = x[b[s] + i];
        auto r = p.process(fr);
        if (r.out.size() != len || r.gain.size() != len) {
            ctx.fail(site, fmt("result sizes out=%d gain=%d", r.out.size(), r.gain.size()), fmt("%d", len));
            return false;
        }
        for (int i = 0; i < len; ++i) out[b[s] + i] = r.out[i], gain[b[s] + i] = r.gain[i];
    }
    return true;
}

// burst above the threshold | exact zeros for k release times | quiet tone below the threshold.
// Zero input is below the threshold, so the static target is 0 dB from the first zero sample on: the dB gain must
// release monotonically toward 0 dB with the configured time constant, through the silence and the tone alike.
template<class Proc>
static void smooth_silence(Ctx& ctx, const char* site, Proc& proc, bool limiter, double T, int R, double W, int fs, double ta, double tr, int k, int calls) {
    const double Lh = std::min(20.0, T + W / 2 + 24), Lt = T - W / 2 - 12;
    const int NB = (int)std::ceil(1.3 * fs * ta) + 16, NZ = (int)std::ceil((double)k * fs * tr), NT = (int)std::ceil(1.3 * fs * tr) + 16;
    std::vector<double> x, out, gain;
    const double ab = std::pow(10.0, Lh / 20.0), at = std::pow(10.0, Lt / 20.0);
    for (int i = 0; i < NB; ++i) x.push_back(((i / 3) & 1) ? -ab : ab);
    for (int i = 0; i < NZ; ++i) x.push_back(0.0);
    for (int i = 0; i < NT; ++i) x.push_back(at * std::sin(0.3 * i + 0.5));
    if (!run_cuts(ctx, site, proc, x, {NB, NB + NZ}, calls, out, gain)) return;
    if (!check_range(ctx, site, x, out, gain)) return;
    std::vector<ld> g(x.size());
    for (size_t i = 0; i < x.size(); ++i) {
        if (!(gain[i] > 0)) {
            ctx.fail(site, fmt("gain[%zu]=%.17g", i, gain[i]), "positive gain", P().kv("sub", "range"));
            return;
        }
        g[i] = 20.0L * log10l((ld)gain[i]);
    }
    const ld g0 = g[NB - 1];
    const ld Lin = level_db(ab);
    const ld tgt = static_out(limiter, T, R, W, Lin) - Lin;
    if (!(g0 < 0.5L * tgt)) {   // the burst must have attenuated (attack covered > 90 % by construction)
        ctx.fail(site, fmt("gain %.6Lf dB at the end of the burst", g0), fmt("close to the static gain %.6Lf dB", tgt), P().kv("sub", "attack"));
        return;
    }
    Phase ph{NB, (int)x.size(), 0.0L, tr};
    check_phase(ctx, site, g, g0, ph, fs, limiter ? "limiter silence" : "compressor silence", 1);
    // after t_release (+ the smooth.step slack) of silence the 10->90 % fraction of the step must be covered
    const int j = NB + (int)std::ceil(fs * tr + 1.0 + 0.01 * fs * tr) - 1;
    if (j < (int)x.size()) {
        const ld frac = (g[j] - g0) / (0.0L - g0);
        ctx.worst("silence: 0.8 - fraction released after t_release (must be <= 0)", (double)(0.8L - frac));
        if (!(frac >= 0.8L))
            ctx.fail(site, fmt("gain %.6Lf dB after %d samples of exact zeros (%.6Lf dB at the end of the burst): %.3Lf of the way to 0 dB", g[j], j - NB + 1, g0, frac),
                     fmt("first-order release toward 0 dB: >= 0.8 of the step after fs*t_release = %.1f samples (+1 +1%%)", fs * tr), P().kv("sub", "silence_release"));
    }
    // at the end (k + 1.3 release times) the gain must be back within 6 % of the step (1/9^2.3 = 0.6 %)
    {
        const ld frac = (g[x.size() - 1] - g0) / (0.0L - g0);
        if (!(frac >= 0.94L))
            ctx.fail(site, fmt("gain %.6Lf dB at the end of the quiet tone (%.3Lf of the way to 0 dB)", g[x.size() - 1], frac),
                     ">= 0.94 of the step after >= 2.3 release times", P().kv("sub", "silence_end"));
    }
    ctx.nontrivial();
}

// ---------------------------------------------------------------------------------------------- NoiseGate
static void gate_step(Ctx& ctx, int fs, double thr, double ta, double tr, double th) {
    const char* site = "NoiseGate.process";
    NoiseGate gate(fs, thr, ta, tr, th);
    const double hp = th * fs;
    const long long tH = (long long)std::floor(hp);
    const long long tHl = (long long)floorl((ld)th * (ld)fs);
    const bool ambiguous = tH != tHl;   // double product rounds across an integer: either count accepted
    if (ambiguous) ctx.note("gate hold count ambiguous in double (both accepted)");
    const double tl = std::pow(10.0, thr / 20.0);
    const double loud = tl * 2.0, quiet = tl * 0.5;
    const int NO = (int)std::ceil(1.3 * fs * tr) + 16, NC = (int)tH + (int)std::ceil(1.3 * fs * ta) + 16;
    // closed(16) | loud(NO) | quiet(NC) | loud(NO) | silence(NC)
    struct Seg {
        double a;
        int n;
    };
    const Seg segs[] = {{quiet, 16}, {loud, NO}, {quiet, NC}, {loud, NO}, {0.0, NC}};
    std::vector<double> x, out, gain;
    std::vector<int> start;
    for (auto& s : segs) {
        start.push_back((int)x.size());
        for (int i = 0; i < s.n; ++i) x.push_back(((x.size() / 5) & 1) ? -s.a : s.a);
    }
    start.push_back((int)x.size());
    if (!run_framed(ctx, site, gate, x, out, gain)) return;
    if (!check_range(ctx, site, x, out, gain)) return;
    for (int i = 0; i < 16; ++i)
        if (gain[i] != 0.0) {
            ctx.fail(site, fmt("gain %.17g on a fresh gate below the threshold", gain[i]), "0 (closed)", P().kv("sub", "closed"));
            return;
        }
    for (int s = 1; s < 5; ++s) {
        const bool opening = (s & 1);
        const double g0 = gain[start[s] - 1];
        int first = start[s];
        if (!opening) {
            // hold: the gain is frozen for exactly tH samples, then starts to fall
            long long held = 0;
            while (first + held < start[s + 1] && gain[first + held] == g0) ++held;
            bool ok = (held == tH) || (ambiguous && held == tHl);
            if (g0 == 0.0) ok = true;   // nothing to hold
            if (!ok) {
                ctx.fail(site, fmt("gain frozen for %lld samples after the level fell below the threshold", held),
                         fmt("floor(hold*fs) = %lld", tH), P().kv("sub", "hold").kv("phase", s));
                return;
            }
            ctx.note("gate hold phases checked");
            first += (int)held;
        }
        // from `first` on: one-pole toward 1 (opening, release time) or 0 (closing, attack time)
        const double target = opening ? 1.0 : 0.0, t = opening ? tr : ta;
        const double delta = target - g0;
        if (std::fabs(delta) < 1e-6) continue;
        if (!check_pole(ctx, site, pole_est(gain.data() + first, start[s + 1] - first, g0, target), fs, t, opening ? "gate opening" : "gate closing",
                        P().kv("sub", "time_constant").kv("phase", s)))
            return;
        long long n10 = -1, n90 = -1;
        double prev = g0;
        bool bad = false;
        for (int k = first; k < start[s + 1]; ++k) {
            const double v = gain[k];
            if (opening ? (v < prev) : (v > prev)) {
                ctx.fail(site, fmt("gain %.17g after %.17g while %s", v, prev, opening ? "opening" : "closing"), "monotone move toward the decision",
                         P().kv("sub", "monotone").kv("phase", s));
                bad = true;
                break;
            }
            const double frac = (v - g0) / delta;
            if (n10 < 0 && frac >= 0.1) n10 = k - first + 1;
            if (n90 < 0 && frac >= 0.9) {
                n90 = k - first + 1;
                break;
            }
            prev = v;
        }
        if (bad) return;
        const double want = fs * t, slack = 1.0 + 0.01 * want;
        if (n90 < 0) {
            ctx.fail(site, fmt("90%% of the gain step not reached within %d samples", start[s + 1] - first), fmt("fs*t = %.1f", want),
                     P().kv("sub", "time").kv("phase", s));
            return;
        }
        const double got = (double)(n90 - n10);
        ctx.worst("gate |n90-n10 - fs*t| / (1 + 1% fs*t)", std::fabs(got - want) / slack);
        if (std::fabs(got - want) > slack) {
            ctx.fail(site, fmt("10%%->90%% took %.0f samples (%s)", got, opening ? "opening" : "closing"), fmt("fs*t = %.1f +- (1 + 1%%)", want),
                     P().kv("sub", "time").kv("phase", s));
            return;
        }
        ctx.note(opening ? "gate opening phases timed" : "gate closing phases timed");
    }
    ctx.nontrivial();
}

// open the gate with a loud burst | exact zeros for hold + k attack times | quiet tone below the threshold:
// the gain is frozen for floor(hold*fs) samples, then closes with the attack time, through zeros and tone alike
static void gate_silence(Ctx& ctx, int fs, double thr, double ta, double tr, double th, int k, int calls) {
    const char* site = "NoiseGate.process";
    NoiseGate gate(fs, thr, ta, tr, th);
    const long long tH = (long long)std::floor(th * fs), tHl = (long long)floorl((ld)th * (ld)fs);
    const bool ambiguous = tH != tHl;
    const double tl = std::pow(10.0, thr / 20.0);
    const int NO = (int)std::ceil(1.3 * fs * tr) + 16, NZ = (int)tH + (int)std::ceil((double)k * fs * ta), NT = (int)std::ceil(1.3 * fs * ta) + 16;
    std::vector<double> x, out, gain;
    for (int i = 0; i < NO; ++i) x.push_back(((i / 5) & 1) ? -2.0 * tl : 2.0 * tl);
    for (int i = 0; i < NZ; ++i) x.push_back(0.0);
    for (int i = 0; i < NT; ++i) x.push_back(0.5 * tl * std::sin(0.3 * i + 0.5));
    if (!run_cuts(ctx, site, gate, x, {NO, NO + NZ}, calls, out, gain)) return;
    if (!check_range(ctx, site, x, out, gain)) return;
    const double g0 = gain[NO - 1];
    if (!(g0 >= 0.85)) {
        ctx.fail(site, fmt("gain %.17g after %d loud samples", g0, NO), ">= 0.85 (opened with the release time)", P().kv("sub", "open"));
        return;
    }
    long long held = 0;
    while (NO + held < (long long)x.size() && gain[NO + held] == g0) ++held;
    if (!(held == tH || (ambiguous && held == tHl))) {
        ctx.fail(site, fmt("gain frozen for %lld samples of exact zeros", held), fmt("floor(hold*fs) = %lld", tH), P().kv("sub", "hold"));
        return;
    }
    const int first = NO + (int)held;
    if (!check_pole(ctx, site, pole_est(gain.data() + first, (int)x.size() - first, g0, 0.0L), fs, ta, "gate closing through zeros", P().kv("sub", "time_constant"))) return;
    long long n10 = -1, n90 = -1;
    double prev = g0;
    for (int i = first; i < (int)x.size(); ++i) {
        if (gain[i] > prev) {
            ctx.fail(site, fmt("gain %.17g after %.17g while closing", gain[i], prev), "monotone move toward the decision", P().kv("sub", "monotone"));
            return;
        }
        const double frac = (g0 - gain[i]) / g0;
        if (n10 < 0 && frac >= 0.1) n10 = i - first + 1;
        if (n90 < 0 && frac >= 0.9) n90 = i - first + 1;
        prev = gain[i];
    }
    const double want = fs * ta, slack = 1.0 + 0.01 * want;
    if (n90 < 0 || std::fabs((double)(n90 - n10) - want) > slack) {
        ctx.fail(site, n90 < 0 ? fmt("90%% of the closing step not reached within %d samples", (int)x.size() - first) : fmt("10%%->90%% took %lld samples (closing through zeros)", n90 - n10),
                 fmt("fs*t = %.1f +- (1 + 1%%)", want), P().kv("sub", "time"));
        return;
    }
    const int j = first + (int)std::ceil(want + slack) - 1;
    if (j < (int)x.size()) {
        const double frac = (g0 - gain[j]) / g0;
        ctx.worst("gate silence: 0.8 - fraction closed after t_attack (must be <= 0)", 0.8 - frac);
        if (!(frac >= 0.8)) {
            ctx.fail(site, fmt("gain %.17g after hold + %d samples of exact zeros (%.3f of the way to 0)", gain[j], j - first + 1, frac),
                     ">= 0.8 of the step after hold + fs*t_attack (+1 +1%) samples", P().kv("sub", "silence_release"));
            return;
        }
    }
    ctx.note("gate.silence histories timed");
    ctx.nontrivial();
}

// documented gate law in long double: decision gc = (|x| >= threshold); gc above the gain: hold counter reset, one-pole rise with
// the release coefficient; gc below the gain: the gain is frozen for floor(hold*fs) samples, then one-pole fall with the attack
// coefficient.  Only used on histories in which a hold is never interrupted while the gain is exactly 1 (see assumptions).
static std::vector<ld> gate_ref(const std::vector<double>& x, int fs, double thr, double ta, double tr, double th) {
    const ld tl = powl(10.0L, (ld)thr / 20.0L);
    const ld wA = ta > 0 ? expl(-logl(9.0L) / ((ld)fs * (ld)ta)) : 0.0L, wR = tr > 0 ? expl(-logl(9.0L) / ((ld)fs * (ld)tr)) : 0.0L;
    const long long tH = (long long)std::floor(th * fs);
    std::vector<ld> g(x.size());
    ld lg = 0;
    long long cA = 0;
    for (size_t i = 0; i < x.size(); ++i) {
        const ld gc = fabsl((ld)x[i]) >= tl ? 1.0L : 0.0L;
        if (gc < lg) {
            if (cA < tH) ++cA;
            else lg = wA * lg + (1 - wA) * gc;
        } else if (gc > lg) {
            cA = 0;
            lg = wR * lg + (1 - wR) * gc;
        }
        g[i] = lg;
    }
    return g;
}
static bool gate_vs_ref(Ctx& ctx, const std::vector<double>& x, const std::vector<double>& gain, int fs, double thr, double ta, double tr, double th, const char* what) {
    const std::vector<ld> r = gate_ref(x, fs, thr, ta, tr, th);
    for (size_t i = 0; i < x.size(); ++i) {
        const ld d = fabsl((ld)gain[i] - r[i]);
        ctx.worst("gate vs reference recursion |gain - ref|", (double)d);
        if (!(d <= 1e-12L)) {
            ctx.fail("NoiseGate.process", fmt("%s: gain[%zu] = %.17g, documented hold/attack/release recursion gives %.17Lg", what, i, gain[i], r[i]), "|difference| <= 1e-12",
                     P().kv("sub", "reference").kv("i", (long long)i));
            return false;
        }
    }
    return true;
}

// bursts above the threshold shorter than the release time (the gate opens only partly) with hold > 0, separated by gaps
// shorter and longer than the hold; every sample against the reference recursion
static void gate_bursts(Ctx& ctx, int fs, double thr, double ta, double tr, double th, double bfrac) {
    const char* site = "NoiseGate.process";
    const long long tH = (long long)std::floor(th * fs);
    if (tH != (long long)floorl((ld)th * (ld)fs)) {
        ctx.note("gate.bursts: hold count ambiguous in double, configuration skipped");
        return;
    }
    NoiseGate gate(fs, thr, ta, tr, th);
    const double tl = std::pow(10.0, thr / 20.0);
    const int nb = std::max(1, (int)(bfrac * fs * tr)), gshort = std::max(1, (int)(tH / 2)), glong = (int)(2 * tH + 3 * fs * ta + 8);
    std::vector<double> x, out, gain;
    for (int i = 0; i < 7; ++i) x.push_back(0.4 * tl);
    for (int b = 0; b < 6; ++b) {
        for (int i = 0; i < nb; ++i) x.push_back(((i & 1) ? -1.0 : 1.0) * (1.5 + 0.1 * b) * tl);
        const int gap = (b % 3 == 1) ? gshort : glong;
        for (int i = 0; i < gap; ++i) x.push_back((b & 1) ? 0.0 : 0.3 * tl * lcg_val(25, i));
    }
    if (!run_framed(ctx, site, gate, x, out, gain)) return;
    if (!check_range(ctx, site, x, out, gain)) return;
    double gmax = 0;
    for (double v : gain) gmax = std::max(gmax, v);
    if (!(gmax < 1.0)) {
        ctx.note("gate.bursts: gate opened fully, not judged against the reference");
        return;
    }
    if (!gate_vs_ref(ctx, x, gain, fs, thr, ta, tr, th, "short bursts")) return;
    ctx.note("gate.bursts histories compared");
    ctx.nontrivial();
}

// ---------------------------------------------------------------------------------------------- long streams
static bool agc_bound(Ctx& ctx, const std::vector<double>& gain, double max_gain_db, const std::vector<double>* xin);
// run a processor over x in one call (frame = 0) or in frames
template<class Proc>
static bool run_frames(Ctx& ctx, const char* site, Proc& p, const std::vector<double>& x, int frame, std::vector<double>& out, std::vector<double>& gain) {
    std::vector<int> cuts;
    if (frame > 0)
        for (int c = frame; c < (int)x.size(); c += frame) cuts.push_back(c);
    return run_cuts(ctx, site, p, x, cuts, frame > 0 ? 2 : 1, out, gain);
}

// compressor / limiter reference: documented static gain of every sample (level of |x| + eps) smoothed by the one-pole
// attack / release recursion in the dB domain, long double
static std::vector<ld> dyn_ref(const std::vector<double>& x, bool limiter, double T, int R, double W, int fs, double ta, double tr) {
    const ld wA = ta > 0 ? expl(-logl(9.0L) / ((ld)fs * (ld)ta)) : 0.0L, wR = tr > 0 ? expl(-logl(9.0L) / ((ld)fs * (ld)tr)) : 0.0L;
    std::vector<ld> g(x.size());
    ld gs = 0;
    for (size_t i = 0; i < x.size(); ++i) {
        const ld L = 20.0L * log10l(fabsl((ld)x[i]) + (ld)EPS);
        const ld gc = static_out(limiter, T, R, W, L) - L;
        gs = gc <= gs ? wA * gs + (1 - wA) * gc : wR * gs + (1 - wR) * gc;
        g[i] = gs;
    }
    return g;
}

// stream letter for the dynamics processors: level-modulated noise with loud / quiet / exact-zero stretches placed so that
// releases, holds and silences span the samples 4096, 65 536 and 131 072
static std::vector<double> stream_letter(int n) {
    std::vector<double> x(n);
    for (int i = 0; i < n; ++i) {
        const int blk = i / 2500;
        double a;
        switch (blk % 4) {
        case 0: a = 2.0; break;
        case 1: a = 0.05; break;
        case 2: a = 0.5; break;
        default: a = (blk % 8 == 3) ? 0.0 : 0.002;
        }
        if (i >= 64000 && i < 67000) a = (i < 65000) ? 3.0 : 0.0;       // burst, then silence across 65 536
        if (i >= 130000 && i < 133000) a = (i < 131000) ? 3.0 : 0.001;   // burst, then quiet across 131 072
        x[i] = a * (0.3 + 0.7 * std::fabs(lcg_val(26, i))) * (lcg_val(27, i) < 0 ? -1 : 1);
    }
    return x;
}

template<class Proc>
static void dyn_stream(Ctx& ctx, const char* site, Proc& proc, bool limiter, double T, int R, double W, int fs, double ta, double tr, int frame, const std::vector<double>& x) {
    std::vector<double> out, gain;
    if (!run_frames(ctx, site, proc, x, frame, out, gain)) return;
    if (!check_range(ctx, site, x, out, gain)) return;
    const std::vector<ld> r = dyn_ref(x, limiter, T, R, W, fs, ta, tr);
    const double ceil_ = std::pow(10.0, T / 20.0);
    for (size_t i = 0; i < x.size(); ++i) {
        const ld gd = gain[i] > 0 ? 20.0L * log10l((ld)gain[i]) : -1e30L;
        const ld d = fabsl(gd - r[i]);
        ctx.worst("stream: compressor/limiter |dB gain - reference recursion|", (double)d);
        if (!(d <= 1e-9L)) {
            ctx.fail(site, fmt("sample %zu of the stream: gain %.12Lf dB, reference recursion %.12Lf dB", i, gd, r[i]), "|difference| <= 1e-9 dB", P().kv("sub", "reference").kv("i", (long long)i));
            return;
        }
        if (limiter && ta == 0 && !(std::fabs(out[i]) <= ceil_ * (1 + 1e-9))) {
            ctx.fail(site, fmt("|out[%zu]| = %.17g", i, std::fabs(out[i])), fmt("<= 10^(T/20) = %.17g", ceil_), P().kv("sub", "ceiling").kv("i", (long long)i));
            return;
        }
    }
    ctx.note("stream samples compared (compressor/limiter)", (long long)x.size());
    ctx.nontrivial();
}

static void gate_stream(Ctx& ctx, int frame, int n) {
    const char* site = "NoiseGate.process";
    const int fs = 8000;
    const double thr = -20, ta = 0.02, tr = 0.01, th = 0.125;   // hold = 1000 samples
    NoiseGate gate(fs, thr, ta, tr, th);
    const double tl = std::pow(10.0, thr / 20.0);
    std::vector<double> x(n), out, gain;
    for (int i = 0; i < n; ++i) {
        // open from 1000, close at 65 000 (hold 65 000..66 000 spans 65 536), open 100 000, close 130 500 (hold spans 131 072)
        const bool loud = (i >= 1000 && i < 65000) || (i >= 100000 && i < 130500);
        x[i] = (loud ? 2.0 * tl : 0.3 * tl * lcg_val(28, i)) * ((i / 7) & 1 ? -1 : 1);
    }
    if (!run_frames(ctx, site, gate, x, frame, out, gain)) return;
    if (!check_range(ctx, site, x, out, gain)) return;
    if (!gate_vs_ref(ctx, x, gain, fs, thr, ta, tr, th, "stream")) return;
    // the hold itself, from the outputs alone
    for (int c : {65000, 130500}) {
        int held = 0;
        while (c + held < n && gain[c + held] == gain[c - 1]) ++held;
        if (held != 1000) {
            ctx.fail(site, fmt("gain frozen for %d samples after the level fell below the threshold at sample %d", held, c), "floor(hold*fs) = 1000", P().kv("sub", "hold").kv("i", c));
            return;
        }
    }
    ctx.note("stream samples compared (gate)", n);
    ctx.nontrivial();
}

// Agc stream: constant-envelope levels switching at 65 000 and 131 000 so that the 1000-sample averaging window spans 65 536 and
// 131 072 during a transient; reference = exact sliding-window mean power + the documented log-domain loop, long double
template<class T>
static void agc_stream(Ctx& ctx, int frame, int n) {
    const double target = 1.0, maxg = 60.0, trise = 0.01, tfall = 0.01;
    const int avg = 1000;
    Agc agc(target, maxg, avg, trise, tfall);
    std::vector<T> x(n);
    std::vector<ld> p2(n);
    for (int i = 0; i < n; ++i) {
        // 1e-4 first (required gain 80 dB > max_gain: clamp episode), then steps up by 40 dB and down by at most 20 dB (a larger drop
        // leaves a rounding residue of the library's recurrent window sum above the 1e-9 tolerance; that residue is not judged here)
        const double A = i < 2000 ? 1e-4 : i < 30000 ? 0.01 : i < 65000 ? 1.0 : i < 100000 ? 0.1 : i < 131000 ? 1.0 : 0.1;
        if constexpr (std::is_same<T, cmplx_t>::value) x[i] = cmplx_t(A * std::cos(0.7 * i), A * std::sin(0.7 * i));
        else x[i] = lcg_val(29, i) < 0 ? -A : A;
        p2[i] = (ld)abs2(x[i]);
    }
    std::vector<double> gain(n), pw(n);
    for (int pos = 0; pos < n;) {
        const int len = frame > 0 ? std::min(frame, n - pos) : n;
        base_array<T> fr(len);
        for (int i = 0; i < len; ++i) fr[i] = x[pos + i];
        auto r = agc.process(fr);
        if (r.out.size() != len || r.gain.size() != len) {
            ctx.fail("Agc.process", fmt("result sizes out=%d gain=%d", r.out.size(), r.gain.size()), fmt("%d", len));
            return;
        }
        for (int i = 0; i < len; ++i) {
            gain[pos + i] = r.gain[i];
            const T e = x[pos + i] * r.gain[i];
            if (std::memcmp(&e, &r.out[i], sizeof(T)) != 0 && !(std::sqrt(abs2(r.out[i] - e)) <= 4 * EPS * std::sqrt(abs2(e)))) {
                ctx.fail("Agc.process", fmt("out[%d] is not x*gain", pos + i), "out = x*gain", P().kv("sub", "product").kv("i", pos + i));
                return;
            }
        }
        pos += len;
    }
    if (!agc_bound(ctx, gain, maxg, nullptr)) return;
    const ld tgt = logl((ld)target), mg = logl(powl(10.0L, (ld)maxg / 20.0L));
    ld g = 1.0L, acc = 0;
    for (int i = 0; i < n; ++i) {
        if (i % avg == 0) {   // exact restart of the window sum
            acc = 0;
            for (int j = std::max(0, i - avg + 1); j < i; ++j) acc += p2[j];
        } else if (i >= avg) acc -= p2[i - avg];
        acc += p2[i];
        const ld err = tgt - (logl(acc / avg + (ld)EPS) + 2 * g);
        g += (err > 1 ? (ld)trise : (ld)tfall) * err;
        if (g > mg) g = mg;
        const ld rel = fabsl((ld)gain[i] / expl(g) - 1);
        ctx.worst("stream: agc |gain / reference recursion - 1|", (double)rel);
        if (!(rel <= 1e-9L)) {
            ctx.fail("Agc.process", fmt("sample %d of the stream: gain %.17g, reference recursion %.17Lg", i, gain[i], expl(g)), "relative difference <= 1e-9", P().kv("sub", "reference").kv("i", i));
            return;
        }
    }
    ctx.note("stream samples compared (agc)", n);
    ctx.nontrivial();
}

static void gate_range(Ctx& ctx, int fs, double thr, double ta, double tr, double th, int let, int n) {
    const char* site = "NoiseGate.process";
    NoiseGate gate(fs, thr, ta, tr, th);
    std::vector<double> x = letter(let, n), out, gain;
    // scale the letter so that it straddles the threshold
    const double tl = std::pow(10.0, thr / 20.0);
    if (let != 1)
        for (auto& v : x) v *= tl;
    if (!run_framed(ctx, site, gate, x, out, gain)) return;
    if (!check_range(ctx, site, x, out, gain)) return;
    double prev = 0.0;
    long long opened = 0;
    for (int i = 0; i < n; ++i) {
        const double a = std::fabs(x[i]);
        const bool near = std::fabs(a - tl) <= 1e-9 * tl;   // decision not determined by the documentation: skip
        if (!near) {
            const bool open = a >= tl;
            if (open ? (gain[i] < prev) : (gain[i] > prev)) {
                ctx.fail(site, fmt("gain %.17g after %.17g at sample %d with |x| %s threshold", gain[i], prev, i, open ? ">=" : "<"),
                         "gain moves toward the gate decision (or holds)", P().kv("sub", "monotone").kv("i", i));
                return;
            }
            opened += open;
        }
        prev = gain[i];
    }
    ctx.note("gate.range samples above threshold", opened);
    if (opened > 0 && opened < n) ctx.nontrivial();
}

// ---------------------------------------------------------------------------------------------- Agc
template<class T>
static bool agc_run(Ctx& ctx, Agc& agc, const std::vector<T>& x, std::vector<double>& pw, std::vector<double>& gain) {
    const int n = (int)x.size();
    pw.assign(n, 0);
    gain.assign(n, 0);
    int pos = 0, f = 0;
    while (pos < n) {
        int len = std::min(FRAMES[f % 6], n - pos);
        ++f;
        base_array<T> fr(len);
        for (int i = 0; i < len; ++i) fr[i] = x[pos + i];
        auto r = agc.process(fr);
        if (r.out.size() != len || r.gain.size() != len) {
            ctx.fail("Agc.process", fmt("result sizes out=%d gain=%d", r.out.size(), r.gain.size()), fmt("%d", len));
            return false;
        }
        for (int i = 0; i < len; ++i) {
            pw[pos + i] = abs2(r.out[i]);
            gain[pos + i] = r.gain[i];
        }
        pos += len;
    }
    return true;
}

static bool agc_bound(Ctx& ctx, const std::vector<double>& gain, double max_gain_db, const std::vector<double>* xin) {
    const double lim = std::pow(10.0, max_gain_db / 20.0) * (1 + 1e-12);
    for (size_t i = 0; i < gain.size(); ++i)
        if (!(gain[i] <= lim && gain[i] >= 0)) {
            ctx.fail("Agc.process", fmt("gain[%zu]=%.17g", i, gain[i]), fmt("finite, 0 <= gain <= 10^(max_gain/20) = %.17g", lim / (1 + 1e-12)),
                     P().kv("sub", std::isnan(gain[i]) ? "nan" : "bound").kv("i", (long long)i).kv("x_is_zero", xin && (*xin)[i] == 0.0));
            return false;
        }
    return true;
}

// constant-envelope letters: 0 real +A, 1 real +-A (lcg sign), 2 complex A e^{j theta k}
static void agc_settle(Ctx& ctx, double target, double level_db_in, int avg, double maxg, int let, double trise, double tfall, int n) {
    Agc agc(target, maxg, avg, trise, tfall);
    const double A = std::pow(10.0, level_db_in / 20.0);
    std::vector<double> pw, gain;
    bool ok;
    if (let == 2) {
        std::vector<cmplx_t> x(n);
        for (int i = 0; i < n; ++i) x[i] = cmplx_t(A * std::cos(0.7 * i), A * std::sin(0.7 * i));
        ok = agc_run(ctx, agc, x, pw, gain);
    } else {
        std::vector<double> x(n);
        for (int i = 0; i < n; ++i) x[i] = (let == 1 && lcg_val(21, i) < 0) ? -A : A;
        ok = agc_run(ctx, agc, x, pw, gain);
    }
    if (!ok) return;
    if (!agc_bound(ctx, gain, maxg, nullptr)) return;
    const double req_db = 10.0 * std::log10(target / (A * A));   // required amplitude gain in dB (20 log10 g)
    if (req_db < maxg - 0.01) {
        ld acc = 0;
        const int m = 1000;
        for (int i = n - m; i < n; ++i) acc += pw[i];
        const double rel = (double)fabsl(acc / m / target - 1);
        ctx.worst("agc settled |P/target - 1|", rel);
        if (level_db_in <= -80) ctx.worst(fmt("agc settled |P/target - 1| at %.0f dBFS", level_db_in), rel);
        if (!(rel <= 0.01))
            ctx.fail("Agc.process", fmt("mean output power of the last %d samples = %.9g (required gain %.2f dB, max %.0f dB)", m, (double)(acc / m), req_db, maxg),
                     fmt("within 1%% of the target %.9g", target), P().kv("sub", "settle"));
        ctx.note("agc cases with required gain < max_gain");
        ctx.nontrivial();
    } else {
        ctx.note("agc cases limited by max_gain (bound only)");
    }
}

// silence, bursts and level switches: only "gain finite and <= max_gain on every sample" is demanded
//   0 silence   1 constant-envelope burst then silence   2 +30 dB / -50 dB constant-envelope blocks
//   3 amplitude-modulated bursts (lengths 2*avg + {0,1,3,5,17,333}, five amplitudes) each followed by exact silence
static const char* AGC_LET[] = {"silence", "burst", "levels", "modsilence"};
static void agc_bound_case(Ctx& ctx, double target, int avg, double maxg, int let, int n) {
    Agc agc(target, maxg, avg);
    std::vector<double> x(n, 0.0), pw, gain;
    if (let == 1) {   // loud, then silence, at a position not aligned with the averaging window
        for (int i = 0; i < n / 3 + 7; ++i) x[i] = (lcg_val(22, i) < 0 ? -1 : 1) * 31.6227766016838;
    } else if (let == 2) {
        int i = 0, b = 0;
        while (i < n) {
            int len = 37 + (int)(1500.0 * 0.5 * (lcg_val(23, b) + 1.0));
            double a = (b & 1) ? 0.00316227766016838 : 31.6227766016838;
            for (int k = 0; k < len && i < n; ++k, ++i) x[i] = (lcg_val(24, i) < 0 ? -a : a);
            ++b;
        }
    } else if (let == 3) {
        static const int offs[] = {0, 1, 3, 5, 17, 333};
        static const double amps[] = {12.345, 31.6227766016838, 0.777, 100.0, 3300.0};
        x.clear();
        for (int b = 0; b < 30; ++b) {
            const int n1 = 2 * avg + offs[b % 6], n0 = 3 * avg + 50;
            const double A = amps[b % 5];
            for (int i = 0; i < n1; ++i) x.push_back(A * (1 + 0.1 * std::sin(1.3 * i)) * ((i % 3) ? 1 : -1));
            for (int i = 0; i < n0; ++i) x.push_back(0.0);
        }
    }
    if (!agc_run(ctx, agc, x, pw, gain)) return;
    if (!agc_bound(ctx, gain, maxg, &x)) return;
    if (let) ctx.nontrivial();
}

// ---------------------------------------------------------------------------------------------- main
int main(int argc, char** argv) {
    Ctx ctx;
    ctx.parse(argc, argv, "C20");
    const bool TH = ctx.thorough();

    const double Ts[] = {-50, -30, -10, -3, 0};
    const std::vector<int> Rs = TH ? std::vector<int>{1, 2, 3, 5, 10, 50} : std::vector<int>{1, 2, 5, 50};
    const std::vector<double> Ws = TH ? std::vector<double>{0, 1, 3, 10, 20} : std::vector<double>{0, 1, 10, 20};
    const std::vector<int> FSs = TH ? std::vector<int>{8000, 44100, 192000} : std::vector<int>{8000, 192000};
    // dense grids of the thorough tier (static law, exact breakpoints)
    const std::vector<double> TsD = TH ? std::vector<double>{-50, -40, -30, -20, -10, -6, -3, -1, 0} : std::vector<double>{-50, -30, -10, -3, 0};
    const std::vector<int> RsD = TH ? std::vector<int>{1, 2, 3, 4, 5, 8, 10, 20, 50} : Rs;
    const std::vector<double> WsD = TH ? std::vector<double>{0, 0.5, 1, 3, 6, 10, 15, 20} : Ws;

    // ---- long streams (both tiers): 140 000 samples in one call and in frames of 1000 (thorough also 4097 and 65 536), every
    // sample against the reference recursion; holds, silences and averaging windows span samples 65 536 and 131 072
    {
        const int NSTR = 140000;
        const std::vector<int> frames = TH ? std::vector<int>{0, 1000, 4097, 65536} : std::vector<int>{0, 1000};
        std::vector<double> sx;
        for (int frame : frames) {
            for (int kind = 0; kind < 3; ++kind) {   // compressor soft knee, limiter zero attack, limiter with attack
                P p;
                p.kv("proc", kind == 0 ? "compressor" : kind == 1 ? "limiter" : "limiter_att").kv("samples", NSTR).kv("frame", frame);
                if (!ctx.take("stream", p)) continue;
                if (sx.empty()) sx = stream_letter(NSTR);
                if (kind == 0) {
                    Compressor c(48000, -20, 4, 6, 0.005, 0.05);
                    dyn_stream(ctx, "Compressor.process", c, false, -20, 4, 6, 48000, 0.005, 0.05, frame, sx);
                } else if (kind == 1) {
                    Limiter l(48000, -10, 3, 0, 0.1);
                    dyn_stream(ctx, "Limiter.process", l, true, -10, 1, 3, 48000, 0, 0.1, frame, sx);
                } else {
                    Limiter l(8000, -30, 0, 0.002, 0.3);
                    dyn_stream(ctx, "Limiter.process", l, true, -30, 1, 0, 8000, 0.002, 0.3, frame, sx);
                }
            }
            if (ctx.take("stream", P().kv("proc", "gate").kv("samples", NSTR).kv("frame", frame))) gate_stream(ctx, frame, NSTR);
            if (ctx.take("stream", P().kv("proc", "agc_real").kv("samples", NSTR).kv("frame", frame))) agc_stream<real_t>(ctx, frame, NSTR);
            if (ctx.take("stream", P().kv("proc", "agc_cmplx").kv("samples", NSTR).kv("frame", frame))) agc_stream<cmplx_t>(ctx, frame, NSTR);
        }
    }

    // ---- NoiseGate: bursts shorter than the release time with hold > 0, every sample against the reference recursion
    {
        const std::vector<double> thrs = TH ? std::vector<double>{-140, -80, -40, -20, 0} : std::vector<double>{-40, 0};
        const std::vector<double> tas = TH ? std::vector<double>{0, 1e-4, 1e-3, 0.01, 0.05} : std::vector<double>{0, 1e-3, 0.01};
        const std::vector<double> trs = TH ? std::vector<double>{1e-3, 0.01, 0.05, 0.2} : std::vector<double>{0.01, 0.05};
        const std::vector<double> ths = TH ? std::vector<double>{1e-4, 1e-3, 0.01, 0.05, 0.2} : std::vector<double>{1e-3, 0.01, 0.05};
        for (double thr : thrs)
            for (int fs : FSs)
                for (double ta : tas)
                    for (double tr : trs)
                        for (double th : ths)
                            for (double bf : {0.0, 0.1, 0.5, 0.9}) {
                                if (!ctx.take("gate.bursts", P().kv("thr", thr).kv("fs", fs).kv("att", ta).kv("rel", tr).kv("hold", th).kv("burst_rel", bf))) continue;
                                gate_bursts(ctx, fs, thr, ta, tr, th, bf);
                            }
    }

    // ---- static law, attack = release = 0
    for (int kind = 0; kind < 2; ++kind)   // 0 compressor, 1 limiter
        for (double T : TsD)
            for (int R : RsD) {
                if (kind == 1 && R != 1) continue;
                for (double W : WsD)
                    for (int fs : FSs)
                        for (int sign : {1, -1}) {
                            P p;
                            p.kv("kind", kind ? "limiter" : "compressor").kv("T", T);
                            if (!kind) p.kv("R", R);
                            p.kv("W", W).kv("fs", fs).kv("sign", sign);
                            if (!ctx.take("static.curve", p)) continue;
                            if (kind == 0) {
                                Compressor c(fs, T, R, W, 0, 0);
                                static_curve(ctx, "Compressor.process", c, false, T, R, W, sign, TH);
                                ctx.note(fmt("static compressor R=%d W%s0", R, W > 0 ? ">" : "="));
                            } else {
                                Limiter l(fs, T, W, 0, 0);
                                static_curve(ctx, "Limiter.process", l, true, T, 1, W, sign, TH);
                                ctx.note(fmt("static limiter W%s0", W > 0 ? ">" : "="));
                            }
                        }
            }

    // ---- static law with many differently configured processors alive at once: levels looped outside, processors inside,
    //      one sample per call.  Each processor must follow ITS OWN documented law and be bit-identical to a processor of
    //      the same configuration driven alone with the same samples (the gain computer owns no state shared between objects).
    {
        struct Cfg { int kind; double T; int R; double W; };
        std::vector<Cfg> cfgs;
        for (int kind = 0; kind < 2; ++kind)
            for (double T : TsD)
                for (int R : RsD) {
                    if (kind == 1 && R != 1) continue;
                    for (double W : WsD) cfgs.push_back({kind, T, R, W});
                }
        for (int order = 0; order < 2; ++order) {   // 0: ascending levels, 1: descending
            if (!ctx.take("static.together", P().kv("processors", (long long)cfgs.size()).kv("order", order ? "descending" : "ascending"))) continue;
            std::vector<double> xs;
            for (long long c = -100000; c <= 20000; c += 500) {
                double a = (double)powl(10.0L, (ld)c / 20000.0L);
                xs.push_back(((c / 500) & 1) ? -a : a);
            }
            if (order) std::reverse(xs.begin(), xs.end());
            std::vector<std::unique_ptr<Compressor>> cs(cfgs.size()), cs1(cfgs.size());
            std::vector<std::unique_ptr<Limiter>> ls(cfgs.size()), ls1(cfgs.size());
            for (size_t k = 0; k < cfgs.size(); ++k) {
                const Cfg& c = cfgs[k];
                if (c.kind == 0) cs[k] = std::make_unique<Compressor>(8000, c.T, c.R, c.W, 0, 0), cs1[k] = std::make_unique<Compressor>(8000, c.T, c.R, c.W, 0, 0);
                else ls[k] = std::make_unique<Limiter>(8000, c.T, c.W, 0, 0), ls1[k] = std::make_unique<Limiter>(8000, c.T, c.W, 0, 0);
            }
            // together: level outside, processor inside
            std::vector<std::vector<double>> tog(cfgs.size()), solo(cfgs.size());
            for (double x : xs)
                for (size_t k = 0; k < cfgs.size(); ++k) {
                    arr_real fr(1);
                    fr[0] = x;
                    tog[k].push_back(cfgs[k].kind == 0 ? cs[k]->process(fr).out[0] : ls[k]->process(fr).out[0]);
                }
            // solo: processor outside, level inside (fresh objects)
            for (size_t k = 0; k < cfgs.size(); ++k)
                for (double x : xs) {
                    arr_real fr(1);
                    fr[0] = x;
                    solo[k].push_back(cfgs[k].kind == 0 ? cs1[k]->process(fr).out[0] : ls1[k]->process(fr).out[0]);
                }
            int reported = 0;
            bool attenuated = false;
            for (size_t k = 0; k < cfgs.size() && reported < 3; ++k) {
                const Cfg& c = cfgs[k];
                const char* site = c.kind ? "Limiter.process" : "Compressor.process";
                for (size_t i = 0; i < xs.size(); ++i) {
                    ++ctx.evaluations;
                    ++ctx.checks["static.together"].evals;
                    const ld Lin = level_db(xs[i]);
                    const ld ref = static_out(c.kind == 1, c.T, c.R, c.W, Lin);
                    const ld Lo = tog[k][i] == 0.0 ? -1e9L : level_db(tog[k][i]);
                    if (ref < Lin - 1e-9L) attenuated = true;
                    if (tog[k][i] != solo[k][i] || !(fabsl(Lo - ref) <= 1e-6L)) {
                        ++reported;
                        ctx.fail(site,
                                 fmt("T=%g R=%d W=%g among %zu live processors, %.4Lf dB in: %.6Lf dB out (alone: %.6Lf dB)", c.T, c.R, c.W, cfgs.size(), Lin, Lo,
                                     solo[k][i] == 0.0 ? -1e9L : level_db(solo[k][i])),
                                 fmt("%.6Lf dB (documented law), bit-identical to the processor driven alone", ref),
                                 P().kv("sub", "together").kv("T", c.T).kv("R", c.R).kv("W", c.W).kv("L", (double)Lin));
                        break;
                    }
                }
            }
            if (attenuated) ctx.nontrivial();
            ctx.note("static.together processors alive at once", (long long)cfgs.size());
        }
    }

    // ---- exact breakpoints: samples whose computed level equals T, T-W/2, T+W/2 bit-exactly (zero attack; release 0 and 0.2 s)
    for (int kind = 0; kind < 3; ++kind)   // 0 compressor R=1, 1 compressor R=5, 2 limiter
        for (double T : TsD)
            for (double W : WsD)
                for (double tr : {0.0, 0.2}) {
                    P p;
                    p.kv("kind", kind == 2 ? "limiter" : "compressor").kv("T", T);
                    if (kind < 2) p.kv("R", kind ? 5 : 1);
                    p.kv("W", W).kv("rel", tr);
                    if (!ctx.take("static.exact", p)) continue;
                    if (kind < 2) {
                        Compressor c(8000, T, kind ? 5 : 1, W, 0, tr);
                        static_exact(ctx, "Compressor.process", c, false, T, kind ? 5 : 1, W, tr, false);
                    } else {
                        Limiter l(8000, T, W, 0, tr);
                        static_exact(ctx, "Limiter.process", l, true, T, 1, W, tr, tr == 0);
                    }
                }

    // ---- gain range / ceiling on signal letters, all attack x release combinations
    const std::vector<double> TAR = TH ? std::vector<double>{0, 1e-4, 1e-3, 0.2, 4} : std::vector<double>{0, 1e-3, 0.2, 4};
    const int NS = TH ? 100000 : 10000;
    std::vector<std::vector<double>> lets(NLET);
    for (int kind = 0; kind < 2; ++kind)
        for (double T : Ts)
            for (int R : Rs) {
                if (kind == 1 && R != 1) continue;
                for (double W : Ws)
                    for (int fs : FSs)
                        for (double ta : TAR)
                            for (double tr : TAR)
                                for (int let = 0; let < NLET; ++let) {
                                    P p;
                                    p.kv("kind", kind ? "limiter" : "compressor").kv("T", T);
                                    if (!kind) p.kv("R", R);
                                    p.kv("W", W).kv("fs", fs).kv("att", ta).kv("rel", tr).kv("letter", LETTERS[let]);
                                    if (!ctx.take("gain.range", p)) continue;
                                    if (lets[let].empty()) lets[let] = letter(let, NS);
                                    const std::vector<double>& x = lets[let];
                                    std::vector<double> out, gain;
                                    const char* site = kind ? "Limiter.process" : "Compressor.process";
                                    bool ok;
                                    if (kind == 0) {
                                        Compressor c(fs, T, R, W, ta, tr);
                                        ok = run_framed(ctx, site, c, x, out, gain);
                                    } else {
                                        Limiter l(fs, T, W, ta, tr);
                                        ok = run_framed(ctx, site, l, x, out, gain);
                                    }
                                    if (!ok || !check_range(ctx, site, x, out, gain)) continue;
                                    double gmin = 1;
                                    for (double g : gain) gmin = std::min(gmin, g);
                                    if (gmin < 1) ctx.nontrivial();
                                    ctx.note(gmin < 1 ? "gain.range cases with attenuation" : "gain.range cases without attenuation");
                                    if (kind == 1 && ta == 0) {
                                        const double ceil_ = std::pow(10.0, T / 20.0);
                                        double worst = 0;
                                        size_t wi = 0;
                                        for (size_t i = 0; i < out.size(); ++i)
                                            if (std::fabs(out[i]) > worst) worst = std::fabs(out[i]), wi = i;
                                        ctx.worst("limiter (att=0) max |out| / 10^(T/20) - 1", worst / ceil_ - 1);
                                        ctx.note("limiter ceiling cases");
                                        if (!(worst <= ceil_ * (1 + 1e-9)))
                                            ctx.fail(site, fmt("|out[%zu]| = %.17g for x = %.17g", wi, worst, x[wi]),
                                                     fmt("<= 10^(T/20) = %.17g", ceil_), P().kv("sub", "ceiling").kv("i", (long long)wi));
                                    }
                                }
            }

    // ---- smoothing: level steps up and down
    {
        const std::vector<double> TT = TH ? std::vector<double>{0, 1e-4, 1e-3, 0.01, 0.2, 4} : std::vector<double>{0, 1e-3, 0.01, 0.2, 4};
        const std::vector<double> sT = TH ? std::vector<double>{-40, -30, -20, -10, -3} : std::vector<double>{-30, -10};
        const std::vector<int> sR = TH ? std::vector<int>{2, 3, 5, 10, 50} : std::vector<int>{2, 5, 50};
        const std::vector<double> sW = TH ? std::vector<double>{0, 3, 10, 20} : std::vector<double>{0, 10};
        auto core = [](double T, int R, double W) { return (T == -30 || T == -10) && (R == 2 || R == 5 || R == 50) && (W == 0 || W == 10); };
        for (int kind = 0; kind < 2; ++kind)
            for (double T : sT)
                for (int R : sR) {
                    if (kind == 1 && R != 2) continue;
                    for (double W : sW)
                        for (int fs : FSs)
                            for (int frac = 0; frac < 6; ++frac) {
                                // small fractional fs*t (attack = release): a time rounded to whole samples is visible in the decay ratio
                                static const double FR[] = {1.5, 1.92, 2.5, 3.3, 7.7, 10.5};
                                const double t = FR[frac] / fs;
                                P p;
                                p.kv("kind", kind ? "limiter" : "compressor").kv("T", T);
                                if (!kind) p.kv("R", R);
                                p.kv("W", W).kv("fs", fs).kv("fs_t", FR[frac]);
                                if (!ctx.take("smooth.step", p)) continue;
                                if (kind == 0) {
                                    Compressor c(fs, T, R, W, t, t);
                                    smooth_step(ctx, "Compressor.process", c, false, T, R, W, fs, t, t, TH);
                                } else {
                                    Limiter l(fs, T, W, t, t);
                                    smooth_step(ctx, "Limiter.process", l, true, T, 1, W, fs, t, t, TH);
                                }
                            }
                    for (double W : sW)
                        for (int fs : FSs)
                            for (double ta : TT)
                                for (double tr : TT) {
                                    if (!TH && fs == 192000 && (ta > 0.2 || tr > 0.2)) continue;   // quick: no 4 s at 192 kHz
                                    // thorough: 4 s time constants above 8 kHz only on the core configurations (cost)
                                    if (TH && fs > 8000 && (ta > 0.2 || tr > 0.2) && !core(T, R, W)) continue;
                                    P p;
                                    p.kv("kind", kind ? "limiter" : "compressor").kv("T", T);
                                    if (!kind) p.kv("R", R);
                                    p.kv("W", W).kv("fs", fs).kv("att", ta).kv("rel", tr);
                                    if (!ctx.take("smooth.step", p)) continue;
                                    if (kind == 0) {
                                        Compressor c(fs, T, R, W, ta, tr);
                                        smooth_step(ctx, "Compressor.process", c, false, T, R, W, fs, ta, tr, TH);
                                    } else {
                                        Limiter l(fs, T, W, ta, tr);
                                        smooth_step(ctx, "Limiter.process", l, true, T, 1, W, fs, ta, tr, TH);
                                    }
                                }
                }
    }

    // ---- smoothing through digital silence: burst | exact zeros for k release times | quiet tone; one call and three calls
    const std::vector<double> zT = TH ? std::vector<double>{-40, -30, -20, -10} : std::vector<double>{-30, -10};
    const std::vector<int> zR = TH ? std::vector<int>{2, 5, 10, 50} : std::vector<int>{2, 5, 50};
    const std::vector<double> zW = TH ? std::vector<double>{0, 3, 10} : std::vector<double>{0, 10};
    const std::vector<int> zF = TH ? std::vector<int>{8000, 44100, 192000} : std::vector<int>{8000, 192000};
    const std::vector<double> zA = TH ? std::vector<double>{0, 1e-3, 0.01} : std::vector<double>{0, 0.01};
    const std::vector<double> zRl = TH ? std::vector<double>{1e-3, 0.01, 0.05, 0.2} : std::vector<double>{1e-3, 0.01, 0.2};
    for (int kind = 0; kind < 2; ++kind)
        for (double T : zT)
            for (int R : zR) {
                if (kind == 1 && R != 2) continue;
                for (double W : zW)
                    for (int fs : zF)
                        for (double ta : zA)
                            for (double tr : zRl)
                                for (int k : {1, 5, 50})
                                    for (int calls : {1, 3}) {
                                        P p;
                                        p.kv("kind", kind ? "limiter" : "compressor").kv("T", T);
                                        if (!kind) p.kv("R", R);
                                        p.kv("W", W).kv("fs", fs).kv("att", ta).kv("rel", tr).kv("k", k).kv("calls", calls);
                                        if (!ctx.take("smooth.silence", p)) continue;
                                        if (kind == 0) {
                                            Compressor c(fs, T, R, W, ta, tr);
                                            smooth_silence(ctx, "Compressor.process", c, false, T, R, W, fs, ta, tr, k, calls);
                                        } else {
                                            Limiter l(fs, T, W, ta, tr);
                                            smooth_silence(ctx, "Limiter.process", l, true, T, 1, W, fs, ta, tr, k, calls);
                                        }
                                    }
            }
    const std::vector<double> gsT = TH ? std::vector<double>{-140, -80, -40, -20, 0} : std::vector<double>{-40, 0};
    const std::vector<double> gsA = TH ? std::vector<double>{1e-4, 1e-3, 0.01, 0.05} : std::vector<double>{1e-3, 0.05};
    const std::vector<double> gsR = TH ? std::vector<double>{0, 1e-3, 0.01} : std::vector<double>{0, 1e-3};
    const std::vector<double> gsH = TH ? std::vector<double>{0, 1e-4, 1e-3, 0.05, 0.5} : std::vector<double>{0, 1e-3, 0.05};
    for (double thr : gsT)
        for (int fs : zF)
            for (double ta : gsA)
                for (double tr : gsR)
                    for (double th : gsH)
                        for (int k : {1, 5, 50})
                            for (int calls : {1, 3}) {
                                if (!ctx.take("gate.silence", P().kv("thr", thr).kv("fs", fs).kv("att", ta).kv("rel", tr).kv("hold", th).kv("k", k).kv("calls", calls))) continue;
                                gate_silence(ctx, fs, thr, ta, tr, th, k, calls);
                            }

    // ---- NoiseGate, small fractional fs*t
    for (double thr : {-140.0, -40.0, 0.0})
        for (int fs : FSs)
            for (double fr : {1.5, 1.92, 2.5, 3.3, 7.7, 10.5})
                for (double th : {0.0, 1e-3}) {
                    if (!ctx.take("gate.step", P().kv("thr", thr).kv("fs", fs).kv("fs_t", fr).kv("hold", th))) continue;
                    gate_step(ctx, fs, thr, fr / fs, fr / fs, th);
                }

    // ---- NoiseGate
    {
        const std::vector<double> GT = TH ? std::vector<double>{0, 1e-4, 1e-3, 0.01, 0.05, 0.5} : std::vector<double>{0, 1e-3, 0.05};
        const std::vector<double> gT = TH ? std::vector<double>{-140, -80, -40, -20, 0} : std::vector<double>{-140, -40, 0};
        for (double thr : gT)
            for (int fs : FSs)
                for (double ta : GT)
                    for (double tr : GT)
                        for (double th : GT) {
                            P p;
                            p.kv("thr", thr).kv("fs", fs).kv("att", ta).kv("rel", tr).kv("hold", th);
                            if (ctx.take("gate.step", p)) gate_step(ctx, fs, thr, ta, tr, th);
                            for (int let = 0; let < NLET; ++let) {
                                P q = p;
                                q.kv("letter", LETTERS[let]);
                                if (ctx.take("gate.range", q)) gate_range(ctx, fs, thr, ta, tr, th, let, NS);
                            }
                        }
    }

    // ---- Agc
    {
        const int NSET = 20000;
        struct TT {
            double r, f;
        };
        const TT steps[] = {{0.01, 0.01}, {0.1, 0.002}};
        const std::vector<double> aT = TH ? std::vector<double>{0.001, 0.01, 0.1, 1.0, 10.0, 100.0} : std::vector<double>{0.01, 1.0, 100.0};
        const std::vector<int> aA = TH ? std::vector<int>{1, 2, 10, 100, 1000, 5000} : std::vector<int>{1, 10, 100, 1000};
        const std::vector<double> aM = TH ? std::vector<double>{6, 20, 60, 140} : std::vector<double>{20, 60, 140};
        for (double target : aT)
            // absolute input amplitude 1e-5 .. 10 (-100 .. +20 dBFS); max_gain 140 dB keeps the required gain
            // (<= 120 dB for target 100 at -100 dBFS) below max_gain for every (target, amplitude) pair
            for (int lv = -100; lv <= 20; lv += (TH ? 5 : 10))
                for (int avg : aA)
                    for (double maxg : aM)
                        for (int let = 0; let < 3; ++let)
                            for (int st = 0; st < (TH ? 2 : 1); ++st) {
                                if (!ctx.take("agc.settle", P().kv("target", target).kv("level_db", lv).kv("avg", avg).kv("max_gain", maxg)
                                                                .kv("letter", let == 0 ? "const" : let == 1 ? "pm" : "cexp")
                                                                .kv("t_rise", steps[st].r).kv("t_fall", steps[st].f)))
                                    continue;
                                agc_settle(ctx, target, lv, avg, maxg, let, steps[st].r, steps[st].f, NSET);
                            }
        for (double target : aT)
            for (int avg : {1, 2, 3, 7, 10, 100, 1000})
                for (double maxg : aM)
                    for (int let = 0; let < 4; ++let) {
                        if (!ctx.take("agc.bound", P().kv("target", target).kv("avg", avg).kv("max_gain", maxg).kv("letter", AGC_LET[let]))) continue;
                        agc_bound_case(ctx, target, avg, maxg, let, NSET);
                    }
    }
    return ctx.finish();
}
