// C05 - no call corrupts memory or hangs: misuse is reported by exception.
// Engine E4 (forkbox): a hand-written catalogue of the public call forms of include/dsplib/*.h, each with a small
// boundary-directed argument grid (lengths {0,1,2,3,n-1,n,n+1,2n} relative to the expected length, index lists over
// {-n-1..n+2}, slice right-hand sides of every length, two-step "construct, then call with another length" programs).
// Every case is executed in a forked child of the ASan+UBSan build (NDEBUG as shipped); outcome must be "returned" or
// "C++ exception".  Cases of one call form share a child until one dies; the child is then restarted after that case.
#include "vf_fork.hpp"
#include "ma-filter.h"
#include <sstream>

using namespace vf;
using namespace dsplib;

struct Case {
    std::string form, args;
    std::function<void()> fn;
};
static std::vector<Case> g_cases;
static volatile double g_sink;

static void keep(const arr_real& a) {
    double s = 0;
    for (int i = 0; i < a.size(); ++i) s += a[i];
    g_sink = s;
}
static void keep(const arr_cmplx& a) {
    double s = 0;
    for (int i = 0; i < a.size(); ++i) s += a[i].re + a[i].im;
    g_sink = s;
}
static void keep(const arr_int& a) {
    double s = 0;
    for (int i = 0; i < a.size(); ++i) s += a[i];
    g_sink = s;
}
static void keep(double v) { g_sink = v; }
static void keep(cmplx_t v) { g_sink = v.re + v.im; }
static void keep(const std::vector<bool>& v) { g_sink = (double)v.size() + (v.empty() ? 0 : (double)v[v.size() - 1]); }
static void keep(const std::vector<arr_cmplx>& v) {
    for (auto& a : v) keep(a);
}
static void keep(const std::vector<arr_real>& v) {
    for (auto& a : v) keep(a);
}

static arr_real R(int n, int tag = 0) {
    arr_real x(n);
    for (int i = 0; i < n; ++i) x[i] = 0.25 + lcg_val(70 + (uint64_t)tag, (uint64_t)i);
    return x;
}
static arr_cmplx X(int n, int tag = 0) {
    arr_cmplx x(n);
    for (int i = 0; i < n; ++i) x[i] = cmplx_t(lcg_val(80 + (uint64_t)tag, (uint64_t)i), lcg_val(90 + (uint64_t)tag, (uint64_t)i));
    return x;
}
// lengths {0,1,2,3,n-1,n,n+1,2n}
static std::vector<int> lens(int n) {
    std::set<int> s{0, 1, 2, 3, n - 1, n, n + 1, 2 * n};
    std::vector<int> v;
    for (int x : s)
        if (x >= 0) v.push_back(x);
    return v;
}

#define ADD(form, argstr, ...) g_cases.push_back(Case{form, argstr, [=]() { __VA_ARGS__; }})

static void build_catalogue() {
    // ======================================================================== array.h
    for (int n : {1, 2, 5}) {
        // index lists with entries from {-n-1, -n, -1, 0, n-1, n, n+2}, length 0..2
        std::vector<int> vals{-n - 1, -n, -1, 0, n - 1, n, n + 2};
        ADD("array[vector<int>]", fmt("n=%d idx=[]", n), keep(R(n)[std::vector<int>{}]));
        ADD("cmplx array[vector<int>]", fmt("n=%d idx=[]", n), keep(X(n)[std::vector<int>{}]));
        ADD("array[arr_int]", fmt("n=%d idx=[]", n), keep(R(n)[arr_int()]));
        for (int a : vals) {
            ADD("array[vector<int>]", fmt("n=%d idx=[%d]", n, a), keep(R(n)[std::vector<int>{a}]));
            ADD("cmplx array[vector<int>]", fmt("n=%d idx=[%d]", n, a), keep(X(n)[std::vector<int>{a}]));
            ADD("array[arr_int]", fmt("n=%d idx=[%d]", n, a), keep(R(n)[arr_int(std::vector<int>{a})]));
            for (int b : vals) ADD("array[vector<int>]", fmt("n=%d idx=[%d,%d]", n, a, b), keep(R(n)[std::vector<int>{a, b}]));
        }
        for (int m : {n - 1, n, n + 1}) {
            ADD("array[vector<bool>]", fmt("n=%d mask=%d", n, m), keep(R(n)[std::vector<bool>((size_t)m, true)]));
            ADD("cmplx array[vector<bool>]", fmt("n=%d mask=%d", n, m), keep(X(n)[std::vector<bool>((size_t)m, true)]));
        }
    }
    // ---- an object used as its own operand / source (self-concatenation, self-assignment, moved-from objects, swap)
    for (int n : {0, 1, 2, 5, 64, 1000}) {
        std::string a = fmt("n=%d", n);
        ADD("self: a |= a", a, arr_real t = R(n); t |= t; keep(t));
        ADD("self: cmplx a |= a", a, arr_cmplx t = X(n); t |= t; keep(t));
        ADD("self: a |= a twice", a, arr_real t = R(n); t |= t; t |= t; keep(t));
        ADD("self: a | a", a, arr_real t = R(n); keep(t | t));
        ADD("self: concatenate(a,a,a)", a, arr_real t = R(n); keep(concatenate(t, t, t)));
        ADD("self: a = a", a, arr_real t = R(n); arr_real& u = t; t = u; keep(t));
        ADD("self: a = std::move(a)", a, arr_real t = R(n); arr_real& u = t; t = std::move(u); keep(t));
        ADD("self: moved-from array reused", a, arr_real t = R(n); arr_real v = std::move(t); t = R(n, 1); t |= v; keep(t); keep(v));
        ADD("self: moved-from array read", a, arr_real t = R(n); arr_real v = std::move(t); keep((double)t.size()); keep(t + t); keep(v));
        ADD("self: swap", a, arr_real t = R(n); arr_real v = R(n + 1, 1); std::swap(t, v); keep(t); keep(v));
        ADD("self: a += a / a *= a", a, arr_real t = R(n); t += t; t *= t; t -= t; keep(t));
        ADD("self: cmplx a /= a", a, arr_cmplx t = X(n); t += cmplx_t(2, 1); t /= t; keep(t));
        ADD("self: a = a | a", a, arr_real t = R(n); t = t | t; keep(t));
        ADD("self: a = a[idx of a]", a, arr_real t = R(n); std::vector<int> ix; for (int i = n - 1; i >= 0; --i) ix.push_back(i); t = t[ix]; keep(t));
        if (n >= 2) {
            ADD("self: a.slice = a.slice (same range)", a, arr_real t = R(n); t.slice(0, n) = t.slice(0, n); keep(t));
            ADD("self: a = a.slice", a, arr_real t = R(n); t = t.slice(0, n - 1); keep(t));
            ADD("self: a |= a.slice", a, arr_real t = R(n); t |= arr_real(t.slice(1, n)); keep(t));
            ADD("self: zeropad(a) into a", a, arr_real t = R(n); t = zeropad(t, 2 * n + 1); keep(t));
        }
    }
    ADD("array[vector<int>]", "n=0 idx=[]", keep(R(0)[std::vector<int>{}]));
    ADD("array[vector<int>]", "n=0 idx=[0]", keep(R(0)[std::vector<int>{0}]));
    for (int n1 : {0, 1, 3, 8})
        for (int n2 : lens(n1 ? n1 : 2)) {
            std::string a = fmt("n1=%d n2=%d", n1, n2);
            ADD("array > array", a, keep(R(n1) > R(n2, 1)));
            ADD("array < array", a, keep(R(n1) < R(n2, 1)));
            ADD("array == array", a, keep(R(n1) == R(n2, 1)));
            ADD("array != array", a, keep(R(n1) != R(n2, 1)));
            ADD("cmplx array == array", a, keep(X(n1) == X(n2, 1)));
            ADD("cmplx array != array", a, keep(X(n1) != X(n2, 1)));
            ADD("cmplx array > array", a, keep(X(n1) > X(n2, 1)));
            ADD("array + array", a, keep(R(n1) + R(n2, 1)));
            ADD("array - cmplx array", a, keep(R(n1) - X(n2, 1)));
            ADD("cmplx array * array", a, keep(X(n1) * R(n2, 1)));
            ADD("cmplx array / cmplx array", a, keep(X(n1) / X(n2, 1)));
            ADD("array += array", a, arr_real t = R(n1); t += R(n2, 1); keep(t));
            ADD("cmplx array -= array", a, arr_cmplx t = X(n1); t -= R(n2, 1); keep(t));
            ADD("cmplx array *= cmplx array", a, arr_cmplx t = X(n1); t *= X(n2, 1); keep(t));
            ADD("array /= array", a, arr_real t = R(n1); t /= R(n2, 1); keep(t));
            ADD("array | array", a, keep(R(n1) | R(n2, 1)));
            ADD("array |= array", a, arr_real t = R(n1); t |= R(n2, 1); keep(t));
            ADD("array | cmplx array", a, keep(R(n1) | X(n2, 1)));
            ADD("dot", a, keep(dot(R(n1), R(n2, 1))));
            ADD("dot cmplx", a, keep(dot(X(n1), X(n2, 1))));
            ADD("complex(re,im)", a, keep(complex(R(n1), R(n2, 1))));
            ADD("power(array,array)", a, keep(power(R(n1), R(n2, 1))));
            ADD("power(cmplx array,array)", a, keep(power(X(n1), R(n2, 1))));
            ADD("mse", a, keep(mse(R(n1), R(n2, 1))));
            ADD("nmse cmplx", a, keep(nmse(X(n1), X(n2, 1))));
            ADD("xcorr(real,real)", a, keep(xcorr(R(n1), R(n2, 1))));
            ADD("xcorr(cmplx,cmplx)", a, keep(xcorr(X(n1), X(n2, 1))));
            ADD("finddelay real", a, keep((double)finddelay(R(n1), R(n2, 1))));
            ADD("finddelay cmplx", a, keep((double)finddelay(X(n1), X(n2, 1))));
            ADD("concatenate", a, keep(concatenate(R(n1), R(n2, 1), R(1, 2))));
            if (n1 >= 2 && n2 >= 2) {
                ADD("corr pearson", a, keep(corr(R(n1), R(n2, 1), Correlation::Pearson)));
                ADD("corr spearman", a, keep(corr(R(n1), R(n2, 1), Correlation::Spearman)));
                ADD("corr kendall", a, keep(corr(R(n1), R(n2, 1), Correlation::Kendall)));
            }
            ADD("gccphat", a, keep(gccphat(R(n1), R(n2, 1), 8000).tau));
            ADD("mscohere(winlen)", a, if (n1 >= 1) keep(mscohere(R(n1 + 16), R(n2 + 16, 1), 8)));
        }
    // slices: right-hand sides of every length 0..count+2
    for (int n : {1, 4, 7})
        for (int i1 : {0, 1})
            for (int st : {1, 2, -1}) {
                if (i1 >= n) continue;
                int a = st > 0 ? i1 : n - 1, b = st > 0 ? n : i1;
                int cnt = (std::abs(b - a) + std::abs(st) - 1) / std::abs(st);
                for (int len = 0; len <= cnt + 2; ++len) {
                    std::string s = fmt("n=%d slice(%d,%d,%d) cnt=%d rhs=%d", n, a, b, st, cnt, len);
                    ADD("slice = array", s, arr_real x = R(n); x.slice(a, b, st) = R(len, 1); keep(x));
                    ADD("slice = slice(other)", s, arr_real x = R(n); arr_real y = R(len + 1, 1); x.slice(a, b, st) = y.slice(0, len); keep(x));
                    ADD("cmplx slice = array", s, arr_cmplx x = X(n); x.slice(a, b, st) = X(len, 1); keep(x));
                    if (len <= 6) {
                        ADD("slice = {list}", s, arr_real x = R(n); std::vector<real_t> v((size_t)len, 2.0);
                            switch (len) {
                            case 0: x.slice(a, b, st) = std::initializer_list<real_t>{}; break;
                            case 1: x.slice(a, b, st) = {1.0}; break;
                            case 2: x.slice(a, b, st) = {1.0, 2.0}; break;
                            case 3: x.slice(a, b, st) = {1.0, 2.0, 3.0}; break;
                            case 4: x.slice(a, b, st) = {1.0, 2.0, 3.0, 4.0}; break;
                            case 5: x.slice(a, b, st) = {1.0, 2.0, 3.0, 4.0, 5.0}; break;
                            default: x.slice(a, b, st) = {1.0, 2.0, 3.0, 4.0, 5.0, 6.0}; break;
                            } keep(x));
                    }
                }
            }
    // slice = slice with every stride pair (also both negative), other array and same array, equal and unequal counts
    for (int n : {2, 5, 8})
        for (int s1 : {1, 2, -1, -2})
            for (int s2 : {1, 2, -1, -2})
                for (int m : {n - 1, n, n + 1}) {
                    int a1 = s1 > 0 ? 0 : n - 1, b1 = s1 > 0 ? n : 0, a2 = s2 > 0 ? 0 : m - 1, b2 = s2 > 0 ? m : 0;
                    if (m < 2) continue;
                    std::string s = fmt("n=%d dst(%d,%d,%d) m=%d src(%d,%d,%d)", n, a1, b1, s1, m, a2, b2, s2);
                    ADD("slice = slice(strided, other array)", s, arr_real x = R(n); arr_real y = R(m, 1); x.slice(a1, b1, s1) = y.slice(a2, b2, s2); keep(x));
                    ADD("cmplx slice = slice(strided, other array)", s, arr_cmplx x = X(n); arr_cmplx y = X(m, 1); x.slice(a1, b1, s1) = y.slice(a2, b2, s2); keep(x));
                    if (m == n) ADD("slice = slice(strided, same array)", s, arr_real x = R(n); x.slice(a1, b1, s1) = x.slice(a2, b2, s2); keep(x));
                    if (m == n && n >= 3) ADD("slice = slice(shifted, same array)", s, arr_real x = R(n); if (s1 == s2 && std::abs(s1) == 1) {
                        if (s1 > 0) x.slice(0, n - 1, 1) = x.slice(1, n, 1);
                        else x.slice(n - 1, 0, -1) = x.slice(n - 2, -n - 0 + 0 == 0 ? 0 : 0, -1);
                    } keep(x));
                }
    for (int n : {0, 1, 3})
        for (int i1 = -n - 2; i1 <= n + 2; ++i1)
            for (int i2 = -n - 2; i2 <= n + 2; ++i2)
                for (int st : {-2, -1, 0, 1, 2}) {
                    std::string s = fmt("n=%d (%d,%d,%d)", n, i1, i2, st);
                    ADD("slice read", s, arr_real x = R(n); arr_real y = x.slice(i1, i2, st); keep(y));
                    ADD("slice = scalar", s, arr_real x = R(n); x.slice(i1, i2, st) = 5.0; keep(x));
                }
    // ======================================================================== math.h / utils.h element functions and reductions
    for (int n : {0, 1, 2, 3}) {
        std::string s = fmt("n=%d", n);
        ADD("exp", s, keep(exp(R(n))); keep(exp(X(n))));
        ADD("expj", s, keep(expj(R(n))));
        ADD("tanh", s, keep(tanh(R(n))); keep(tanh(X(n))));
        ADD("abs/abs2/angle", s, keep(abs(R(n))); keep(abs(X(n))); keep(abs2(X(n))); keep(abs2(R(n))); keep(angle(X(n))));
        ADD("round", s, keep(round(R(n))); keep(round(X(n))));
        ADD("sum", s, keep(sum(R(n))); keep(sum(X(n))); keep((double)sum(std::vector<bool>((size_t)n, true))));
        ADD("cumsum", s, keep(cumsum(R(n))); keep(cumsum(X(n), Direction::Reverse)));
        ADD("real/imag/conj/complex", s, keep(real(X(n))); keep(imag(X(n))); keep(conj(X(n))); keep(complex(R(n))));
        ADD("log family", s, keep(log(abs(R(n)) + 1)); keep(log2(abs(R(n)) + 1)); keep(log10(abs(R(n)) + 1)));
        ADD("power scalar^array", s, keep(power(2.0, R(n))); keep(power(cmplx_t(1, 1), R(n))));
        ADD("power array^scalar", s, keep(power(abs(R(n)), 1.5)); keep(power(X(n), 2.5)); keep(power(R(n), 3)); keep(power(X(n), -2)));
        ADD("sin/cos", s, keep(sin(R(n))); keep(cos(R(n))));
        ADD("deg/rad/db", s, keep(deg2rad(R(n))); keep(rad2deg(R(n))); keep(pow2db(abs(R(n)))); keep(db2pow(R(n))); keep(mag2db(abs(R(n)))); keep(db2mag(R(n))));
        ADD("norm", s, keep(norm(R(n), 1)); keep(norm(R(n), 2)); keep(norm(X(n), 3)));
        ADD("rms/stddev", s, keep(rms(R(n))); keep(rms(X(n))); keep(stddev(R(n))); keep(stddev(X(n))));
        ADD("anynan/anyinf", s, keep((double)anynan(R(n))); keep((double)anyinf(X(n))));
        ADD("sort/issorted", s, keep(sort(R(n)).first); keep(sort(R(n), Direction::Descend).second); keep((double)issorted(R(n))));
        ADD("flip", s, keep(flip(R(n))); keep(flip(X(n))));
        ADD("awgn", s, keep(awgn(R(n), 10)); keep(awgn(X(n), 3)));
        ADD("hilbert", s, keep(hilbert(R(n))));
        ADD("fft/ifft/rfft", s, keep(fft(X(n))); keep(fft(R(n))); keep(rfft(R(n))); keep(ifft(X(n))));
        ADD("irfft(x)", s, keep(irfft(X(n))));
        ADD("xcorr auto", s, keep(xcorr(R(n))); keep(xcorr(X(n))));
        ADD("firtype", s, keep((double)(int)firtype(R(n))));
        ADD("findpeaks", s, auto p = findpeaks(R(n), 2); keep((double)p.pks.size()));
        ADD("to_vec/apply", s, keep((double)R(n).to_vec().size()); keep(R(n).apply([](real_t v) { return v * 2; })); keep(X(n).apply([](cmplx_t v) { return v.re; })));
        ADD("unary minus", s, keep(-R(n)); keep(-X(n)));
        ADD("scalar ops", s, keep(2.0 - R(n)); keep(cmplx_t(1, 1) / X(n)); keep(R(n) * cmplx_t(0, 1)); keep(3 + X(n)));
        if (n >= 1) {
            ADD("max/min/argmax/argmin/peak2peak", s, keep(max(R(n))); keep(min(R(n))); keep(max(X(n))); keep(min(X(n))); keep((double)argmax(R(n)));
                keep((double)argmin(X(n))); keep(peak2peak(R(n))); keep(peak2peak(X(n))));
            ADD("mean/median", s, keep(mean(R(n))); keep(mean(X(n))); keep(median(R(n))));
        }
        for (int f : {1, 2, 3, 7})
            for (int ph : {0, f - 1}) {
                ADD("downsample", fmt("n=%d f=%d ph=%d", n, f, ph), keep(downsample(R(n), f, ph)); keep(downsample(X(n), f, ph)));
                ADD("upsample", fmt("n=%d f=%d ph=%d", n, f, ph), keep(upsample(R(n), f, ph)); keep(upsample(X(n), f, ph)));
            }
        for (int k : {1, 2, 3}) ADD("repelem", fmt("n=%d k=%d", n, k), keep(repelem(R(n), k)); keep(repelem(X(n), k)));
        for (int m : {0, 1, n - 1, n, n + 1, 2 * n})
            if (m >= 0) ADD("zeropad", fmt("n=%d m=%d", n, m), keep(zeropad(R(n), m)); keep(zeropad(X(n), m)));
        for (int d : {-n - 1, -n, -1, 0, 1, n - 1, n, n + 1}) ADD("delayseq", fmt("n=%d d=%d", n, d), keep(delayseq(R(n), d)); keep(delayseq(X(n), d)));
        for (int m : {1, 2, 3, 7, 8})
            ADD("fft(x,n)/hilbert(x,n)", fmt("n=%d m=%d", n, m), keep(fft(X(n), m)); keep(fft(R(n), m)); keep(rfft(R(n), m)); keep(hilbert(R(n), m)));
        if (n >= 1)
            for (int idx = 0; idx < n; ++idx) ADD("peakloc", fmt("n=%d idx=%d", n, idx), keep(peakloc(R(n), idx)); keep(peakloc(X(n), idx, false)); keep(peakloc(R(n), idx, false)));
    }
    for (int a = -3; a <= 3; ++a)
        for (int b = -3; b <= 3; ++b)
            for (int st : {-2, -1, 1, 2, 3}) ADD("arange(int)", fmt("(%d,%d,%d)", a, b, st), keep(arange(a, b, st)));
    for (int n : {-1, 0, 1, 5}) ADD("arange(stop)", fmt("%d", n), keep(arange(n)); keep(arange((double)n)));
    ADD("arange(float)", "(0,1,0.25)/(1,0,-0.5)/(0,1,-0.5)", keep(arange(0.0, 1.0, 0.25)); keep(arange(1.0, 0.0, -0.5)); keep(arange(0.0, 1.0, -0.5)));
    for (int n : {1, 2, 3, 7}) ADD("linspace/zeros/ones", fmt("n=%d", n), keep(linspace(0, 1, (size_t)n)); keep(zeros(n)); keep(ones(n)); keep(zeros(0)));
    ADD("to_complex", "odd/even", keep(to_complex(std::vector<double>{1, 2, 3, 4})); keep(to_complex(std::vector<double>{1, 2, 3})));
    for (uint32_t v : {0u, 1u, 2u, 3u, 4u, 97u, 65536u, 65537u, 1000003u, 4293001441u, 4294967231u, 4294967291u, 4294967295u})
        ADD("primes helpers", fmt("%u", v), keep((double)isprime(v)); keep(factor(v)); if (v <= 4294967291u) keep((double)nextprime(v)); if (v < 100000) keep(primes(v)));
    for (int m : {1, 2, 3, 7, 8, 64, 1 << 30, 0x7fffffff}) ADD("nextpow2/ispow2", fmt("%d", m), keep((double)nextpow2(m)); keep((double)ispow2(m)));
    // ======================================================================== transforms: plans applied to another length
    for (int n : {1, 2, 4, 8, 16, 3, 7, 13, 53, 12, 30, 45})
        for (int m : lens(n)) {
            std::string s = fmt("plan=%d input=%d", n, m);
            ADD("FftPlan.solve", s, FftPlan p(n); keep(p.solve(X(m))); keep(p(X(m))));
            ADD("FftPlan.solve(ptr)", s, if (m >= 1) {
                FftPlan p(n);
                arr_cmplx x = X(m), y(m);
                static_cast<const BaseFftPlanC&>(p).solve(x.data(), y.data(), m);
                keep(y);
            });
            ADD("FftPlanR.solve", s, FftPlanR p(n); keep(p.solve(R(m))); keep(p(R(m))));
            ADD("IfftPlan.solve", s, IfftPlan p(n); keep(p.solve(X(m))));
            if (n % 2 == 0) ADD("IfftPlanR.solve", s, IfftPlanR p(n); keep(p.solve(X(m))); keep(p.solve(X(m / 2 + 1))));
            ADD("irfft(x,n)", s, keep(irfft(X(m), n)));
        }
    for (int n : {0, 1, 2, 3, 5})
        for (int m : {1, 2, 3, 7})
            for (int in : lens(n ? n : 1)) {
                ADD("CztPlan.solve", fmt("n=%d m=%d input=%d", n, m, in), if (n >= 1) {
                    CztPlan p(n, m, expj(-2 * pi / m));
                    keep(p.solve(X(in)));
                });
                if (in == n) ADD("czt", fmt("n=%d m=%d", n, m), keep(czt(X(n), m, expj(-2 * pi / m), cmplx_t(0.9, 0.1))));
            }
    // pointer overload of the plan base class on a chirp-z plan with fewer / more output bins than input samples
    for (int n : {1, 2, 3, 5, 8})
        for (int m : {1, 2, 3, 4, 7, 8, 16}) {
            ADD("CztPlan.solve(ptr)", fmt("n=%d m=%d", n, m), CztPlan p(n, m, expj(-2 * pi / m)); arr_cmplx x = X(n); arr_cmplx y(std::max(n, m));
                static_cast<const BaseFftPlanC&>(p).solve(x.data(), y.data(), n); keep(y));
        }
    // formatted output of arrays of every small length, the empty array included
    for (int n : {0, 1, 2, 3}) {
        ADD("ostream << array", fmt("n=%d", n), std::ostringstream os; os << R(n); keep((double)os.str().size()));
        ADD("ostream << cmplx array", fmt("n=%d", n), std::ostringstream os; os << X(n); keep((double)os.str().size()));
    }
    ADD("ostream << cmplx_t", "", std::ostringstream os; os << cmplx_t(1, -2) << cmplx_t(-0.0, 0.0); keep((double)os.str().size()));
    // from_file on things that open but cannot be read as a stream of samples
    for (const char* path : {"/", "/tmp", "/dev/null", "/proc/self/mem", "/nonexistent/file"})
        for (int ty = 0; ty < 4; ++ty) {
            const dtype dt = ty == 0 ? dtype::int16 : (ty == 1 ? dtype::uint16 : (ty == 2 ? dtype::int32 : dtype::uint32));
            ADD("from_file", fmt("path=%s dtype=%d", path, ty), keep(from_file(path, dt)));
            ADD("from_file(count)", fmt("path=%s dtype=%d count=3 offset=1", path, ty), keep(from_file(path, dt, endian::little, 1, 3)));
        }
    for (int n : {1, 3, 5, 7}) ADD("IfftPlanR(odd)", fmt("n=%d", n), IfftPlanR p(n); keep(p.solve(X(n))));
    // ======================================================================== FIR, windows, designs
    for (int nh : {0, 1, 2, 3, 8})
        for (int nx : lens(nh ? nh : 1)) {
            std::string s = fmt("nh=%d nx=%d", nh, nx);
            ADD("FirFilterR.process", s, FirFilterR f(R(nh)); keep(f.process(R(nx))); keep(f.process(R(1))); keep(f(R(nx))));
            ADD("FirFilterC.process", s, FirFilterC f(X(nh)); keep(f.process(X(nx))); keep(f.process(X(2))));
            ADD("FirFilter::conv", s, keep(FirFilterR::conv(R(nx), R(nh))); keep(FirFilterC::conv(X(nx), X(nh))));
            ADD("FftFilter.process", s, FftFilter f(R(nh)); keep(f.process(R(nx))); keep(f.process(X(nx))); keep(f.process(R(3))); keep((double)f.block_size()));
            ADD("FftFilter(cmplx).process", s, FftFilter f(X(nh)); keep(f.process(X(nx))); keep(f(X(1))));
        }
    ADD("FftFilter default", "", FftFilter f; keep(f.process(R(4))));
    for (int n : {1, 2, 3, 7, 8})
        for (int wl : {n - 1, n, n + 1, n + 2, n + 3}) {
            if (wl < 0) continue;
            std::string s = fmt("n=%d winlen=%d", n, wl);
            ADD("fir1(win)", s, keep(fir1(n, 0.3, FilterType::Low, ones(wl))); keep(fir1(n, 0.3, FilterType::High, ones(wl))));
            ADD("fir1(band,win)", s, keep(fir1(n, 0.2, 0.6, FilterType::Bandpass, ones(wl))); keep(fir1(n, 0.2, 0.6, FilterType::Bandstop, ones(wl))));
        }
    for (int n : {1, 2, 3, 7, 8, 64}) {
        ADD("fir1", fmt("n=%d", n), keep(fir1(n, 0.5)); keep(fir1(n, 0.5, FilterType::High)); keep(fir1(n, 0.25, 0.5)); keep(fir1(n, 0.25, 0.5, FilterType::Bandstop)));
        ADD("windows", fmt("n=%d", n), keep(window::hann(n)); keep(window::hann(n, false)); keep(window::hamming(n)); keep(window::blackman(n, false));
            keep(window::blackmanharris(n)); keep(window::cosine(n)); keep(window::gauss(n, 2.5)); keep(window::gauss(n, 0.5, false));
            keep(window::kaiser(n, 0)); keep(window::kaiser(n, 38)); keep(window::tukey(n, 0)); keep(window::tukey(n, 0.5)); keep(window::tukey(n, 1)));
    }
    // window shape parameters over their whole range (beta / alpha have no documented upper limit): large, huge, infinite, NaN
    for (int n : {1, 2, 16, 64})
        for (double b : {0.0, 1e-300, 8.0, 100.0, 700.0, 761.0, 800.0, 1000.0, 2999.0, 1e6, 1e300, (double)INFINITY, (double)NAN, -1.0})
            ADD("window(shape)", fmt("n=%d shape=%g", n, b), keep(window::kaiser(n, b)); keep(window::gauss(n, b)); keep(window::gauss(n, b, false)); keep(window::tukey(n, b)));
    for (double b : {0.0, 38.0, 800.0, 1e6, (double)INFINITY})
        ADD("resample(x,p,q,n,beta)", fmt("beta=%g", b), keep(resample(R(12), 3, 2, 4, b)); keep(resample(R(12), 1, 2, 4, b)));
    for (double as : {10.0, 90.0, 300.0, 7000.0, 1e5, 1e9})
        ADD("design_multirate_fir(astop)", fmt("astop=%g", as), keep(design_multirate_fir(3, 2, 4, as)); keep(design_multirate_fir(1, 4, 12, as)));
    // ======================================================================== multirate
    for (int M : {1, 2, 3, 7})
        for (int nx : lens(M)) {
            std::string s = fmt("M=%d nx=%d", M, nx);
            ADD("FIRDecimator.process", s, FIRDecimator d(M); keep(d.process(R(nx))); keep(d.process(R(M))); keep((double)d.delay()));
            ADD("FIRDecimator(h).process", s, FIRDecimator d(M, R(2 * M + 1)); keep(d.process(R(nx))); keep(d.process(R(2 * M))));
            ADD("FIRInterpolator.process", s, FIRInterpolator d(M); keep(d.process(R(nx))); keep(d.process(R(1))));
            ADD("FIRInterpolator(h).process", s, FIRInterpolator d(M, R(M + 2)); keep(d.process(R(nx))));
            for (int L : {2, 3, 5}) {
                ADD("FIRRateConverter.process", s + fmt(" L=%d", L), FIRRateConverter d(L, M); keep(d.process(R(nx))); keep(d.process(R(M))));
                ADD("FIRRateConverter(h).process", s + fmt(" L=%d", L), FIRRateConverter d(L, M, R(L + M + 1)); keep(d.process(R(nx))));
                ADD("FIRResampler.process", s + fmt(" L=%d", L), FIRResampler d(L, M); keep(d.process(R(nx))); keep((double)d.delay() + d.next_size(nx) + d.prev_size(nx)));
                ADD("FIRResampler(h).process", s + fmt(" L=%d", L), FIRResampler d(L, M, R(2 * L * M + 1)); keep(d.process(R(nx))));
            }
        }
    for (int p : {1, 2, 3, 7})
        for (int q : {1, 2, 3, 5})
            for (int nx : {0, 1, 2, q - 1, q, q + 1, 5 * q + 3}) {
                if (nx < 0) continue;
                std::string s = fmt("p=%d q=%d nx=%d", p, q, nx);
                for (int n : {1, 2, 10}) ADD("resample(x,p,q,n)", s + fmt(" n=%d", n), keep(resample(R(nx), p, q, n)));
                for (int nh : {1, 2, 3, 2 * p * q + 1}) ADD("resample(x,p,q,h)", s + fmt(" nh=%d", nh), keep(resample(R(nx), p, q, R(nh))));
            }
    for (int L : {1, 2, 3})
        for (int M : {1, 2, 3})
            for (int hl : {1, 2, 12}) ADD("design_multirate_fir", fmt("L=%d M=%d hlen=%d", L, M, hl), keep(design_multirate_fir(L, M, hl, 60)));
    for (int m : {1, 2, 3})
        for (int nh : {0, 1, 2, 5}) ADD("IResampler::polyphase", fmt("nh=%d m=%d", nh, m), keep(IResampler::polyphase(R(nh), m, 1.0, true)));
    // ======================================================================== stateful blocks
    for (int nd : {0, 1, 2, 5})
        for (int nx : lens(nd ? nd : 1)) {
            std::string s = fmt("nd=%d nx=%d", nd, nx);
            ADD("Delay.process", s, DelayReal d(nd); keep(d.process(R(nx))); keep(d.process(R(1))); DelayCmplx c(X(nd)); keep(c.process(X(nx))); keep(c(X(2))));
        }
    for (int ord : {3, 4, 7})
        for (int nx : lens(ord)) {
            ADD("MedianFilter.process", fmt("ord=%d nx=%d", ord, nx), MedianFilter m(ord, -1); keep(m.process(R(nx))); keep(m(R(1))));
            ADD("medfilt", fmt("ord=%d nx=%d", ord, nx), arr_real x = R(nx); keep(medfilt(x, ord)));
        }
    for (int n : {1, 2, 3}) ADD("MedianFilter(order<3)", fmt("n=%d", n), MedianFilter m(n); keep(m.process(R(4))));
    for (int n : {1, 2, 7})
        for (int nx : lens(n)) ADD("MAFilter.process", fmt("n=%d nx=%d", n, nx), MAFilterR m(n); keep(m.process(R(nx))); MAFilterC c(n); keep(c.process(X(nx))); keep(c(cmplx_t(1, 1))));
    for (int fl : {1, 2, 3, 7, 8, 31})
        for (int nx : {0, 1, fl, 2 * fl}) ADD("HilbertFilter.process", fmt("flen=%d nx=%d", fl, nx), HilbertFilter h(fl, 0.05); keep(h.process(R(nx))); keep(h(R(1))); keep(h.impz()));
    for (int nh : {0, 1, 2, 3, 5}) ADD("HilbertFilter(h)", fmt("nh=%d", nh), HilbertFilter h(R(nh)); keep(h.process(R(4))));
    ADD("HilbertFilter::design_fir", "", keep(HilbertFilter::design_fir(7, 1.0, 0.05)); keep(HilbertFilter::design_fir(8, 8000.0, 100)));
    for (int fs : {1, 2, 3, 8})
        for (double f : {0.0, 0.5, 1.0, 1.5, 4.0, -4.0, 4.5})
            for (int nx : {0, 1, 3 * fs + 1}) ADD("Tuner.process", fmt("fs=%d f=%g nx=%d", fs, f, nx), Tuner t(fs, f); keep(t.process(X(nx))); keep(t(X(2))));
    for (int avg : {1, 2, 100})
        for (int nx : {0, 1, 3, 200}) ADD("Agc.process", fmt("avg=%d nx=%d", avg, nx), Agc a(1.0, 60.0, avg); keep(a.process(R(nx)).out); keep(a.process(X(nx)).gain); keep(a(arr_real(nx)).gain));
    ADD("Agc(avg<=0)", "", Agc a(1.0, 60.0, 0); keep(a.process(R(3)).out));
    for (int nx : {0, 1, 3, 100}) {
        ADD("Compressor.process", fmt("nx=%d", nx), Compressor c(8000, -20, 4, 6, 0.001, 0.01); keep(c.process(R(nx)).out); keep(c(arr_real(nx)).gain); Compressor z(8000, -10, 1, 0, 0, 0); keep(z.process(R(nx)).out));
        ADD("Limiter.process", fmt("nx=%d", nx), Limiter c(8000, -20, 6, 0, 0.01); keep(c.process(R(nx)).out); keep(c(arr_real(nx)).gain));
        ADD("NoiseGate.process", fmt("nx=%d", nx), NoiseGate c(8000, -20, 0.001, 0.001, 0.001); keep(c.process(R(nx)).out); keep(c(arr_real(nx)).gain));
    }
    ADD("dynamics ctor out of range", "", try { Compressor c(8000, 5, 0, 30, -1, 9); } catch (const std::exception&) {} try { Limiter l(8000, -60, 30, 5, 5); } catch (const std::exception&) {}
        NoiseGate g(8000, 10, 5, 5, 5));
    for (int len : {1, 2, 4})
        for (int nx : {0, 1, 3, 10})
            for (int nd : {nx, nx + 1}) {
                std::string s = fmt("len=%d nx=%d nd=%d", len, nx, nd);
                ADD("LmsFilter.process", s, LmsFilterR f(len, 0.1); keep(f.process(R(nx), R(nd, 1)).e); LmsFilterC c(len, 0.5, LmsType::NLMS); keep(c.process(X(nx), X(nd, 1)).y); keep(c.coeffs()));
                ADD("RlsFilter.process", s, RlsFilterR f(len, 0.95, 1.0); keep(f.process(R(nx), R(nd, 1)).e); RlsFilterC c(len); keep(c(X(nx), X(nd, 1)).y); keep(c.coeffs()));
            }
    // ======================================================================== spectral estimation
    for (int nfft : {8, 16, 12})
        for (int wl : {1, 2, nfft - 1, nfft, nfft + 1})
            for (int nx : {0, 1, wl - 1, wl, wl + 1, 3 * wl + 1})
                for (int nov : {0, 1, wl / 2, wl - 1}) {
                    if (nx < 0 || nov < 0 || nov >= wl) continue;
                    std::string s = fmt("nfft=%d winlen=%d nx=%d noverlap=%d", nfft, wl, nx, nov);
                    ADD("welch(real,winlen,nov,nfft)", s, keep(welch(R(nx), wl, nov, nfft).pxx));
                    ADD("welch(cmplx,win,nov,nfft)", s, keep(welch(X(nx), window::hann(wl), nov, nfft, SpectrumType::Power).pxx));
                    ADD("mscohere(win,nov,nfft)", s, keep(mscohere(R(nx), R(nx, 1), window::hann(wl), nov, nfft)));
                    ADD("stft/istft", s, auto S = stft(R(nx), window::hann(wl, false), nov, nfft); keep(S); keep(istft(S, window::hann(wl, false), nov, nfft)));
                    ADD("iscola", s, keep((double)iscola(window::hann(wl, false), nov)); keep((double)iscola(window::hann(wl), nov, OverlapMethod::Wola)));
                }
    for (int wl : {1, 2, 8})
        for (int nx : {0, 1, wl - 1, wl, 5 * wl}) {
            if (nx < 0) continue;
            ADD("welch(x,winlen)", fmt("winlen=%d nx=%d", wl, nx), keep(welch(R(nx), wl).pxx); keep(welch(X(nx), wl).f); keep(welch(R(nx), window::hamming(wl)).pxx); keep(mscohere(R(nx), R(nx, 1), wl)));
        }
    for (int nfft : {4, 8})
        for (int nx : {0, 1, nfft, 3 * nfft + 1}) {
            ADD("stft(x,nfft)", fmt("nfft=%d nx=%d", nfft, nx), auto S = stft(R(nx), nfft, StftRange::Centered); keep(S); keep(istft(S, nfft, StftRange::Centered, OverlapMethod::Ola)));
            ADD("istft(inconsistent frames)", fmt("nfft=%d nx=%d", nfft, nx), std::vector<arr_cmplx> S{X(nfft / 2 + 1), X(nx), X(nfft)}; keep(istft(S, nfft)));
        }
    ADD("istft(no frames)", "", keep(istft(std::vector<arr_cmplx>{}, 8)));
    for (int nx : {1, 2, 3, 8, 16, 100})
        for (int nh : {1, 2, 6})
            ADD("snr/sinad/thd", fmt("nx=%d nharm=%d", nx, nh), keep(snr(R(nx), nh)); keep(sinad(R(nx))); keep(thd(R(nx), nh).value); keep(thd(R(nx), nh, true).harmfreq);
                keep(sinad(abs(R(nx)), SinadType::Psd)); keep(snr(abs(R(nx)), nh, false, SinadType::Power)));
    // ======================================================================== non-finite sample values (NaN, +-Inf) in the data arrays
    for (int which = 0; which < 3; ++which) {
        const double bad = which == 0 ? std::nan("") : (which == 1 ? (double)inf : -(double)inf);
        const char* bn = which == 0 ? "nan" : (which == 1 ? "+inf" : "-inf");
        for (int n : {1, 4, 9, 40})
            for (int pos : {0, n / 2, n - 1}) {
                std::string s = fmt("%s at %d of %d", bn, pos, n);
                auto RB = [=]() { arr_real x = R(n); x[pos] = bad; return x; };
                auto XB = [=]() { arr_cmplx x = X(n); x[pos].im = bad; return x; };
                for (int ord : {3, 4, 7}) {
                    ADD("MedianFilter(nonfinite data)", s + fmt(" ord=%d", ord), MedianFilter m(ord); keep(m.process(RB())); keep(m.process(R(2 * ord + 1))); keep(m.process(RB())); keep(m.process(R(3))));
                    ADD("MedianFilter(nonfinite init)", s + fmt(" ord=%d", ord), MedianFilter m(ord, bad); keep(m.process(R(n))); keep(m.process(R(2 * ord))));
                    ADD("medfilt(nonfinite data)", s + fmt(" ord=%d", ord), arr_real x = RB(); keep(medfilt(x, ord)));
                }
                ADD("sort/median/issorted(nonfinite)", s, keep(sort(RB()).first); keep(sort(RB(), Direction::Descend).second); keep(median(RB())); keep((double)issorted(RB())));
                ADD("reductions(nonfinite)", s, keep(max(RB())); keep(min(RB())); keep((double)argmax(RB())); keep((double)argmin(XB())); keep(peak2peak(RB())); keep(mean(XB())); keep(stddev(RB())); keep(norm(XB(), 3)); keep(cumsum(RB())));
                if (n >= 2) ADD("corr(nonfinite)", s, keep(corr(RB(), R(n, 1))); keep(corr(RB(), R(n, 1), Correlation::Spearman)); keep(corr(R(n, 1), RB(), Correlation::Kendall)));
                ADD("filters(nonfinite)", s, FirFilterR f(R(3)); keep(f.process(RB())); keep(f.process(R(4))); FftFilter g(R(3)); keep(g.process(RB())); keep(g.process(R(8))); MAFilterR ma(3); keep(ma.process(RB())); keep(ma.process(R(7))));
                ADD("dynamics(nonfinite)", s, Compressor c(8000, -20, 4, 6, 0.001, 0.01); keep(c.process(RB()).gain); keep(c.process(R(5)).out); Limiter l(8000, -20, 6, 0, 0.01); keep(l.process(RB()).gain); keep(l.process(R(5)).out);
                    NoiseGate g(8000, -20, 0.001, 0.001, 0.001); keep(g.process(RB()).gain); Agc a(1.0, 60.0, 3); keep(a.process(RB()).gain); keep(a.process(XB()).gain); keep(a.process(R(5)).out));
                ADD("adaptive(nonfinite)", s, LmsFilterR f(3, 0.1, LmsType::NLMS); keep(f.process(RB(), R(n, 1)).e); keep(f.process(R(4), R(4, 1)).y); RlsFilterC r(2); keep(r.process(XB(), X(n, 1)).e); keep(r.process(X(3), X(3, 1)).y));
                ADD("transforms(nonfinite)", s, keep(fft(XB())); keep(rfft(RB())); keep(ifft(XB())); keep(hilbert(RB())); keep(xcorr(RB(), R(3))); keep(awgn(RB(), 10)); keep(awgn(XB(), 10)));
                ADD("resample/multirate(nonfinite)", s, keep(resample(RB(), 3, 2)); FIRDecimator d(1, R(3)); keep(d.process(RB())); FIRInterpolator i(2); keep(i.process(RB())));
                ADD("spectral(nonfinite)", s, if (n >= 8) { keep(welch(RB(), 8).pxx); keep(mscohere(RB(), R(n, 1), 8)); keep(snr(RB(), 2)); keep(sinad(RB())); keep(thd(RB(), 2).value); });
                ADD("peaks/delay(nonfinite)", s, keep((double)findpeaks(RB(), 2).pks.size()); keep(peakloc(RB(), pos)); keep((double)finddelay(RB(), R(n, 1))); keep(gccphat(RB(), R(n, 1), 8000).tau));
                ADD("detector(nonfinite)", s, PreambleDetector d(X(5), 0.5); arr_cmplx z((int)d.frame_len()); if (pos < z.size()) z[pos].re = bad; keep((double)d.process(z).has_value()); keep((double)d.process(X((int)d.frame_len())).has_value()));
            }
    }
    // ======================================================================== detector
    for (int nh : {1, 2, 5, 16})
        for (int nx : {0, 1, nh - 1, nh, nh + 1, 64, 65})
            ADD("PreambleDetector.process", fmt("nh=%d nx=%d", nh, nx), PreambleDetector d(X(nh), 0.5); int fl = d.frame_len(); auto r = d.process(X(nx)); keep((double)r.has_value());
                auto r2 = d.process(X(fl)); keep((double)r2.has_value()); d.reset(); keep((double)d(X(2 * fl)).has_value()));
    ADD("PreambleDetector(empty)", "", PreambleDetector d(X(0)); keep((double)d.frame_len()));
    ADD("gccphat multi", "", keep(gccphat(std::vector<arr_real>{R(16), R(16, 1), R(8, 2)}, R(16, 3), 1).tau));
    // ======================================================================== random
    for (int n : {0, 1, 3}) ADD("random generators", fmt("n=%d", n), rng(1); keep(randn(n)); keep(dsplib::rand(n)); keep(dsplib::rand({-1.0, 1.0}, n)); keep(randi(5, n)); keep(randi({-2, 2}, n)); keep((double)randi(1)); keep((double)randi({3, 3})); keep(randn()); keep(dsplib::rand()));
}

int main(int argc, char** argv) {
    Ctx ctx;
    ctx.parse(argc, argv, "C05");
    build_catalogue();
    // group by form, keep catalogue order
    std::vector<std::string> forms;
    std::map<std::string, std::vector<size_t>> by;
    for (size_t i = 0; i < g_cases.size(); ++i) {
        if (!by.count(g_cases[i].form)) forms.push_back(g_cases[i].form);
        by[g_cases[i].form].push_back(i);
    }
    ctx.note("call forms in catalogue", (long long)forms.size());
    const double TMO = 20.0;   // per child; a case takes microseconds
    for (auto& f : forms) {
        auto& idx = by[f];
        if (!ctx.take("fault.form", P().kv("form", f).kv("cases", (long long)idx.size()))) continue;
        size_t cur = 0;
        int deaths = 0;
        while (cur < idx.size()) {
            fb::Result r = fb::run(
                [&] {
                    uint64_t ret = 0, exc = 0;
                    for (size_t k = cur; k < idx.size(); ++k) {
                        fb::shm()->prog[0] = (long long)k;
                        try {
                            g_cases[idx[k]].fn();
                            ++ret;
                        } catch (const std::exception&) {
                            ++exc;
                        }
                    }
                    fb::shm()->prog[0] = (long long)idx.size();
                    fb::emit(fmt("S %llu %llu\n", (unsigned long long)ret, (unsigned long long)exc));
                },
                TMO);
            size_t reached = (size_t)r.prog[0];
            unsigned long long ret = 0, exc = 0;
            if (sscanf(r.out.c_str(), "S %llu %llu", &ret, &exc) == 2) {
                ctx.note("outcome: returned", (long long)ret);
                ctx.note("outcome: C++ exception", (long long)exc);
            }
            if (r.kind == fb::RETURNED) {
                ctx.evaluations += idx.size() - cur;
                ctx.checks["fault.form"].evals += idx.size() - cur;
                break;
            }
            // child died while executing case `reached`
            if (reached >= idx.size()) reached = idx.size() - 1;
            const Case& c = g_cases[idx[reached]];
            std::string what = r.err;
            size_t pos = what.find("ERROR: AddressSanitizer");
            if (pos == std::string::npos) pos = what.find("runtime error:");
            if (pos != std::string::npos) what = what.substr(pos > 60 ? pos - 60 : 0);
            std::string first = what.substr(0, what.find('\n', what.find("Sanitizer") == std::string::npos ? 0 : what.find("Sanitizer")));
            if (first.size() > 400) first = first.substr(0, 400);
            ctx.note(std::string("outcome: ") + fb::kind_name(r.kind));
            ctx.fail(c.form.c_str(), fmt("%s(%s): %s%s: %s", c.form.c_str(), c.args.c_str(), fb::kind_name(r.kind),
                                         r.kind == fb::SIGNAL ? fmt(" %d", r.sig).c_str() : "", first.c_str()),
                     "returns or throws a C++ exception", P().kv("args", c.args).kv("outcome", fb::kind_name(r.kind)).kv("index", (long long)reached));
            ctx.evaluations += reached + 1 - cur;
            ctx.checks["fault.form"].evals += reached + 1 - cur;
            cur = reached + 1;
            if (++deaths >= 40) {
                ctx.cap("form '" + f + "': stopped after 40 abnormal outcomes");
                break;
            }
        }
        --ctx.evaluations;   // the block itself was counted by take()
        --ctx.checks["fault.form"].evals;
        for (size_t k = 0; k < idx.size(); ++k) ctx.nontrivial_key(mix(ctx.cur_hash, k + 1));
    }
    return ctx.finish();
}
