// C02 - inverse transforms invert the forward transforms (ifft, irfft, stft/istft).
// Engine E1 (bounded-exhaustive enumeration).  ifft / irfft: every length n of the stated range x every entry point x a
// finite letter alphabet with closed-form transforms (all transform columns / unit impulses for small n), checked
// against the definition and as round trip through the library's forward transform.  irfft(X, n) for odd n must be
// rejected with a C++ exception: those calls run in a forked child (and in a second pass under ASan+UBSan) so that
// a crash or an out-of-bounds access is an observed outcome.  stft/istft: every (nfft, window, overlap accepted by
// iscola, range, method, signal length) of the stated grid; impulses at every position for short signals (the
// composition is linear), ramp and a dense letter.
// Tolerances: 64 n eps relative l2 for ifft/irfft; istft: finite everywhere, |xr[i]-x[i]| <= 1e-9 max|x| wherever the
// reference accumulated weight is >= 1e-3 of its maximum (weaker than "non-zero").
#include "vf_fork.hpp"
#include <cfloat>
#include <thread>

using namespace vf;
using namespace dsplib;

namespace {

const double TOL = 64.0;   // * n * eps, relative l2

bool isprime_i(int n) {
    if (n < 2) return false;
    for (int d = 2; (long long)d * d <= n; ++d)
        if (n % d == 0) return false;
    return true;
}
bool ispow2_i(int n) { return n >= 1 && (n & (n - 1)) == 0; }

// ---- mirror of the plan selection (coverage notes and impulse placement only; never influences a verdict)
enum { L_SMALL = 1, L_POW2 = 2, L_P3 = 4, L_DIRECT = 8, L_BLUE = 16 };
struct Shape {
    int depth = 0;
    unsigned leaves = 0;
    int P = 0, Q = 0;
};
unsigned leaf_of(int n) {
    if (n == 1 || n == 2 || n == 4 || n == 8) return L_SMALL;
    if (ispow2_i(n)) return L_POW2;
    if (n == 3) return L_P3;
    return n <= 41 ? L_DIRECT : L_BLUE;
}
std::vector<int> tree_factors(int n) {
    std::vector<int> f;
    int m = n;
    while (m % 2 == 0) m /= 2;
    if (m != n) f.push_back(n / m);
    for (int d = 3; (long long)d * d <= m; d += 2)
        while (m % d == 0) {
            f.push_back(d);
            m /= d;
        }
    if (m > 1) f.push_back(m);
    std::sort(f.begin(), f.end());
    return f;
}
Shape tree(int n) {
    Shape s;
    if (ispow2_i(n)) {
        s.leaves = leaf_of(n);
        return s;
    }
    auto fac = tree_factors(n);
    if (fac.size() == 1) {
        s.leaves = leaf_of(n);
        return s;
    }
    int P = fac[0];
    const double qn = std::sqrt((double)n);
    for (size_t i = 1; i < fac.size(); ++i) {
        if ((double)P * fac[i] > qn) break;
        P *= fac[i];
    }
    Shape a = tree(P), b = tree(n / P);
    s.depth = 1 + std::max(a.depth, b.depth);
    s.leaves = a.leaves | b.leaves;
    s.P = P;
    s.Q = n / P;
    return s;
}
std::string kind_c(int n) {
    if (n == 1 || n == 2 || n == 4 || n == 8) return "small";
    if (isprime_i(n)) return n == 3 ? "prime3" : (n <= 41 ? "prime-direct" : "prime-bluestein");
    if (ispow2_i(n)) return "pow2";
    Shape s = tree(n);
    std::string o;
    const char* nm[] = {"small", "pow2", "prime3", "direct", "bluestein"};
    for (int i = 0; i < 5; ++i)
        if (s.leaves & (1u << i)) o += (o.empty() ? "" : "+") + std::string(nm[i]);
    return fmt("factor depth=%d leaves=%s", s.depth, o.c_str());
}

struct Len {
    int n = 0;
    std::vector<cld> tw;   // exp(-2 pi i k / n)
    void init(int n_) {
        if (n == n_) return;
        n = n_;
        tw.resize((size_t)n);
        for (int k = 0; k < n; ++k) tw[(size_t)k] = twid(k, n);
    }
};

// ---- letters with closed-form transforms (x = signal, R = its exact DFT); same alphabet as C01
const cld CAMP(0.75L, -1.25L);
struct Letters {
    const Len& L;
    int n;
    bool cplx;
    cld amp;
    Letters(const Len& l, bool c) : L(l), n(l.n), cplx(c), amp(c ? CAMP : cld(1, 0)) {}

    void impulse(int m, std::vector<cld>& x, std::vector<cld>& R) const {
        x.assign((size_t)n, cld(0));
        R.resize((size_t)n);
        x[(size_t)m] = amp;
        long long idx = 0;
        for (int k = 0; k < n; ++k) {
            R[(size_t)k] = amp * L.tw[(size_t)idx];
            idx += m;
            if (idx >= n) idx -= n;
        }
    }
    void tone(int f, std::vector<cld>& x, std::vector<cld>& R) const {
        x.resize((size_t)n);
        R.assign((size_t)n, cld(0));
        const cld ph = cis(0.3L);
        long long idx = 0;
        for (int j = 0; j < n; ++j) {
            cld e = std::conj(L.tw[(size_t)idx]);
            x[(size_t)j] = cplx ? amp * e : cld((ph * e).real(), 0);
            idx += f;
            if (idx >= n) idx -= n;
        }
        if (cplx) {
            R[(size_t)f] = amp * (ld)n;
        } else {
            R[(size_t)f] += ph * ((ld)n / 2);
            R[(size_t)((n - f) % n)] += std::conj(ph) * ((ld)n / 2);
        }
    }
    void constant(std::vector<cld>& x, std::vector<cld>& R) const {
        x.assign((size_t)n, amp);
        R.assign((size_t)n, cld(0));
        R[0] = amp * (ld)n;
    }
    void alternating(std::vector<cld>& x, std::vector<cld>& R) const {
        x.resize((size_t)n);
        R.assign((size_t)n, cld(0));
        for (int j = 0; j < n; ++j) x[(size_t)j] = (j & 1) ? -amp : amp;
        if (n % 2 == 0) {
            R[(size_t)(n / 2)] = amp * (ld)n;
        } else {
            for (int k = 0; k < n; ++k) {
                cld h = twid(k, 2LL * n);
                R[(size_t)k] = amp * (ld)2 / ((ld)2 * h.real() * h);
            }
        }
    }
    cld one_minus_cis(long long t) const {   // 1 - exp(i phi), phi/2 = 2 pi t/(4n)
        cld s = twid(t, 4LL * n, +1);
        return cld(0, -2) * s.imag() * s;
    }
    void geo_unit(std::vector<cld>& x, std::vector<cld>& R) const {   // r = exp(2 pi i (f+1/2)/n), real domain: cos
        const long long f = n / 3;
        x.resize((size_t)n);
        R.resize((size_t)n);
        for (int j = 0; j < n; ++j) {
            cld e = twid((2 * f + 1) * (long long)j, 2LL * n, +1);
            x[(size_t)j] = cplx ? amp * e : cld(e.real(), 0);
        }
        for (int k = 0; k < n; ++k) {
            cld g1 = (ld)2 / one_minus_cis(2 * f + 1 - 2 * (long long)k);
            if (cplx) {
                R[(size_t)k] = amp * g1;
            } else {
                cld g2 = (ld)2 / one_minus_cis(-(2 * f + 1) - 2 * (long long)k);
                R[(size_t)k] = (g1 + g2) * (ld)0.5;
            }
        }
    }
    void geo_decay(std::vector<cld>& x, std::vector<cld>& R) const {   // |r| = 1 - 4/n
        const ld rho = n > 4 ? 1 - (ld)4 / n : (ld)0.5;
        x.resize((size_t)n);
        R.resize((size_t)n);
        for (int j = 0; j < n; ++j) {
            ld p = powl(rho, (ld)j);
            x[(size_t)j] = cplx ? amp * p * twid(j, 4LL * n, +1) : cld(p, 0);
        }
        const ld rn = powl(rho, (ld)n);
        for (int k = 0; k < n; ++k) {
            if (cplx) R[(size_t)k] = amp * (cld(1) - rn * cld(0, 1)) / (cld(1) - rho * twid(1 - 4 * (long long)k, 4LL * n, +1));
            else R[(size_t)k] = (cld(1) - rn) / (cld(1) - rho * L.tw[(size_t)k]);
        }
    }
    void bigsmall(std::vector<cld>& x, std::vector<cld>& R) const {
        int a = 1 % n, b = n - 1;
        if (a == b) b = 0;
        const cld va = cplx ? cld(1e150L, -0.5e150L) : cld(1e150L, 0), vb = cplx ? cld(1e-150L, 2e-150L) : cld(1e-150L, 0);
        x.assign((size_t)n, cld(0));
        x[(size_t)a] = va;
        if (b != a) x[(size_t)b] += vb;
        R.resize((size_t)n);
        for (int k = 0; k < n; ++k) {
            R[(size_t)k] = va * L.tw[(size_t)(((long long)a * k) % n)];
            if (b != a) R[(size_t)k] += vb * L.tw[(size_t)(((long long)b * k) % n)];
        }
    }
    void dense(std::vector<cld>& x) const {   // already rounded to double
        x.resize((size_t)n);
        for (int j = 0; j < n; ++j) x[(size_t)j] = cplx ? cld(lcg_val(1, (uint64_t)j), lcg_val(2, (uint64_t)j)) : cld(lcg_val(5, (uint64_t)j), 0);
    }
    static const int NCLOSED = 5;
    const char* closed(int l, std::vector<cld>& x, std::vector<cld>& R) const {
        static const char* nm[] = {"constant", "alternating", "geo|r|=1", "geo|r|=1-4/n", "1e+150/1e-150"};
        if (l == 0) constant(x, R);
        if (l == 1) alternating(x, R);
        if (l == 2) geo_unit(x, R);
        if (l == 3) geo_decay(x, R);
        if (l == 4) bigsmall(x, R);
        return nm[l];
    }
};

std::vector<int> index_set(int n, int nimp) {
    std::vector<int> s;
    if (n <= nimp) {
        for (int m = 0; m < n; ++m) s.push_back(m);
        return s;
    }
    std::vector<long long> c = {0, 1, 2, n / 2 - 1, n / 2, n / 2 + 1, n - 2, n - 1};
    for (int base : {n, n % 2 == 0 ? n / 2 : 0}) {
        if (base < 2 || isprime_i(base) || ispow2_i(base)) continue;
        Shape t = tree(base);
        const int mul = base == n ? 1 : 2;
        for (long long v : {t.P, t.Q, t.P + 1}) {
            c.push_back(v * mul);
            if (mul == 2) c.push_back(v * mul + 1);
        }
    }
    for (long long v : c)
        if (v >= 0 && v < n) s.push_back((int)v);
    std::sort(s.begin(), s.end());
    s.erase(std::unique(s.begin(), s.end()), s.end());
    return s;
}

std::vector<cld> rounded(const std::vector<cld>& v) {   // what the library sees after conversion to double
    std::vector<cld> o(v.size());
    for (size_t i = 0; i < v.size(); ++i) o[i] = cld((double)v[i].real(), (double)v[i].imag());
    return o;
}

// ---- result sink: the same case body runs either directly on the Ctx or inside a forked child (ASan pass)
struct Sink {
    Ctx* ctx = nullptr;
    ChildCtx* cc = nullptr;
    std::set<std::string> kinds;   // one record per failure kind and case (first failing entry point and letter); keeps floods out of the 400-record store
    void fail(const char* site, const std::string& kind, const std::string& obs, const std::string& exp, P detail = P()) {
        if (!kinds.insert(kind).second) return;
        detail.kv("kind", kind);
        if (cc) cc->fail(site, obs, exp, detail);
        else ctx->fail(site, obs, exp, detail);
    }
    void note(const std::string& k, long long add = 1) {
        if (cc) cc->note(k, add);
        else ctx->note(k, add);
    }
    void worst(const std::string& k, double v) {
        if (!std::isfinite(v)) return;
        if (cc) cc->worst(k, v);
        else ctx->worst(k, v);
    }
    void tick() {
        if (cc) {
            ++cc->evals;
        } else {
            ++ctx->evaluations;
            ++ctx->checks[ctx->cur_check].evals;
        }
    }
    void nontrivial() {
        if (cc) cc->nontriv = 1;
        else ctx->nontrivial();
    }
};

template<class F>
void run_case(Ctx& ctx, bool boxed, const char* site, F body) {
    auto guarded = [&](Sink& s) {
        try {
            body(s);
        } catch (const std::exception& e) {
            s.fail(site, "exception", std::string("exception: ") + e.what(), "a result");
        }
    };
    if (boxed) {
        forked(ctx, site, 300.0, [&](ChildCtx& c) {
            Sink s;
            s.cc = &c;
            guarded(s);
            if (c.evals == 0) c.evals = 1;
        });
    } else {
        Sink s;
        s.ctx = &ctx;
        // evaluations = library results compared with the oracle; take back the unit counted for the block by take()
        --ctx.evaluations;
        --ctx.checks[ctx.cur_check].evals;
        guarded(s);
    }
}

inline cld to_cld_one(const cmplx_t& v) { return cld(v.re, v.im); }
inline cld to_cld_one(const real_t& v) { return cld(v, 0); }

// || got - ref ||_2 / (n eps || ref ||_2);  +inf for non-finite output
template<class A>
double rel(const A& got, const std::vector<cld>& ref, ld nref, int n) {
    ld s = 0;
    for (int i = 0; i < n; ++i) s += std::norm(to_cld_one(got[i]) - ref[(size_t)i]);
    if (!(s == s) || std::isinf(s)) return INFINITY;   // long double: (1e300*eps)^2 is far inside its range
    if (nref == 0) return s == 0 ? 0.0 : INFINITY;
    return (double)(sqrtl(s) / (nref * (ld)n * (ld)EPS));
}
template<class A>
bool judge(Sink& s, const char* site, const char* kind, const std::string& wkey, const A& got, const std::vector<cld>& ref, int n,
           const std::string& letter, P detail = P()) {
    s.tick();
    if (got.size() != n) {
        s.fail(site, "size", fmt("result has %d elements", got.size()), fmt("%d elements", n), detail.kv("letter", letter));
        return false;
    }
    const ld nref = l2(ref);
    double e = rel(got, ref, nref, n);
    s.worst(wkey, e);
    if (!(e <= TOL)) {
        int imax = 0;
        ld dmax = -1;
        for (int i = 0; i < n; ++i) {
            ld d = std::abs(to_cld_one(got[i]) - ref[(size_t)i]);
            if (!(d <= dmax)) {
                dmax = d;
                imax = i;
            }
        }
        cld g = to_cld_one(got[imax]);
        s.fail(site, kind, fmt("rel l2 err = %.3g * n*eps; worst element i=%d got %.17Lg%+.17Lgi", e, imax, g.real(), g.imag()),
               fmt("<= %.0f * n*eps; element i=%d = %.17Lg%+.17Lgi", TOL, imax, ref[(size_t)imax].real(), ref[(size_t)imax].imag()),
               detail.kv("letter", letter).kv("i", imax));
        return false;
    }
    return true;
}

// ---------------------------------------------------------------- stft helpers
struct Win {
    std::string name;
    arr_real w;
};
std::vector<Win> windows(int n) {
    std::vector<Win> v;
    for (int sym = 1; sym >= 0; --sym) {
        const char* sfx = sym ? "-sym" : "-per";
        v.push_back({std::string("hann") + sfx, window::hann(n, sym != 0)});
        v.push_back({std::string("hamming") + sfx, window::hamming(n, sym != 0)});
        v.push_back({std::string("blackman") + sfx, window::blackman(n, sym != 0)});
        v.push_back({std::string("cosine") + sfx, window::cosine(n, sym != 0)});
        if (sym) {
            v.push_back({"kaiser5-sym", window::kaiser(n, 5.0)});
        } else {
            arr_real k = window::kaiser(n + 1, 5.0);
            arr_real p(n);
            for (int i = 0; i < n; ++i) p[i] = k[i];
            v.push_back({"kaiser5-per", p});
        }
    }
    arr_real ones(n);
    for (int i = 0; i < n; ++i) ones[i] = 1.0;
    v.push_back({"rect", ones});
    return v;
}


// condition-aware istft value oracle (same rule as the istft.roundtrip check, see the comment there): every sample
// covered by complete frames with reference weight above the rounding floor is compared with tol_i.  Returns false
// after reporting the first failing sample.
bool istft_value_ok(Sink& s, const arr_real& win, int nfft, int ov, int a, const arr_real& xs, double xmax, const arr_real& xr,
                    const std::string& label, const std::string& wkey) {
    const int nwin = win.size(), hop = nwin - ov, nx = xs.size();
    const int nseg = (nx - ov) / hop, xlen = nwin + (nseg - 1) * hop;
    const ld clog = 64.0L * log2l((ld)nfft) * (ld)EPS;
    std::vector<ld> wt((size_t)xlen, 0), taps((size_t)xlen, 0), fmax((size_t)xlen, 0);
    for (int f = 0; f < nseg; ++f) {
        ld e2 = 0;
        for (int i = 0; i < nwin; ++i) {
            const ld w = (ld)win[i];
            wt[(size_t)(f * hop + i)] += a ? w * w : w;
            taps[(size_t)(f * hop + i)] += a ? fabsl(w) : (ld)1;
            const ld v = (ld)xs[f * hop + i] * w;
            e2 += v * v;
        }
        const ld nf = sqrtl(e2);
        for (int i = 0; i < nwin; ++i) fmax[(size_t)(f * hop + i)] = std::max(fmax[(size_t)(f * hop + i)], nf);
    }
    ld wmax = 0;
    for (ld v : wt) wmax = std::max(wmax, v);
    const ld wfloor = 16.0L * nseg * (ld)EPS * std::max(wmax, (ld)1);
    for (int i = 0; i < xr.size(); ++i)
        if (!std::isfinite(xr[i])) {
            s.fail("istft", "nonfinite", fmt("%s: xr[%d] = %g", label.c_str(), i, xr[i]), "only finite values", P().kv("i", i));
            return false;
        }
    double worst = 0;
    for (int i = 0; i < xlen; ++i) {
        const ld wi = wt[(size_t)i];
        if (!(wi > wfloor)) continue;
        const ld tol = 1e-9L * xmax + clog * fmax[(size_t)i] * taps[(size_t)i] / wi;
        if (!(tol <= 1e-3L * xmax)) continue;
        if (i >= xr.size()) {
            s.fail("istft", "size", fmt("%s: output has %d samples", label.c_str(), xr.size()), fmt("sample %d is covered by a complete frame", i), P().kv("i", i));
            return false;
        }
        const double e = (double)(fabsl((ld)xr[i] - (ld)xs[i]) / tol);
        if (!(e <= 1.0)) {
            s.fail("istft", "istft-value", fmt("%s: xr[%d] = %.17g, |diff| = %.3g * tol_i (tol_i = %.3Lg), weight %Lg (max %Lg)", label.c_str(), i, xr[i], e, tol, wi, wmax),
                   fmt("x[%d] = %.17g within tol_i", i, xs[i]), P().kv("i", i).kv("weight", (double)wi));
            return false;
        }
        worst = std::max(worst, e);
    }
    s.worst(wkey, worst);
    return true;
}

// window values by name, written INTO an existing buffer (the buffer address never changes)
void fill_window(arr_real& buf, const std::string& name) {
    const int n = buf.size();
    arr_real w;
    if (name == "hann") w = window::hann(n, false);
    else if (name == "hamming") w = window::hamming(n, false);
    else if (name == "blackman") w = window::blackman(n, false);
    else if (name == "2*hann") w = window::hann(n, false);
    else {
        w = arr_real(n);
        for (int i = 0; i < n; ++i) w[i] = 1.0;
    }
    real_t* dst = buf.data();
    for (int i = 0; i < n; ++i) dst[i] = name == "2*hann" ? 2.0 * w[i] : w[i];
}
void fill_signal(arr_real& xs, const std::string& name, double& xmax) {
    const int nx = xs.size();
    real_t* dst = xs.data();
    if (name == "ramp") {
        for (int i = 0; i < nx; ++i) dst[i] = i + 1;
        xmax = nx;
    } else {
        for (int i = 0; i < nx; ++i) dst[i] = lcg_val(7, (uint64_t)i);
        xmax = 1;
    }
}

}   // namespace

int main(int argc, char** argv) {
    Ctx ctx;
    ctx.parse(argc, argv, "C02");
    bool asan_pass = false;
    for (int i = 1; i < argc; ++i)
        if (std::string(argv[i]) == "--asan-pass") asan_pass = true;
    const bool T = ctx.thorough();
    // main pass: full bounds, direct execution (only the rejection cases are forked).
    // asan pass : every case in a forked child of the ASan+UBSan build; reduced numeric bounds, full rejection set.
    const int N = asan_pass ? (T ? 256 : 64) : (T ? 8192 : 256);
    const int NREJ = T ? 8192 : 256;
    const int NIMP = asan_pass ? 32 : (T ? 256 : 64);
    const int NDENSE = asan_pass ? 64 : (T ? 1024 : 256);
    const bool boxed = asan_pass;
    const std::string pfx = asan_pass ? "asan pass: " : "";

    Len L;
    std::vector<cld> x, R;
    // every length 1..N plus (main pass, both tiers) a handful of big lengths above 4096 and above 65536
    std::vector<int> lens_all, lens_even;
    for (int n = 1; n <= N; ++n) lens_all.push_back(n);
    if (!asan_pass)
        for (int n : {4098, 4099, 4100, 5000, 8192, 16384, 46342, 65536, 65537, 65538, 70000, 99991, 100000, 131072})
            if (n > N) lens_all.push_back(n);
    for (int n : lens_all)
        if (n % 2 == 0) lens_even.push_back(n);
    const std::vector<int> big_odd = {4097, 4099, 46341, 65535, 65537, 70001, 131071};

    // ================================================================ ifft / IfftPlan
    for (int n : lens_all) {
        const std::vector<int> idx = index_set(n, NIMP);
        std::string wk = "ifft: rel l2 err/(n eps)";
        auto apis = [&](Sink& s, const IfftPlan& plan, const std::vector<cld>& Xin, const std::vector<cld>& xref, const std::string& letter) {
            const arr_cmplx X = to_arr(Xin);
            arr_cmplx y1 = ifft(X);
            bool ok = judge(s, "ifft", "ifft-value", wk, y1, xref, n, letter);
            arr_cmplx y2 = plan.solve(X);
            if (ok && bitsame(y2, y1)) s.tick();
            else judge(s, "IfftPlan::solve", "ifft-value", wk, y2, xref, n, letter);
            arr_cmplx y3 = plan(X);
            if (ok && bitsame(y3, y1)) s.tick();
            else judge(s, "IfftPlan::operator()", "ifft-value", wk, y3, xref, n, letter);
        };
        // the blocks of one length are enumerated in an order rotated with n (balances the shards)
        for (int t = 0; t < 3; ++t) {
        const int chk = (t + n) % 3;
        // ---- against the definition: transform columns <-> impulses, closed-form spectra
        if (chk == 0 && ctx.take("ifft.definition", P().kv("n", n))) {
            L.init(n);
            run_case(ctx, boxed, "ifft", [&](Sink& s) {
                s.note(pfx + "ifft plan: " + kind_c(n));
                if (n >= 2) s.nontrivial();
                Letters lt(L, true);
                IfftPlan plan(n);
                if (plan.size() != n) s.fail("IfftPlan::size()", "size", fmt("%d", plan.size()), fmt("%d", n));
                std::vector<cld> a, b;
                for (int m : idx) {
                    lt.impulse(m, a, b);                                  // a = amp*delta_m, b = amp*column m
                    apis(s, plan, b, a, fmt("column@%d", m));             // ifft(column m) = impulse at m
                    std::vector<cld> c((size_t)n);                        // ifft(impulse at m) = conj(column m)/n
                    for (int j = 0; j < n; ++j) c[(size_t)j] = lt.amp * std::conj(L.tw[(size_t)(((long long)m * j) % n)]) / (ld)n;
                    apis(s, plan, a, c, fmt("impulse@%d", m));
                }
                for (int l = 0; l < Letters::NCLOSED; ++l) {
                    const char* nm = lt.closed(l, a, b);
                    apis(s, plan, b, a, nm);
                }
                // extreme magnitudes: X = c * amp * column m (|amp| = 1) is the exact finite transform of the finite signal
                // c*amp*delta_m, so ifft must return it (finite).  huge: c = min(2*DBL_MAX/n, DBL_MAX/2), i.e. n*c is not
                // representable although X and x are; tiny: c = 1e-300 and c = 4*n*DBL_MIN (x/n stays a normal number).
                {
                    const cld uamp(0.6L, -0.8L);
                    const ld cs[3] = {(ld)std::min(2.0 * (DBL_MAX / n), DBL_MAX / 2), 1e-300L, (ld)(4.0 * n * DBL_MIN)};
                    const char* cn[3] = {"huge(2*DBL_MAX/n)", "tiny(1e-300)", "tiny(4n*DBL_MIN)"};
                    std::set<int> ms = {0, n / 2, n - 1};
                    for (int ci = 0; ci < 3; ++ci) {
                        wk = std::string("ifft ") + cn[ci] + " column: rel l2 err/(n eps)";
                        for (int m : ms) {
                            a.assign((size_t)n, cld(0));
                            b.resize((size_t)n);
                            a[(size_t)m] = rounded(std::vector<cld>{cs[ci] * uamp})[0];
                            for (int k = 0; k < n; ++k) b[(size_t)k] = a[(size_t)m] * L.tw[(size_t)(((long long)m * k) % n)];
                            apis(s, plan, b, a, fmt("%s column@%d", cn[ci], m));
                        }
                    }
                    wk = "ifft: rel l2 err/(n eps)";
                }
            });
        }
        // ---- dense spectrum against the O(n^2) inverse DFT
        if (chk == 1 && n <= NDENSE && ctx.take("ifft.dense", P().kv("n", n))) {
            L.init(n);
            run_case(ctx, boxed, "ifft", [&](Sink& s) {
                if (n >= 2) s.nontrivial();
                Letters lt(L, true);
                IfftPlan plan(n);
                lt.dense(x);
                R = dft_ref(x, +1);
                for (auto& v : R) v /= (ld)n;
                apis(s, plan, x, R, "dense");
            });
        }
        // ---- round trip through the library's forward transform
        if (chk == 2 && ctx.take("ifft.roundtrip", P().kv("n", n))) {
            L.init(n);
            run_case(ctx, boxed, "ifft", [&](Sink& s) {
                if (n >= 2) s.nontrivial();
                Letters lt(L, true);
                IfftPlan plan(n);
                for (int l = 0; l < 4; ++l) {
                    std::string nm;
                    if (l == 0) {
                        lt.dense(x);
                        nm = "dense";
                    } else {
                        nm = lt.closed(l + 1, x, R);   // geo|r|=1, geo decay, 1e+-150
                        x = rounded(x);
                    }
                    const arr_cmplx xa = to_arr(x);
                    const arr_cmplx X = fft(xa);
                    const std::string wk2 = "ifft(fft(x)): rel l2 err/(n eps)";
                    arr_cmplx y1 = ifft(X);
                    judge(s, "ifft", "ifft-roundtrip", wk2, y1, x, n, nm);
                    arr_cmplx y2 = plan.solve(X);
                    judge(s, "IfftPlan::solve", "ifft-roundtrip", wk2, y2, x, n, nm);
                }
                // extreme-magnitude impulses (|c| = 1e300 / 1e-300): fft(x) has all bins of that magnitude; judged when the
                // library's forward transform returned finite values (its accuracy is C01's business)
                for (int ci = 0; ci < 2; ++ci) {
                    const ld c = ci == 0 ? 1e300L : 1e-300L;
                    std::set<int> ms = {0, n / 2, n - 1};
                    for (int m : ms) {
                        x.assign((size_t)n, cld(0));
                        x[(size_t)m] = rounded(std::vector<cld>{c * cld(0.6L, -0.8L)})[0];
                        const arr_cmplx X = fft(to_arr(x));
                        if (X.size() != n || !finite_all(to_cld(X))) {
                            s.note(pfx + "ifft.roundtrip: extreme impulse skipped, fft output not finite / wrong size");
                            continue;
                        }
                        const std::string wk3 = std::string("ifft(fft(") + (ci == 0 ? "1e300" : "1e-300") + " impulse)): rel l2 err/(n eps)";
                        const std::string nm = fmt("%s impulse@%d", ci == 0 ? "1e300" : "1e-300", m);
                        arr_cmplx y1 = ifft(X);
                        judge(s, "ifft", "ifft-roundtrip", wk3, y1, x, n, nm);
                        arr_cmplx y2 = plan.solve(X);
                        judge(s, "IfftPlan::solve", "ifft-roundtrip", wk3, y2, x, n, nm);
                        arr_cmplx y3 = plan(X);
                        judge(s, "IfftPlan::operator()", "ifft-roundtrip", wk3, y3, x, n, nm);
                    }
                }
            });
        }
        }   // rotation loop
    }

    // ================================================================ irfft / IfftPlanR, even n
    for (int n : lens_even) {
        const std::vector<int> idx = index_set(n, NIMP);
        for (int t = 0; t < 6; ++t) {   // (form, block) enumerated in an order rotated with n/2 (balances the shards)
            const int u = (t + n / 2) % 6, form = u / 3, chk = u % 3;
            const char* fname = form == 0 ? "all-n-bins" : "first-n/2+1-bins";
            const int nb = form == 0 ? n : n / 2 + 1;
            const std::string wk = fmt("irfft n%%4==%d: rel l2 err/(n eps)", n % 4);   // the two residues take different twiddle-table paths
            // Xfull: all n bins (long double values, rounded on conversion); xref: the real signal
            auto apis = [&](Sink& s, const IfftPlanR& plan, const std::vector<cld>& Xfull, const std::vector<cld>& xref, const std::string& letter,
                            const char* kind, const std::string& wkey) {
                std::vector<cld> Xin(Xfull.begin(), Xfull.begin() + nb);
                const arr_cmplx X = to_arr(Xin);
                const P d = P().kv("form", fname);
                arr_real y1 = irfft(X, n);
                bool ok = judge(s, "irfft(X,n)", kind, wkey, y1, xref, n, letter, d);
                arr_real y2 = plan.solve(X);
                if (ok && bitsame(y2, y1)) s.tick();
                else judge(s, "IfftPlanR::solve", kind, wkey, y2, xref, n, letter, d);
                arr_real y3 = plan(X);
                if (ok && bitsame(y3, y1)) s.tick();
                else judge(s, "IfftPlanR::operator()", kind, wkey, y3, xref, n, letter, d);
                if (form == 0) {
                    arr_real y4 = irfft(X);
                    if (ok && bitsame(y4, y1)) s.tick();
                    else judge(s, "irfft(X)", kind, wkey, y4, xref, n, letter, d);
                }
            };
            auto head = [&](Sink& s) {
                s.note(pfx + fmt("irfft n%%4==%d, half-length plan: ", n % 4) + kind_c(n / 2));
                s.nontrivial();
            };
            if (chk == 0 && ctx.take("irfft.definition", P().kv("n", n).kv("form", fname))) {
                L.init(n);
                run_case(ctx, boxed, "irfft", [&](Sink& s) {
                    head(s);
                    Letters lt(L, false);
                    IfftPlanR plan(n);
                    if (plan.size() != n) s.fail("IfftPlanR::size()", "size", fmt("%d", plan.size()), fmt("%d", n));
                    for (int m : idx) {
                        lt.impulse(m, x, R);
                        apis(s, plan, R, x, fmt("impulse@%d", m), "irfft-value", wk);
                    }
                    for (int f : idx) {
                        lt.tone(f, x, R);
                        apis(s, plan, R, x, fmt("tone@%d", f), "irfft-value", wk);
                    }
                    for (int l = 0; l < Letters::NCLOSED; ++l) {
                        const char* nm = lt.closed(l, x, R);
                        apis(s, plan, R, x, nm, "irfft-value", wk);
                    }
                });
            }
            if (chk == 1 && n <= NDENSE && ctx.take("irfft.dense", P().kv("n", n).kv("form", fname))) {
                L.init(n);
                run_case(ctx, boxed, "irfft", [&](Sink& s) {
                    head(s);
                    Letters lt(L, false);
                    IfftPlanR plan(n);
                    lt.dense(x);
                    R = dft_ref(x);
                    apis(s, plan, R, x, "dense", "irfft-value", wk);
                });
            }
            if (chk == 2 && ctx.take("irfft.roundtrip", P().kv("n", n).kv("form", fname))) {
                L.init(n);
                run_case(ctx, boxed, "irfft", [&](Sink& s) {
                    head(s);
                    Letters lt(L, false);
                    IfftPlanR plan(n);
                    for (int l = 0; l < 4; ++l) {
                        std::string nm;
                        if (l == 0) {
                            lt.dense(x);
                            nm = "dense";
                        } else if (l == 1) {
                            nm = "ramp";
                            x.resize((size_t)n);
                            for (int j = 0; j < n; ++j) x[(size_t)j] = cld(j + 1, 0);
                        } else {
                            nm = lt.closed(l, x, R);   // geo|r|=1 (cos), geo decay
                            x = rounded(x);
                        }
                        const arr_cmplx Xl = rfft(to_arr_real(x));
                        s.tick();
                        if (Xl.size() != n) {
                            s.fail("rfft", "size", fmt("rfft returned %d bins", Xl.size()), fmt("%d", n));
                            continue;
                        }
                        apis(s, plan, to_cld(Xl), x, nm, "irfft-value", fmt("irfft(rfft(x)) n%%4==%d: rel l2 err/(n eps)", n % 4));
                    }
                });
            }
        }
    }

    // ================================================================ irfft must not depend on earlier (rejected) calls
    // In ONE process/thread: results of irfft(X,n) / IfftPlanR(n).solve(X) before and after rejected odd-length calls
    // (n+1, n-1; free function and plan constructor) and after valid calls of another length must be bit-identical and
    // satisfy the value oracle.  Rel pass: in-process (a wrong value is not a crash); ASan pass: forked.
    {
        Len La, Lb, Lc;
        for (int n : lens_even) {
            if (!ctx.take("irfft.after_reject", P().kv("n", n))) continue;
            const int m = n + 2, l = n - 2;
            La.init(n);
            Lb.init(m);
            if (l >= 2) Lc.init(l);
            run_case(ctx, boxed, "irfft", [&](Sink& s) {
                s.nontrivial();
                const std::string wk = "irfft around rejected odd-length calls: rel l2 err/(n eps)";
                struct Sig {
                    int n = 0;
                    std::vector<cld> x, X;
                    arr_cmplx Xa;
                    arr_real r0;
                };
                auto make = [&](const Len& L_, Sig& g) {
                    g.n = L_.n;
                    Letters(L_, false).geo_decay(g.x, g.X);
                    g.Xa = to_arr(g.X);
                };
                Sig A, B, C;
                make(La, A);
                make(Lb, B);
                if (l >= 2) make(Lc, C);
                auto first = [&](Sig& g) {
                    g.r0 = irfft(g.Xa, g.n);
                    judge(s, "irfft(X,n)", "irfft-value", wk, g.r0, g.x, g.n, fmt("first call, len=%d", g.n));
                };
                auto again = [&](Sig& g, const std::string& hist, bool plan) {
                    const char* site = plan ? "IfftPlanR::solve" : "irfft(X,n)";
                    arr_real r = plan ? IfftPlanR(g.n).solve(g.Xa) : irfft(g.Xa, g.n);
                    s.tick();
                    if (!bitsame(r, g.r0)) {
                        int d = 0;
                        while (d < r.size() && d < g.r0.size() && biteq(r[d], g.r0[d])) ++d;
                        s.fail(site, "history-dependence",
                               fmt("len=%d after [%s]: result differs from the first irfft(X,%d) at element %d: %.17g vs %.17g", g.n, hist.c_str(), g.n, d,
                                   d < r.size() ? r[d] : NAN, d < g.r0.size() ? g.r0[d] : NAN),
                               "bit-identical result for identical arguments", P().kv("history", hist).kv("len", g.n));
                    }
                    judge(s, site, "irfft-value-after-history", wk, r, g.x, g.n, hist, P().kv("history", hist).kv("len", g.n));
                };
                auto reject = [&](int odd, bool via_plan) {
                    if (odd < 1) return;
                    arr_cmplx Xo(odd);
                    for (int k = 0; k < odd; ++k) Xo[k] = cmplx_t(1.0 + k, k ? 0.5 : 0.0);
                    bool threw = false;
                    try {
                        if (via_plan) {
                            IfftPlanR p(odd);
                        } else {
                            arr_real y = irfft(Xo, odd);
                        }
                    } catch (const std::exception&) {
                        threw = true;
                    } catch (...) {
                        threw = true;
                    }
                    s.tick();
                    if (!threw)
                        s.fail(via_plan ? "IfftPlanR" : "irfft(X,n)", "odd-not-rejected", fmt("odd n=%d accepted", odd), "a C++ exception", P().kv("odd", odd));
                };
                first(A);
                // H1: n, odd above, odd below (function and constructor) -> n
                reject(n + 1, false);
                reject(n - 1, false);
                reject(n + 1, true);
                reject(n - 1, true);
                again(A, "n; irfft(n+1), irfft(n-1), IfftPlanR(n+1), IfftPlanR(n-1) rejected; n", false);
                again(A, "n; rejected odd calls; IfftPlanR(n)", true);
                // H2: another even length, odd n+1 rejected by the function -> n, then the even length above
                first(B);
                reject(n + 1, false);
                again(A, "n+2; irfft(n+1) rejected; n", false);
                again(B, "n+2; irfft(n+1) rejected; n; n+2", false);
                // H3: same through the plan constructor
                reject(n + 1, true);
                again(A, "n+2; IfftPlanR(n+1) rejected; IfftPlanR(n)", true);
                again(B, "IfftPlanR(n+1) rejected; n; IfftPlanR(n+2)", true);
                // H4/H5: odd n-1 -> the even lengths below (n-2) and above (n)
                if (l >= 2) {
                    first(C);
                    again(B, "n-2; n+2", false);
                    reject(n - 1, false);
                    again(C, "n+2; irfft(n-1) rejected; n-2", false);
                    again(A, "n+2; irfft(n-1) rejected; n-2; n", false);
                    again(B, "n; n+2", false);
                    reject(n - 1, true);
                    again(C, "n+2; IfftPlanR(n-1) rejected; IfftPlanR(n-2)", true);
                    again(A, "IfftPlanR(n-1) rejected; n-2; IfftPlanR(n)", true);
                } else {
                    again(B, "n; n+2", false);
                    reject(n - 1, false);   // n = 2: odd length 1
                    again(A, "n+2; irfft(1) rejected; n", false);
                }
                // H6: odd first, then the even length above it, then the one below
                again(B, "n; n+2", false);
                reject(n + 1, false);
                again(B, "irfft(n+1) rejected; n+2", false);
                again(A, "irfft(n+1) rejected; n+2; n", false);
            });
        }
    }

    // ================================================================ irfft(X, n), IfftPlanR(n) for odd n: must throw
    for (int lo = 1; lo <= NREJ + 1; lo += 64) {
        const int hi = std::min(lo + 64, NREJ + 2);
        if (!ctx.take("irfft.reject", P().kv("lo", lo).kv("hi", hi))) continue;
        int cur = lo, abn = 0;
        while (cur < hi && abn < 3) {
            auto o = forked(ctx, "irfft", 60.0, [&](ChildCtx& c) {
                for (int n = cur; n < hi; n += 2) {
                    fb::shm()->prog[0] = n;
                    for (int form = 0; form < 2; ++form) {
                        const int nb = form == 0 ? n : n / 2 + 1;
                        arr_cmplx X(nb);
                        for (int k = 0; k < nb; ++k) X[k] = cmplx_t(1.0 + k, form == 0 && k > 0 ? 0.25 * k : 0.0);
                        for (int api = 0; api < (form == 0 ? 3 : 2); ++api) {   // api 2: the one-argument irfft(X), whose length is X.size()
                            fb::label(api == 0 ? "irfft(X,n) odd n" : (api == 1 ? "IfftPlanR(n) odd n" : "irfft(X) odd length"));
                            bool threw = false;
                            int got = -1;
                            try {
                                if (api == 0) {
                                    arr_real y = irfft(X, n);
                                    got = y.size();
                                } else if (api == 2) {
                                    arr_real y = irfft(X);
                                    got = y.size();
                                } else {
                                    IfftPlanR plan(n);
                                    arr_real y = plan.solve(X);
                                    got = y.size();
                                }
                            } catch (const std::exception&) {
                                threw = true;
                            } catch (...) {
                                threw = true;
                            }
                            ++c.evals;
                            ++c.nontriv;
                            if (!threw)
                                c.fail(api == 0 ? "irfft(X,n)" : (api == 1 ? "IfftPlanR" : "irfft(X)"), fmt("odd n=%d accepted: returned %d samples", n, got), "a C++ exception",
                                       P().kv("n", n).kv("form", form == 0 ? "all-n-bins" : "first-n/2+1-bins").kv("kind", "odd-not-rejected"));
                        }
                    }
                }
                c.note(pfx + "irfft odd n rejected-or-reported", 1);
            });
            if (!o.abnormal) break;
            ++abn;
            cur = (int)o.r.prog[0] + 2;   // resume after the length that did not come back
        }
        if (abn >= 3) ctx.cap("irfft.reject: block abandoned after 3 abnormal outcomes");
    }
    // big odd lengths (above 4096, above 46340 where n*n overflows int, above 65536), one forked call each
    for (int n : big_odd) {
        if (asan_pass && n > 70001) continue;
        if (!ctx.take("irfft.reject", P().kv("lo", n).kv("hi", n + 1).kv("big", 1))) continue;
        forked(ctx, "irfft", 120.0, [&](ChildCtx& c) {
            fb::shm()->prog[0] = n;
            for (int form = 0; form < 2; ++form) {
                const int nb = form == 0 ? n : n / 2 + 1;
                arr_cmplx X(nb);
                for (int k = 0; k < nb; ++k) X[k] = cmplx_t(1.0 + (k % 97), 0.0);
                for (int api = 0; api < 2; ++api) {
                    fb::label(api == 0 ? "irfft(X,n) big odd n" : "IfftPlanR(n) big odd n");
                    bool threw = false;
                    try {
                        if (api == 0) {
                            arr_real y = irfft(X, n);
                        } else {
                            IfftPlanR plan(n);
                            arr_real y = plan.solve(X);
                        }
                    } catch (const std::exception&) {
                        threw = true;
                    } catch (...) {
                        threw = true;
                    }
                    ++c.evals;
                    ++c.nontriv;
                    if (!threw)
                        c.fail(api == 0 ? "irfft(X,n)" : "IfftPlanR", fmt("odd n=%d accepted", n), "a C++ exception",
                               P().kv("n", n).kv("form", form == 0 ? "all-n-bins" : "first-n/2+1-bins").kv("kind", "odd-not-rejected"));
                }
            }
            c.note(pfx + "irfft big odd n rejected-or-reported", 1);
        });
    }
    // wrong bin counts: the statement is silent, so only an abnormal outcome (crash, sanitizer report, hang) is a failure;
    // "returned a value" is recorded in the histogram
    {
        const int ns[] = {2, 4, 6, 8, 10, 12, 14, 16, 30, 32, 64, 100, 256};
        for (int n : ns) {
            if (!ctx.take("irfft.badbins", P().kv("n", n))) continue;
            std::set<int> cnt = {0, 1, n / 2 - 1, n / 2, n / 2 + 2, n - 1, n + 1, 2 * n};
            cnt.erase(n);
            cnt.erase(n / 2 + 1);
            cnt.erase(-1);
            int done = 0, abn = 0;
            while (done < (int)cnt.size() && abn < 3) {
                auto o = forked(ctx, "irfft", 60.0, [&](ChildCtx& c) {
                    int i = 0;
                    for (int nb : cnt) {
                        if (i++ < done) continue;
                        fb::shm()->prog[0] = nb;
                        fb::shm()->prog[1] = i;
                        fb::label("irfft(X,n) wrong bin count");
                        arr_cmplx X(nb);
                        for (int k = 0; k < nb; ++k) X[k] = cmplx_t(1.0 + k, 0.0);
                        bool threw = false;
                        try {
                            arr_real y = irfft(X, n);
                        } catch (const std::exception&) {
                            threw = true;
                        } catch (...) {
                            threw = true;
                        }
                        ++c.evals;
                        ++c.nontriv;
                        c.note(pfx + (threw ? "irfft wrong bin count: exception" : "irfft wrong bin count: returned a value (not judged)"));
                    }
                });
                if (!o.abnormal) break;
                ++abn;
                done = (int)o.r.prog[1];
            }
        }
    }

    // ================================================================ stft / istft
    // Oracle (condition-aware, no weight threshold): every sample i covered by complete frames whose reference weight
    // w_i = sum_f win^(a+1) (long double, from the window passed to the library) is > 0 must satisfy
    //   |xr[i] - x[i]| <= tol_i = 1e-9 max|x| + 64 log2(nfft) eps * max_f ||frame_f*win||_2 * sum_f |win^a tap| / w_i
    // (f over the frames covering i: the forward/inverse FFT pair returns frame_f*win with an l2 error of at most
    // c log2(nfft) eps ||frame_f*win||_2, which the synthesis tap and the division by w_i amplify).  A sample is judged
    // only when tol_i <= 1e-3 max|x|, i.e. when rounding alone cannot explain a visible error; the others are counted.
    // Weights in (0, 16 nseg eps max(w_max,1)] (e.g. the -1.4e-17 end taps of a symmetric Blackman window, squared) are at
    // the rounding level of the weight accumulation itself and are read as zero (weaker reading, counted in a note).
    {
        struct Grid {
            int nfft;
            bool sparse;   // only periodic hann/blackman, overlap nfft/2 and 3nfft/4, onesided, one unaligned length
            int jsp;       // sparse: number of extra hops of the single signal length nfft + jsp*hop + hop-1
        };
        std::vector<Grid> grids;
        for (int v : {8, 12, 16, 20, 24, 32, 48, 64}) grids.push_back({v, false, 0});
        if (T) {
            for (int v : {96, 128, 192, 256, 384, 512, 1024, 2048}) grids.push_back({v, false, 0});
            grids.push_back({4096, true, 3});
            grids.push_back({8192, true, 3});
        } else {
            grids.push_back({512, true, 3});
            grids.push_back({1024, true, 3});
            grids.push_back({4096, true, 3});
        }
        if (asan_pass) {
            grids = {{8, false, 0}, {12, false, 0}, {16, false, 0}};
        } else {
            grids.push_back({256, true, 600});    // signal longer than 65536 samples (77183 / 38783)
            grids.push_back({4096, true, 520});   // 1.07e6 / 5.4e5 samples: nx * nfft/2 exceeds 2^31
        }
        const StftRange ranges[3] = {StftRange::Onesided, StftRange::Twosided, StftRange::Centered};
        const char* rname[3] = {"onesided", "twosided", "centered"};
        const OverlapMethod methods[2] = {OverlapMethod::Ola, OverlapMethod::Wola};
        const char* mname[2] = {"ola", "wola"};
        const int NIMPX = 96;
        for (const Grid& G : grids) {
            const int nfft = G.nfft;
            if (!ctx.wants("istft.roundtrip") && !ctx.wants("istft.finite")) break;
            const std::vector<Win> wins = windows(nfft);
            const ld clog = 64.0L * log2l((ld)nfft) * (ld)EPS;
            for (const Win& W : wins) {
                if (G.sparse && W.name != "hann-per" && W.name != "blackman-per") continue;
                const int nwin = nfft;
                for (int ov = 0; ov < nwin; ++ov) {
                    if (G.sparse && ov != nfft / 2 && ov != 3 * nfft / 4) continue;
                    bool acc = false;
                    try {
                        acc = iscola(W.w, ov, OverlapMethod::Ola) || iscola(W.w, ov, OverlapMethod::Wola);
                    } catch (const std::exception&) {
                        acc = false;
                    }
                    if (!acc) {
                        if (G.sparse && ctx.shard == 0 && !ctx.replay) ctx.note(pfx + fmt("istft sparse grid: %s nfft=%d overlap=%d not accepted by iscola", W.name.c_str(), nfft, ov));
                        continue;
                    }
                    const int hop = nwin - ov;
                    std::vector<int> rs = {0};
                    if (hop > 1) rs.push_back(1);
                    if (hop - 1 > 1) rs.push_back(hop - 1);
                    for (int ir = 0; ir < 3; ++ir)
                        for (int im = 0; im < 2; ++im)
                            for (int j : {0, 1, 3, G.jsp > 3 ? G.jsp : -1})
                                for (int rr : rs)
                                    for (int chk = 0; chk < 2; ++chk) {
                                        if (j < 0) continue;
                                        if (!G.sparse && j > 3) continue;
                                        if (G.sparse && (ir != 0 || j != G.jsp || rr != hop - 1)) continue;
                                        const char* check = chk == 0 ? "istft.finite" : "istft.roundtrip";
                                        if (!ctx.take(check, P().kv("nfft", nfft).kv("win", W.name).kv("overlap", ov).kv("range", rname[ir]).kv("method", mname[im]).kv("j", j).kv("r", rr)))
                                            continue;
                                        const int nx = nwin + j * hop + rr;
                                        const int nseg = (nx - ov) / hop;                  // complete frames
                                        const int xlen = nwin + (nseg - 1) * hop;          // samples covered by them
                                        const int a = im == 0 ? 0 : 1;
                                        run_case(ctx, boxed, "istft", [&](Sink& s) {
                                            s.nontrivial();
                                            if (chk == 1) s.note(pfx + "istft " + W.name + " " + rname[ir] + " " + mname[im] + (nfft >= 512 ? " nfft>=512" : ""));
                                            // reference accumulated weight sum win^(a+1) and sum of |synthesis taps| win^a
                                            std::vector<ld> wt((size_t)xlen, 0), taps((size_t)xlen, 0);
                                            for (int f = 0; f < nseg; ++f)
                                                for (int i = 0; i < nwin; ++i) {
                                                    const ld w = (ld)W.w[i];
                                                    wt[(size_t)(f * hop + i)] += a ? w * w : w;
                                                    taps[(size_t)(f * hop + i)] += a ? fabsl(w) : (ld)1;
                                                }
                                            ld wmax = 0;
                                            int nzero = 0;
                                            for (ld v : wt) {
                                                wmax = std::max(wmax, v);
                                                if (!(v > 0)) ++nzero;
                                            }
                                            if (nzero && chk == 0) s.note(pfx + "istft case with zero-weight samples");
                                            // "non-zero weight" is read numerically: a weight at or below the rounding level of a double-precision
                                            // accumulation of nseg window powers (16 nseg eps max(w_max, 1)) cannot be told from zero
                                            const ld wfloor = 16.0L * nseg * (ld)EPS * std::max(wmax, (ld)1);
                                            long long judged = 0, skipped = 0, below = 0;
                                            const int nlet = 2 + (nx <= NIMPX ? nx : 0);
                                            for (int l = 0; l < nlet; ++l) {
                                                arr_real xs(nx);
                                                std::string nm;
                                                double xmax = 1;
                                                if (l == 0) {
                                                    nm = "ramp";
                                                    for (int i = 0; i < nx; ++i) xs[i] = i + 1;
                                                    xmax = nx;
                                                } else if (l == 1) {
                                                    nm = "dense";
                                                    for (int i = 0; i < nx; ++i) xs[i] = lcg_val(7, (uint64_t)i);
                                                } else {
                                                    nm = fmt("impulse@%d", l - 2);
                                                    xs[l - 2] = 1.0;
                                                }
                                                const auto S = stft(xs, W.w, ov, nfft, ranges[ir]);
                                                const arr_real xr = istft(S, W.w, ov, nfft, ranges[ir], methods[im]);
                                                s.tick();
                                                if (chk == 0) {
                                                    for (int i = 0; i < xr.size(); ++i)
                                                        if (!std::isfinite(xr[i])) {
                                                            const double wi = i < xlen ? (double)wt[(size_t)i] : 0.0;
                                                            s.fail("istft", "nonfinite",
                                                                   fmt("xr[%d] = %g (reference accumulated weight there = %g), %d frames, output length %d", i, xr[i], wi, (int)S.size(), xr.size()),
                                                                   "only finite values", P().kv("letter", nm).kv("i", i).kv("weight", wi).kv("nx", nx).kv("nframes", nseg));
                                                            break;
                                                        }
                                                    continue;
                                                }
                                                // max over the covering frames of || frame * win ||_2
                                                std::vector<ld> fmax((size_t)xlen, 0);
                                                for (int f = 0; f < nseg; ++f) {
                                                    ld e2 = 0;
                                                    for (int i = 0; i < nwin; ++i) {
                                                        const ld v = (ld)xs[f * hop + i] * (ld)W.w[i];
                                                        e2 += v * v;
                                                    }
                                                    const ld nf = sqrtl(e2);
                                                    for (int i = 0; i < nwin; ++i) fmax[(size_t)(f * hop + i)] = std::max(fmax[(size_t)(f * hop + i)], nf);
                                                }
                                                double worst = 0, tiny = 0;
                                                for (int i = 0; i < xlen; ++i) {
                                                    const ld wi = wt[(size_t)i];
                                                    if (!(wi > 0)) continue;
                                                    if (!(wi > wfloor)) {
                                                        ++below;
                                                        continue;
                                                    }
                                                    const ld tol = 1e-9L * xmax + clog * fmax[(size_t)i] * taps[(size_t)i] / wi;
                                                    if (!(tol <= 1e-3L * xmax)) {
                                                        ++skipped;
                                                        continue;
                                                    }
                                                    ++judged;
                                                    if (i >= xr.size()) {
                                                        s.fail("istft", "size", fmt("output has %d samples, %d frames", xr.size(), (int)S.size()),
                                                               fmt("sample %d is covered by a complete frame with weight %Lg", i, wi), P().kv("letter", nm).kv("i", i).kv("nx", nx));
                                                        break;
                                                    }
                                                    const double e = (double)(fabsl((ld)xr[i] - (ld)xs[i]) / tol);
                                                    if (!(e <= 1.0)) {
                                                        s.fail("istft", "istft-value",
                                                               fmt("xr[%d] = %.17g, |diff| = %.3g * tol_i (tol_i = %.3Lg, max|x| = %g), weight %Lg (max %Lg)", i, xr[i], e, tol, xmax, wi, wmax),
                                                               fmt("x[%d] = %.17g within tol_i (weight is non-zero)", i, xs[i]),
                                                               P().kv("letter", nm).kv("i", i).kv("weight", (double)wi).kv("nx", nx));
                                                        break;
                                                    }
                                                    worst = std::max(worst, e);
                                                    tiny = std::max(tiny, (double)-log10l(wi / wmax));
                                                }
                                                s.worst("istft: |xr-x|/tol_i (condition-aware tolerance)", worst);
                                                s.worst("istft: -log10(smallest judged weight / max weight)", tiny);
                                            }
                                            if (chk == 1) {
                                                s.note(pfx + "istft samples judged (weight > 0, tol_i <= 1e-3 max|x|)", judged);
                                                if (skipped) s.note(pfx + "istft samples with weight > 0 not judged (tol_i > 1e-3 max|x|)", skipped);
                                                if (below) s.note(pfx + "istft samples with 0 < weight <= 16 nseg eps max(wmax,1) read as zero weight", below);
                                            }
                                        });
                                    }
                }
            }
        }
    }
    // ================================================================ stft.history: istft must not depend on earlier calls
    // Sequences of 2 (thorough: also 3) stft -> istft round trips in ONE thread with nfft, overlap, signal length and method
    // fixed; only the window VALUES change, and the window lives in ONE persistent arr_real buffer that is overwritten in
    // place (same address by construction).  Control sequences keep the window and change only the signal.  Every round
    // trip must pass the istft value oracle and be bit-identical to the same call made as the first call of a fresh thread.
    {
        struct HC {
            int nfft, ov;
        };
        std::vector<HC> cfgs = {{16, 8}, {16, 12}, {64, 48}, {256, 192}, {256, 128}, {4096, 2048}};
        if (T) {
            for (HC e : {HC{512, 256}, HC{1024, 768}, HC{24, 18}, HC{96, 72}, HC{128, 96}, HC{128, 64}, HC{1024, 512}, HC{2048, 1536}, HC{4096, 3072}, HC{8192, 4096}}) cfgs.push_back(e);
        }
        if (asan_pass) cfgs = {{16, 8}, {16, 12}, {64, 48}};
        const char* wnames[5] = {"hann", "hamming", "blackman", "rect", "2*hann"};
        const OverlapMethod methods[2] = {OverlapMethod::Ola, OverlapMethod::Wola};
        const char* mname[2] = {"ola", "wola"};
        for (const HC& c : cfgs) {
            if (!ctx.wants("stft.history")) break;
            const int nfft = c.nfft, ov = c.ov, hop = nfft - ov;
            const int nx = nfft + 3 * hop + hop - 1;   // not aligned to the hop
            // windows of the alphabet that iscola accepts for this overlap (either method)
            std::vector<std::string> ws;
            for (const char* wn : wnames) {
                arr_real tmp(nfft);
                fill_window(tmp, wn);
                bool acc = false;
                try {
                    acc = iscola(tmp, ov, OverlapMethod::Ola) || iscola(tmp, ov, OverlapMethod::Wola);
                } catch (const std::exception&) {
                }
                if (acc) ws.push_back(wn);
            }
            // sequences: steps are (window, signal)
            struct Step {
                std::string w, x;
            };
            std::vector<std::vector<Step>> seqs;
            for (const auto& w1 : ws)
                for (const auto& w2 : ws)
                    if (w1 != w2) seqs.push_back({{w1, "dense"}, {w2, "dense"}});
            for (const auto& w1 : ws) {   // control: same window, only the signal changes
                seqs.push_back({{w1, "ramp"}, {w1, "dense"}});
                seqs.push_back({{w1, "dense"}, {w1, "ramp"}});
                seqs.push_back({{w1, "dense"}, {w1, "dense"}});
            }
            if (T)
                for (const auto& w1 : ws)
                    for (const auto& w2 : ws)
                        for (const auto& w3 : ws)
                            if (w1 != w2 && w2 != w3) seqs.push_back({{w1, "dense"}, {w2, "dense"}, {w3, "dense"}});
            for (int im = 0; im < 2; ++im)
                for (const auto& seq : seqs) {
                    std::string sname;
                    for (const Step& st : seq) sname += (sname.empty() ? "" : " > ") + st.w + "/" + st.x;
                    if (!ctx.take("stft.history", P().kv("nfft", nfft).kv("overlap", ov).kv("method", mname[im]).kv("seq", sname))) continue;
                    run_case(ctx, boxed, "istft", [&](Sink& s) {
                        s.nontrivial();
                        s.note(pfx + fmt("stft.history nfft=%d overlap=%d %s, %d-step sequences", nfft, ov, mname[im], (int)seq.size()));
                        arr_real wbuf(nfft), xs(nx);   // persistent buffers, overwritten in place
                        const real_t* waddr = wbuf.data();
                        for (size_t k = 0; k < seq.size(); ++k) {
                            double xmax = 1;
                            fill_window(wbuf, seq[k].w);
                            fill_signal(xs, seq[k].x, xmax);
                            if (wbuf.data() != waddr) s.note(pfx + "stft.history: window buffer moved (harness)");
                            const auto S = stft(xs, wbuf, ov, nfft, StftRange::Onesided);
                            {
                                // a rejected call right before the valid one: the same frames, the LAST one with a wrong number of bins
                                // (whatever the call had accumulated before it noticed must not leak into the next call)
                                auto Sb = S;
                                if (!Sb.empty() && Sb.back().size() > 1) {
                                    Sb.back() = arr_cmplx(Sb.back().size() - 1);
                                    try {
                                        (void)istft(Sb, wbuf, ov, nfft, StftRange::Onesided, methods[im]);
                                        s.note(pfx + "stft.history: frame list with a short last frame accepted");
                                    } catch (const std::exception&) {
                                        s.note(pfx + "stft.history: rejected istft call before the valid one");
                                    }
                                }
                            }
                            const arr_real xr = istft(S, wbuf, ov, nfft, StftRange::Onesided, methods[im]);
                            s.tick();
                            const std::string label = fmt("step %d of [%s]", (int)k + 1, sname.c_str());
                            istft_value_ok(s, wbuf, nfft, ov, im, xs, xmax, xr, label, "stft.history: |xr-x|/tol_i");
                            // the same call as the first call of a fresh thread (fresh thread_local state, own buffers)
                            arr_real ref;
                            std::string err;
                            std::thread th([&] {
                                try {
                                    arr_real w2(nfft), x2(nx);
                                    double xm;
                                    fill_window(w2, seq[k].w);
                                    fill_signal(x2, seq[k].x, xm);
                                    const auto S2 = stft(x2, w2, ov, nfft, StftRange::Onesided);
                                    ref = istft(S2, w2, ov, nfft, StftRange::Onesided, methods[im]);
                                } catch (const std::exception& e) {
                                    err = e.what();
                                }
                            });
                            th.join();
                            s.tick();
                            if (!err.empty()) {
                                s.fail("istft", "exception", "exception in a fresh thread: " + err, "a result");
                            } else if (!bitsame(xr, ref)) {
                                int d = 0;
                                while (d < xr.size() && d < ref.size() && biteq(xr[d], ref[d])) ++d;
                                s.fail("istft", "history-dependence",
                                       fmt("%s: differs from the same call made first in a fresh thread at sample %d: %.17g vs %.17g (sizes %d / %d)", label.c_str(), d,
                                           d < xr.size() ? xr[d] : NAN, d < ref.size() ? ref[d] : NAN, xr.size(), ref.size()),
                                       "bit-identical result for identical arguments", P().kv("step", (int)k + 1).kv("i", d));
                            }
                        }
                    });
                }
        }
    }
    // ================================================================ window shorter than nfft (zero-padded frames)
    // nwin in {nfft-1, nfft/2, 3}; every overlap accepted by iscola (nfft 16) or the hops (nwin-1)/2, nwin/2, 1 (larger nfft);
    // signal lengths EXACTLY nwin + k*hop (k = 0, 1, 5) and one sample more / less.  Same value oracle as istft.roundtrip.
    {
        std::vector<int> nffts = {16, 64, 256};
        if (T) nffts.push_back(1024);
        if (asan_pass) nffts = {16};
        const OverlapMethod methods[2] = {OverlapMethod::Ola, OverlapMethod::Wola};
        const char* mname[2] = {"ola", "wola"};
        for (int nfft : nffts) {
            if (!ctx.wants("istft.shortwin")) break;
            std::set<int> nwins = {nfft - 1, nfft / 2, 3};
            for (int nwin : nwins) {
                std::vector<Win> wins;
                wins.push_back({"hann-sym", window::hann(nwin, true)});
                wins.push_back({"hann-per", window::hann(nwin, false)});
                wins.push_back({"hamming-sym", window::hamming(nwin, true)});
                {
                    arr_real ones(nwin);
                    for (int i = 0; i < nwin; ++i) ones[i] = 1.0;
                    wins.push_back({"rect", ones});
                }
                for (const Win& W : wins) {
                    std::set<int> ovs;
                    if (nfft <= 16) {
                        for (int ov = 0; ov < nwin; ++ov) ovs.insert(ov);
                    } else {
                        for (int hop : {(nwin - 1) / 2, nwin / 2, 1, nwin / 4})
                            if (hop >= 1 && hop <= nwin) ovs.insert(nwin - hop);
                    }
                    for (int ov : ovs) {
                        bool acc = false;
                        try {
                            acc = iscola(W.w, ov, OverlapMethod::Ola) || iscola(W.w, ov, OverlapMethod::Wola);
                        } catch (const std::exception&) {
                        }
                        if (!acc) continue;
                        const int hop = nwin - ov;
                        for (int im = 0; im < 2; ++im)
                            for (int k : {0, 1, 5})
                                for (int e : {0, 1, -1}) {
                                    const int nx = nwin + k * hop + e;
                                    if (nx < nwin) continue;
                                    if (!ctx.take("istft.shortwin", P().kv("nfft", nfft).kv("nwin", nwin).kv("win", W.name).kv("overlap", ov).kv("method", mname[im]).kv("nx", nx))) continue;
                                    run_case(ctx, boxed, "stft/istft", [&](Sink& s) {
                                        s.nontrivial();
                                        s.note(pfx + fmt("istft.shortwin nfft=%d nwin=%s", nfft, nwin == nfft - 1 ? "nfft-1" : nwin == 3 ? "3" : "nfft/2"));
                                        for (int l = 0; l < 2; ++l) {
                                            arr_real xs(nx);
                                            double xmax = 1;
                                            fill_signal(xs, l == 0 ? "ramp" : "dense", xmax);
                                            const auto S = stft(xs, W.w, ov, nfft, StftRange::Onesided);
                                            const arr_real xr = istft(S, W.w, ov, nfft, StftRange::Onesided, methods[im]);
                                            s.tick();
                                            istft_value_ok(s, W.w, nfft, ov, im, xs, xmax, xr, l == 0 ? "ramp" : "dense", "istft.shortwin: |xr-x|/tol_i");
                                        }
                                    });
                                }
                    }
                }
            }
        }
    }

    // ================================================================ every public stft / istft overload (include/dsplib/stft.h)
    //   stft(x, win, overlap, nfft, range = Onesided)        stft(x, nfft, range = Onesided)   [hann(nfft, periodic), overlap nfft/2]
    //   istft(X, win, overlap, nfft, range = Onesided, method = Wola)    istft(X, nfft, range = Onesided, method = Wola)   [same window / overlap]
    // Each short / defaulted form must be bit-identical to the fully explicit call it documents, and the round trip
    // through the short forms must reproduce x (istft value oracle with the documented window and overlap).
    {
        std::vector<int> nffts = {8, 16, 64, 256, 1024};
        if (asan_pass) nffts = {8, 16};
        const StftRange ranges[3] = {StftRange::Onesided, StftRange::Twosided, StftRange::Centered};
        const char* rname[3] = {"onesided", "twosided", "centered"};
        const OverlapMethod methods[2] = {OverlapMethod::Ola, OverlapMethod::Wola};
        const char* mname[2] = {"ola", "wola"};
        for (int nfft : nffts)
            for (int ir = 0; ir < 3; ++ir)
                for (int im = 0; im < 2; ++im)
                    for (int nx : {2 * nfft, 3 * nfft + 5}) {
                        if (!ctx.take("stft.overloads", P().kv("nfft", nfft).kv("range", rname[ir]).kv("method", mname[im]).kv("nx", nx))) continue;
                        run_case(ctx, boxed, "stft/istft", [&](Sink& s) {
                            s.nontrivial();
                            const arr_real win = window::hann(nfft, false);
                            const int ov = nfft / 2;
                            auto same_frames = [&](const std::vector<arr_cmplx>& A, const std::vector<arr_cmplx>& B, const char* what) {
                                s.tick();
                                bool ok = A.size() == B.size();
                                for (size_t f = 0; ok && f < A.size(); ++f) ok = bitsame(A[f], B[f]);
                                if (!ok) s.fail("stft", std::string("overload:") + what, std::string(what) + " differs from the fully explicit call", "bit-identical frames", P().kv("form", what));
                            };
                            auto same_sig = [&](const arr_real& A, const arr_real& B, const char* what) {
                                s.tick();
                                if (!bitsame(A, B)) {
                                    int d = 0;
                                    while (d < A.size() && d < B.size() && biteq(A[d], B[d])) ++d;
                                    s.fail("istft", std::string("overload:") + what,
                                           fmt("%s differs from the fully explicit call at sample %d: %.17g vs %.17g (sizes %d / %d)", what, d, d < A.size() ? A[d] : NAN,
                                               d < B.size() ? B[d] : NAN, A.size(), B.size()),
                                           "bit-identical output", P().kv("form", what).kv("i", d));
                                }
                            };
                            for (int l = 0; l < 2; ++l) {
                                arr_real xs(nx);
                                double xmax = 1;
                                fill_signal(xs, l == 0 ? "ramp" : "dense", xmax);
                                const auto S = stft(xs, win, ov, nfft, ranges[ir]);
                                same_frames(stft(xs, nfft, ranges[ir]), S, "stft(x,nfft,range)");
                                if (ir == 0) {
                                    same_frames(stft(xs, nfft), S, "stft(x,nfft)");
                                    same_frames(stft(xs, win, ov, nfft), S, "stft(x,win,overlap,nfft)");
                                }
                                const arr_real xe = istft(S, win, ov, nfft, ranges[ir], methods[im]);
                                same_sig(istft(S, nfft, ranges[ir], methods[im]), xe, "istft(X,nfft,range,method)");
                                if (im == 1) {
                                    same_sig(istft(S, nfft, ranges[ir]), xe, "istft(X,nfft,range)");
                                    same_sig(istft(S, win, ov, nfft, ranges[ir]), xe, "istft(X,win,overlap,nfft,range)");
                                    if (ir == 0) {
                                        same_sig(istft(S, nfft), xe, "istft(X,nfft)");
                                        same_sig(istft(S, win, ov, nfft), xe, "istft(X,win,overlap,nfft)");
                                    }
                                }
                                // round trip through the short forms only
                                const arr_real xr = istft(stft(xs, nfft, ranges[ir]), nfft, ranges[ir], methods[im]);
                                s.tick();
                                istft_value_ok(s, win, nfft, ov, im, xs, xmax, xr, std::string("short-form round trip, ") + (l == 0 ? "ramp" : "dense"), "stft.overloads: |xr-x|/tol_i");
                                istft_value_ok(s, win, nfft, ov, im, xs, xmax, xe, std::string("explicit round trip, ") + (l == 0 ? "ramp" : "dense"), "stft.overloads: |xr-x|/tol_i");
                            }
                        });
                    }
    }
    return ctx.finish();
}
