// C01 - forward transforms equal the DFT for every length and input.
// Engine E1 (bounded-exhaustive enumeration).  Every length n of the stated set is its own plan tree; for each n
// every entry point (fft(arr_cmplx), fft(arr_real), rfft, FftPlan / FftPlanR: solve(array), solve(pointers),
// operator()) is run on a finite alphabet of data letters whose transforms are known in closed form (unit
// impulses = columns of the transform matrix, bin-centred tones, constant, alternating sign, two geometric
// sequences, a 1e+150/1e-150 two-impulse letter) plus one fixed dense letter with an O(n^2) long-double DFT.
// Oracle: || X - X_ref ||_2 <= 32 n eps || X_ref ||_2 (the bound of the property statement).
// Nothing is sampled; the transform is linear with data-independent control flow, so for n <= NIMP the impulse
// letters pin the complete matrix.
#include "vf.hpp"
#include <cfloat>

using namespace vf;
using namespace dsplib;

namespace {

const double TOL = 32.0;        // the property's bound: 32 * n * eps relative l2
const double TOL_PAIR = 64.0;   // two results that are each within TOL of the exact DFT differ by at most 2*TOL

bool isprime_i(int n) {
    if (n < 2) return false;
    for (int d = 2; (long long)d * d <= n; ++d)
        if (n % d == 0) return false;
    return true;
}
bool ispow2_i(int n) { return n >= 1 && (n & (n - 1)) == 0; }

// ---- mirror of the plan selection (lib/fft/fft.cpp, fact-fft.cpp:PlanTree); used for coverage notes and to place
// impulses at the top-level P/Q split.  It does not influence any verdict.
enum { L_SMALL = 1, L_POW2 = 2, L_P3 = 4, L_DIRECT = 8, L_BLUE = 16 };
struct Shape {
    int depth = 0;
    unsigned leaves = 0;
    int P = 0, Q = 0;
};
unsigned leaf_of(int n) {
    if (n == 1 || n == 2 || n == 4 || n == 8) return L_SMALL;
    if (ispow2_i(n)) return L_POW2;
    if (n == 3) return L_P3;
    return n <= 41 ? L_DIRECT : L_BLUE;
}
std::vector<int> tree_factors(int n) {   // (2^k block, odd primes) sorted ascending
    std::vector<int> f;
    int m = n;
    while (m % 2 == 0) m /= 2;
    if (m != n) f.push_back(n / m);
    for (int d = 3; (long long)d * d <= m; d += 2)
        while (m % d == 0) {
            f.push_back(d);
            m /= d;
        }
    if (m > 1) f.push_back(m);
    std::sort(f.begin(), f.end());
    return f;
}
Shape tree(int n) {
    Shape s;
    if (ispow2_i(n)) {
        s.leaves = leaf_of(n);
        return s;
    }
    auto fac = tree_factors(n);
    if (fac.size() == 1) {
        s.leaves = leaf_of(n);
        return s;
    }
    int P = fac[0];
    const double qn = std::sqrt((double)n);
    for (size_t i = 1; i < fac.size(); ++i) {
        if ((double)P * fac[i] > qn) break;
        P *= fac[i];
    }
    Shape a = tree(P), b = tree(n / P);
    s.depth = 1 + std::max(a.depth, b.depth);
    s.leaves = a.leaves | b.leaves;
    s.P = P;
    s.Q = n / P;
    return s;
}
std::string leaves_str(unsigned m) {
    std::string o;
    const char* nm[] = {"small", "pow2", "prime3", "direct", "bluestein"};
    for (int i = 0; i < 5; ++i)
        if (m & (1u << i)) o += (o.empty() ? "" : "+") + std::string(nm[i]);
    return o;
}
std::string kind_c_short(int n) {
    if (n == 1 || n == 2 || n == 4 || n == 8) return "small";
    if (isprime_i(n)) return n == 3 ? "prime3" : (n <= 41 ? "prime-direct" : "prime-bluestein");
    if (ispow2_i(n)) return "pow2";
    return "factor";
}
std::string kind_c(int n) {
    std::string k = kind_c_short(n);
    if (k != "factor") return k;
    Shape s = tree(n);
    return fmt("factor depth=%d leaves=%s%s", s.depth, leaves_str(s.leaves).c_str(), s.P == s.Q ? " P=Q" : "");
}
std::string kind_r_short(int n) {
    if (n == 1 || n == 2 || n == 4 || n == 8) return "small";
    if (isprime_i(n)) return "prime->" + kind_c_short(n);
    if (n % 2 == 0) return "half[" + kind_c_short(n / 2) + "]";
    return "oddcomposite->factor";
}
std::string kind_r(int n) {
    if (n == 1 || n == 2 || n == 4 || n == 8) return "small";
    if (isprime_i(n)) return "prime->" + kind_c(n);
    if (n % 2 == 0) return "half[" + kind_c(n / 2) + "]";
    return "oddcomposite->" + kind_c(n);
}

// ---- per-length reference data
struct Len {
    int n = 0;
    std::vector<cld> tw;   // exp(-2 pi i k / n)
    void init(int n_) {
        if (n == n_) return;
        n = n_;
        tw.resize((size_t)n);
        for (int k = 0; k < n; ++k) tw[(size_t)k] = twid(k, n);
    }
};

struct Run {
    Ctx& ctx;
    int n = 0;
    std::string dom, wkey;
    bool light = false;   // quick tier, listed lengths above N: only the free function and plan.solve(array), fewer positions
    Run(Ctx& c) : ctx(c) {}

    // evaluations = library results compared with the oracle (the block itself, counted by take(), is taken back)
    void tick(uint64_t k = 1) {
        ctx.evaluations += k;
        ctx.checks[ctx.cur_check].evals += k;
    }
    void untick() {
        --ctx.evaluations;
        --ctx.checks[ctx.cur_check].evals;
    }

    // err / (len eps |R|);  +inf for non-finite output or a non-zero output where the reference is exactly zero
    static double rel(const arr_cmplx& X, const std::vector<cld>& R, ld normR, int len) {
        ld s = 0;
        for (int i = 0; i < X.size(); ++i) s += std::norm(cld(X[i].re, X[i].im) - R[(size_t)i]);
        if (!(s == s) || std::isinf((double)s)) return INFINITY;
        if (normR == 0) return s == 0 ? 0.0 : INFINITY;
        return (double)(sqrtl(s) / (normR * (ld)len * (ld)EPS));
    }

    // compare one library result with the reference
    bool judge(const char* site, const arr_cmplx& X, const std::vector<cld>& R, ld normR, int len, const std::string& letter,
               double tol = TOL) {
        tick();
        if (X.size() != len) {
            ctx.fail(site, fmt("result has %d elements", X.size()), fmt("%d elements", len),
                     P().kv("letter", letter).kv("kind", "size"));
            return false;
        }
        double e = rel(X, R, normR, len);
        if (std::isfinite(e)) ctx.worst(wkey, e);
        if (!(e <= tol)) {
            int kmax = 0;
            ld dmax = -1;
            for (int i = 0; i < len; ++i) {
                ld d = std::abs(cld(X[i].re, X[i].im) - R[(size_t)i]);
                if (!(d <= dmax)) {
                    dmax = d;
                    kmax = i;
                }
            }
            ctx.fail(site,
                     fmt("rel l2 err = %.3g * len*eps (len=%d); worst bin k=%d got %.17g%+.17gi", e, len, kmax, X[kmax].re, X[kmax].im),
                     fmt("<= %.0f * len*eps; bin k=%d = %.17Lg%+.17Lgi", tol, kmax, R[(size_t)kmax].real(), R[(size_t)kmax].imag()),
                     P().kv("letter", letter).kv("kind", "value").kv("k", kmax));
            return false;
        }
        return true;
    }
    // further results of the same input: identical bits => same verdict, otherwise judged on their own
    void judge_more(const char* site, const arr_cmplx& X, const arr_cmplx& X1, bool ok1, const std::vector<cld>& R, ld normR, int len,
                    const std::string& letter) {
        if (ok1 && bitsame(X, X1)) {
            tick();
            return;
        }
        judge(site, X, R, normR, len, letter);
    }
};

struct PlansC {
    FftPlan p;
    explicit PlansC(int n) : p(n) {}
};

// all complex entry points on one letter
void run_c(Run& r, const FftPlan& plan, const std::vector<cld>& x, const std::vector<cld>& R, const std::string& letter) {
    const int n = r.n;
    const ld nR = l2(R);
    const arr_cmplx a = to_arr(x);
    arr_cmplx X1 = fft(a);
    bool ok = r.judge("fft(arr_cmplx)", X1, R, nR, n, letter);
    arr_cmplx X2 = plan.solve(a);
    r.judge_more("FftPlan::solve(arr_cmplx)", X2, X1, ok, R, nR, n, letter);
    if (r.light) return;
    arr_cmplx X3 = plan(a);
    r.judge_more("FftPlan::operator()", X3, X1, ok, R, nR, n, letter);
    arr_cmplx X4(n);
    static_cast<const BaseFftPlanC&>(plan).solve(a.data(), X4.data(), n);
    r.judge_more("FftPlan::solve(ptr)", X4, X1, ok, R, nR, n, letter);
    // the same overload with the output written over the input (the base-class overload copies its input first, so in-place use works)
    arr_cmplx X6 = a;
    try {
        static_cast<const BaseFftPlanC&>(plan).solve(X6.data(), X6.data(), n);
        r.judge_more("FftPlan::solve(ptr, in place)", X6, X1, ok, R, nR, n, letter);
    } catch (const std::exception& e) {
        r.tick();
        r.ctx.fail("FftPlan::solve(ptr, in place)", fmt("exception: %s", e.what()), "the transform, as from the out-of-place call", P().kv("letter", letter).kv("kind", "throw"));
    }
}

// all real entry points on one letter (x must be real), plus agreement with the complex path and conjugate symmetry
void run_r(Run& r, const FftPlanR& plan, const std::vector<cld>& x, const std::vector<cld>& R, const std::string& letter) {
    const int n = r.n;
    const ld nR = l2(R);
    const arr_real a = to_arr_real(x);
    arr_cmplx X1 = fft(a);
    bool ok = r.judge("fft(arr_real)", X1, R, nR, n, letter);
    arr_cmplx X3 = plan.solve(a);
    r.judge_more("FftPlanR::solve(arr_real)", X3, X1, ok, R, nR, n, letter);
    if (!r.light) {
        arr_cmplx X2 = rfft(a);
        r.judge_more("rfft", X2, X1, ok, R, nR, n, letter);
        arr_cmplx X4 = plan(a);
        r.judge_more("FftPlanR::operator()", X4, X1, ok, R, nR, n, letter);
        arr_cmplx X5(n);
        static_cast<const BaseFftPlanR&>(plan).solve(a.data(), X5.data(), n);
        r.judge_more("FftPlanR::solve(ptr)", X5, X1, ok, R, nR, n, letter);
    }
    if (!ok || X1.size() != n) return;
    // real input == same values given as complex numbers (both are within TOL of the DFT => within 2*TOL of each other)
    arr_cmplx Xc = fft(complex(a));
    r.tick();
    if (Xc.size() != n) {
        r.ctx.fail("fft(complex(x))", fmt("result has %d elements", Xc.size()), fmt("%d elements", n), P().kv("letter", letter).kv("kind", "size"));
        return;
    }
    ld sd = 0, ss = 0;
    for (int k = 0; k < n; ++k) {
        sd += std::norm(cld(X1[k].re, X1[k].im) - cld(Xc[k].re, Xc[k].im));
        const int k2 = (n - k) % n;
        ss += std::norm(cld(X1[k].re, X1[k].im) - cld(X1[k2].re, -X1[k2].im));
    }
    if (nR > 0) {
        double e1 = (double)(sqrtl(sd) / (nR * n * (ld)EPS)), e2 = (double)(sqrtl(ss) / (nR * n * (ld)EPS));
        if (std::isfinite(e1)) r.ctx.worst("real-vs-complex input: rel l2 diff/(n eps)", e1);
        if (std::isfinite(e2)) r.ctx.worst("conjugate symmetry: rel l2 defect/(n eps)", e2);
        if (!(e1 <= TOL_PAIR))
            r.ctx.fail("fft(arr_real)", fmt("differs from fft(complex(x)) by %.3g * n*eps relative l2", e1), fmt("<= %.0f * n*eps", TOL_PAIR),
                       P().kv("letter", letter).kv("kind", "real-vs-complex"));
        if (!(e2 <= TOL_PAIR))
            r.ctx.fail("fft(arr_real)", fmt("X[n-k] differs from conj(X[k]) by %.3g * n*eps relative l2", e2), fmt("<= %.0f * n*eps", TOL_PAIR),
                       P().kv("letter", letter).kv("kind", "conj-symmetry"));
    }
}

// ---------------------------------------------------------------- letters with closed-form transforms
const cld CAMP(0.75L, -1.25L);   // complex amplitude used in the complex domain (catches re/im mix-ups)

struct Letters {
    const Len& L;
    int n;
    bool cplx;
    cld amp;
    Letters(const Len& l, bool c) : L(l), n(l.n), cplx(c), amp(c ? CAMP : cld(1, 0)) {}

    void impulse(int m, std::vector<cld>& x, std::vector<cld>& R) const {
        x.assign((size_t)n, cld(0));
        R.resize((size_t)n);
        x[(size_t)m] = amp;
        long long idx = 0;
        for (int k = 0; k < n; ++k) {
            R[(size_t)k] = amp * L.tw[(size_t)idx];
            idx += m;
            if (idx >= n) idx -= n;
        }
    }
    // complex domain: amp*exp(+2 pi i f j/n) -> n*amp at bin f;  real domain: cos(2 pi f j/n + 0.3)
    void tone(int f, std::vector<cld>& x, std::vector<cld>& R) const {
        x.resize((size_t)n);
        R.assign((size_t)n, cld(0));
        const cld ph = cis(0.3L);
        long long idx = 0;
        for (int j = 0; j < n; ++j) {
            cld e = std::conj(L.tw[(size_t)idx]);
            x[(size_t)j] = cplx ? amp * e : cld((ph * e).real(), 0);
            idx += f;
            if (idx >= n) idx -= n;
        }
        if (cplx) {
            R[(size_t)f] = amp * (ld)n;
        } else {
            R[(size_t)f] += ph * ((ld)n / 2);
            R[(size_t)((n - f) % n)] += std::conj(ph) * ((ld)n / 2);
        }
    }
    void constant(std::vector<cld>& x, std::vector<cld>& R) const {
        x.assign((size_t)n, amp);
        R.assign((size_t)n, cld(0));
        R[0] = amp * (ld)n;
    }
    void alternating(std::vector<cld>& x, std::vector<cld>& R) const {
        x.resize((size_t)n);
        R.assign((size_t)n, cld(0));
        for (int j = 0; j < n; ++j) x[(size_t)j] = (j & 1) ? -amp : amp;
        if (n % 2 == 0) {
            R[(size_t)(n / 2)] = amp * (ld)n;
        } else {
            // sum_j (-w^k)^j = 2 / (1 + w^k),  1 + exp(-i t) = 2 cos(t/2) exp(-i t/2),  t = 2 pi k / n
            for (int k = 0; k < n; ++k) {
                cld h = twid(k, 2LL * n);   // exp(-i t/2)
                R[(size_t)k] = amp * (ld)2 / ((ld)2 * h.real() * h);
            }
        }
    }
    // 1 / (1 - exp(i*2*pi*t/(4n)*2)) helper: 1 - exp(i phi) = -2i sin(phi/2) exp(i phi/2) with phi/2 = 2 pi t / (4n)
    cld one_minus_cis(long long t) const {
        cld s = twid(t, 4LL * n, +1);
        return cld(0, -2) * s.imag() * s;
    }
    // unit-modulus geometric letter r = exp(2 pi i (f + 1/2)/n), f = n/3: r^n = -1, X[k] = 2 / (1 - r w^k)
    // real domain: cos(2 pi (f + 1/2) j / n) = (r^j + conj(r)^j)/2
    void geo_unit(std::vector<cld>& x, std::vector<cld>& R) const {
        const long long f = n / 3;
        x.resize((size_t)n);
        R.resize((size_t)n);
        for (int j = 0; j < n; ++j) {
            cld e = twid((2 * f + 1) * (long long)j, 2LL * n, +1);
            x[(size_t)j] = cplx ? amp * e : cld(e.real(), 0);
        }
        for (int k = 0; k < n; ++k) {
            cld g1 = (ld)2 / one_minus_cis(2 * f + 1 - 2 * (long long)k);
            if (cplx) {
                R[(size_t)k] = amp * g1;
            } else {
                cld g2 = (ld)2 / one_minus_cis(-(2 * f + 1) - 2 * (long long)k);
                R[(size_t)k] = (g1 + g2) * (ld)0.5;
            }
        }
    }
    // decaying geometric letter |r| = 1 - 4/n (0.5 for n <= 4); complex domain r = rho*exp(i pi/(2n)), real domain r = rho
    void geo_decay(std::vector<cld>& x, std::vector<cld>& R) const {
        const ld rho = n > 4 ? 1 - (ld)4 / n : (ld)0.5;
        x.resize((size_t)n);
        R.resize((size_t)n);
        for (int j = 0; j < n; ++j) {
            ld p = powl(rho, (ld)j);
            x[(size_t)j] = cplx ? amp * p * twid(j, 4LL * n, +1) : cld(p, 0);
        }
        const ld rn = powl(rho, (ld)n);
        for (int k = 0; k < n; ++k) {
            if (cplx) R[(size_t)k] = amp * (cld(1) - rn * cld(0, 1)) / (cld(1) - rho * twid(1 - 4 * (long long)k, 4LL * n, +1));
            else R[(size_t)k] = (cld(1) - rn) / (cld(1) - rho * L.tw[(size_t)k]);
        }
    }
    // 1e+150 / 1e-150 two-impulse letter
    void bigsmall(std::vector<cld>& x, std::vector<cld>& R) const {
        int a = 1 % n, b = n - 1;
        if (a == b) b = 0;
        const cld va = cplx ? cld(1e150L, -0.5e150L) : cld(1e150L, 0), vb = cplx ? cld(1e-150L, 2e-150L) : cld(1e-150L, 0);
        x.assign((size_t)n, cld(0));
        x[(size_t)a] = va;
        if (b != a) x[(size_t)b] += vb;
        R.resize((size_t)n);
        for (int k = 0; k < n; ++k) {
            R[(size_t)k] = va * L.tw[(size_t)(((long long)a * k) % n)];
            if (b != a) R[(size_t)k] += vb * L.tw[(size_t)(((long long)b * k) % n)];
        }
    }
    void dense(std::vector<cld>& x) const {
        x.resize((size_t)n);
        for (int j = 0; j < n; ++j) x[(size_t)j] = cplx ? cld(lcg_val(1, (uint64_t)j), lcg_val(2, (uint64_t)j)) : cld(lcg_val(5, (uint64_t)j), 0);
    }
};

std::vector<int> index_set(int n, int nimp, bool light) {
    std::vector<int> s;
    if (n <= nimp) {
        for (int m = 0; m < n; ++m) s.push_back(m);
        return s;
    }
    std::vector<long long> c = {0, 1, 2, n / 2 - 1, n / 2, n / 2 + 1, n - 2, n - 1};
    if (light) c = {1, n / 2 + 1, n - 1};
    for (int base : {n, n % 2 == 0 ? n / 2 : 0}) {   // top-level split of the complex plan and of the half-length plan
        if (base < 2 || isprime_i(base) || ispow2_i(base)) continue;
        Shape t = tree(base);
        const int mul = base == n ? 1 : 2;
        for (long long v : {t.P, t.Q, t.P + 1}) {
            c.push_back(v * mul);
            if (mul == 2) c.push_back(v * mul + 1);
        }
    }
    for (long long v : c)
        if (v >= 0 && v < n) s.push_back((int)v);
    std::sort(s.begin(), s.end());
    s.erase(std::unique(s.begin(), s.end()), s.end());
    return s;
}

std::vector<int> large_lengths() {
    return {
        // primes next to powers of two and others (Bluestein)
        4099, 8191, 8209, 16381, 16411, 32749, 32771, 65521, 65537, 99991, 131071,
        // 2p, p^2, p^3
        8198, 131042, 4489, 16129, 63001, 128881, 4913, 50653, 103823,
        // 3^k, 5^k, 7^k
        6561, 19683, 59049, 15625, 78125, 16807, 117649,
        // 2^k * p
        8224, 44032, 65528, 126976, 130996, 65538,
        // highly composite / round numbers
        5040, 7560, 10080, 15120, 20160, 25200, 27720, 30030, 45360, 50400, 55440, 83160, 90090, 110880, 10000, 100000, 120120,
        // powers of two
        8192, 16384, 32768, 65536, 131072,
        // two distinct large primes, odd composite with Bluestein leaves
        4087 /*61*67*/, 10403 /*101*103*/, 36863 /*191*193*/, 121103 /*347*349*/, 5 * 8191, 3 * 43691,
    };
}
// thorough only: more listed lengths (n*n overflows int above 46340; neighbours of 65536; large prime factors; round composites)
std::vector<int> more_large_lengths() {
    return {
        46337, 46340, 46341, 46348, 46349 /*prime*/, 46351 /*prime*/, 92698 /*2*46349*/, 92702 /*2*46351*/,
        65519 /*prime*/, 65520, 65535, 65539 /*prime*/, 65543 /*prime*/, 65542 /*2*32771*/, 131038 /*2*65519*/, 131074 - 4 /*131070*/, 131056,
        100003 /*prime*/, 100042 /*2*50021*/, 130771 /*251*521*/, 9 * 8191, 11 * 11 * 521, 521 * 16, 521 * 3 * 64, 1031 * 127,
        12288, 10240, 15000, 20000, 24576, 30000, 40000, 49152, 60000, 73728, 98304, 114688, 128000, 98280, 69300, 9000, 9216, 11025 /*105^2*/,
        14641 /*11^4*/, 28561 /*13^4*/, 83521 /*17^4*/, 24389 /*29^3*/, 68921 /*41^3*/, 79507 /*43^3*/, 3 * 3 * 3 * 4096, 2 * 59049,
    };
}
// quick: listed lengths that get the complete entry-point set (the others run in light mode)
bool quick_full(int n) { return n == 4099 || n == 8192 || n == 10000 || n == 65537 || n == 65538 || n == 100000 || n == 131072; }


// one (n, m, w) czt configuration against the defining double sum with the ACTUAL double w (w^(jk) = exp(i*j*k*arg w),
// evaluated by the long-double recurrence (w^k)^j) - same tolerance as czt.def / czt.big
void czt_against_sum(Ctx& ctx, Run& r, int n, int m, cmplx_t w, const std::vector<cmplx_t>& as, const std::string& wkey) {
    const ld argw = atan2l((ld)w.im, (ld)w.re);
    int n2 = 1;
    while (n2 < m + n - 1) n2 *= 2;
    const ld Lc = (ld)n2 + (ld)std::max(m, n) * std::max(m, n);
    for (const cmplx_t& a : as) {
        const ld amag = hypotl((ld)a.re, (ld)a.im), aarg = atan2l((ld)a.im, (ld)a.re);
        std::vector<cld> ainv((size_t)n);
        for (int j = 0; j < n; ++j) ainv[(size_t)j] = powl(amag, -(ld)j) * cis(fmodl(-aarg * (ld)j, 2 * PI_L));
        CztPlan plan(n, m, w, a);
        for (int l = 0; l < 2; ++l) {
            std::vector<cld> xs((size_t)n, cld(0)), y((size_t)n);
            if (l == 0)
                for (int j = 0; j < n; ++j) xs[(size_t)j] = cld(lcg_val(3, (uint64_t)j), lcg_val(4, (uint64_t)j));
            else
                xs[(size_t)(n - 1)] = CAMP;
            ld s1 = 0;
            for (int j = 0; j < n; ++j) {
                y[(size_t)j] = xs[(size_t)j] * ainv[(size_t)j];
                s1 += std::abs(y[(size_t)j]);
            }
            std::vector<cld> Rm((size_t)m);
            for (int k = 0; k < m; ++k) {
                cld acc = 0;
                if (l == 1) {
                    acc = y[(size_t)(n - 1)] * cis(fmodl(argw * (ld)k * (ld)(n - 1), 2 * PI_L));
                } else {
                    const cld z = cis(fmodl(argw * (ld)k, 2 * PI_L));
                    cld pw = 1;
                    for (int j = 0; j < n; ++j) {
                        acc += y[(size_t)j] * pw;
                        pw *= z;
                    }
                }
                Rm[(size_t)k] = acc;
            }
            const arr_cmplx xa = to_arr(xs);
            const ld scale = sqrtl((ld)m) * s1;
            auto one = [&](const char* site, const arr_cmplx& X) {
                r.tick();
                if (X.size() != m) {
                    ctx.fail(site, fmt("result has %d elements", X.size()), fmt("%d elements", m), P().kv("kind", "size"));
                    return;
                }
                ld sq = 0;
                for (int k = 0; k < m; ++k) sq += std::norm(cld(X[k].re, X[k].im) - Rm[(size_t)k]);
                // + underflow floor: each of the n products x_j a^-j w^jk may lose up to DBL_MIN when it leaves the double range
                const ld uflow = 4 * sqrtl((ld)m) * (ld)n * (ld)DBL_MIN;
                const double err = (sq == sq) ? (double)(sqrtl(sq) / (Lc * (ld)EPS * scale + uflow)) : INFINITY;
                if (std::isfinite(err)) ctx.worst(wkey, err);
                if (!(err <= TOL))
                    ctx.fail(site, fmt("l2 err = %.3g * (n2+max(m,n)^2)*eps*sqrt(m)*sum|x_j a^-j| (w = %.17g%+.17gi), X[0]=%.17g%+.17gi", err, w.re, w.im, X[0].re, X[0].im),
                             fmt("<= %.0f; X[0]=%.17Lg%+.17Lgi", TOL, Rm[0].real(), Rm[0].imag()),
                             P().kv("letter", l == 0 ? "dense" : "impulse@n-1").kv("a_re", a.re).kv("a_im", a.im).kv("kind", "value"));
            };
            one("CztPlan::solve", plan.solve(xa));
            if (l == 0) one("czt", czt(xa, m, w, a));
        }
    }
}

}   // namespace

int main(int argc, char** argv) {
    Ctx ctx;
    ctx.parse(argc, argv, "C01");
    const bool T = ctx.thorough();
    const int N = T ? 12288 : 512;         // every length 1..N
    const int NIMP = T ? 256 : 64;         // all impulses / all tones up to this length
    const int NDENSE = T ? 2048 : 256;     // O(n^2) oracle up to this length
    const int NRES_ALL = 64;               // every n' in 1..2n up to this length
    const int NCZT = T ? 48 : 16;

    std::vector<int> lens;
    for (int n = 1; n <= N; ++n) lens.push_back(n);
    for (int n : large_lengths())
        if (n > N) lens.push_back(n);
    if (T)
        for (int n : more_large_lengths())
            if (n > N && std::find(lens.begin(), lens.end(), n) == lens.end()) lens.push_back(n);

    Len L;
    Run r(ctx);
    std::vector<cld> x, R;

    for (int n : lens) {
        // the 10 blocks of one length are enumerated in an order rotated with n so that no shard (case ordinal mod 16)
        // always receives the same kind of block
        for (int t = 0; t < 10; ++t) {
            const int u = (t + n / 2) % 10, d = u / 5, chk = u % 5;
            const bool cplx = d == 0;
            const char* dom = cplx ? "complex" : "real";
            const bool light = !T && n > N && !quick_full(n);
            auto begin_case = [&]() {
                L.init(n);
                r.n = n;
                r.light = light;
                r.dom = dom;
                r.wkey = std::string(cplx ? "fft complex " : "fft real ") + (cplx ? kind_c_short(n) : kind_r_short(n)) + ": rel l2 err/(n eps)";
                ctx.note(std::string(cplx ? "plan complex: " : "plan real: ") + (cplx ? kind_c(n) : kind_r(n)));
                if (n >= 2) ctx.nontrivial();
                r.untick();
            };
            auto guarded = [&](const char* site, const std::function<void()>& f) {
                try {
                    f();
                } catch (const std::exception& e) {
                    ctx.fail(site, std::string("exception: ") + e.what(), "a transform", P().kv("kind", "exception"));
                }
            };
            const std::vector<int> idx = index_set(n, NIMP, light);

            // ---- impulses: columns of the transform matrix
            if (chk == 0 && ctx.take("fft.impulse", P().kv("n", n).kv("input", dom))) {
                begin_case();
                guarded(cplx ? "FftPlan" : "FftPlanR", [&] {
                    Letters lt(L, cplx);
                    FftPlan pc(cplx ? n : 1);
                    FftPlanR pr(cplx ? 1 : n);
                    if ((cplx ? pc.size() : pr.size()) != n) ctx.fail("size()", fmt("%d", cplx ? pc.size() : pr.size()), fmt("%d", n));
                    for (int m : idx) {
                        lt.impulse(m, x, R);
                        if (cplx) run_c(r, pc, x, R, fmt("impulse@%d", m));
                        else run_r(r, pr, x, R, fmt("impulse@%d", m));
                    }
                });
            }
            // ---- bin-centred tones
            if (chk == 1 && ctx.take("fft.tone", P().kv("n", n).kv("input", dom))) {
                begin_case();
                guarded(cplx ? "FftPlan" : "FftPlanR", [&] {
                    Letters lt(L, cplx);
                    FftPlan pc(cplx ? n : 1);
                    FftPlanR pr(cplx ? 1 : n);
                    for (int f : idx) {
                        lt.tone(f, x, R);
                        if (cplx) run_c(r, pc, x, R, fmt("tone@%d", f));
                        else run_r(r, pr, x, R, fmt("tone@%d", f));
                    }
                });
            }
            // ---- constant, alternating sign, geometric letters, 1e+-150 letter
            if (chk == 2 && ctx.take("fft.closedform", P().kv("n", n).kv("input", dom))) {
                begin_case();
                guarded(cplx ? "FftPlan" : "FftPlanR", [&] {
                    Letters lt(L, cplx);
                    FftPlan pc(cplx ? n : 1);
                    FftPlanR pr(cplx ? 1 : n);
                    for (int l = 0; l < 5; ++l) {
                        const char* nm[] = {"constant", "alternating", "geo|r|=1", "geo|r|=1-4/n", "1e+150/1e-150"};
                        if (l == 0) lt.constant(x, R);
                        if (l == 1) lt.alternating(x, R);
                        if (l == 2) lt.geo_unit(x, R);
                        if (l == 3) lt.geo_decay(x, R);
                        if (l == 4) lt.bigsmall(x, R);
                        if (cplx) run_c(r, pc, x, R, nm[l]);
                        else run_r(r, pr, x, R, nm[l]);
                    }
                });
            }
            // ---- dense letter against the O(n^2) long-double DFT
            if (chk == 3 && n <= NDENSE && ctx.take("fft.dense", P().kv("n", n).kv("input", dom))) {
                begin_case();
                guarded(cplx ? "FftPlan" : "FftPlanR", [&] {
                    Letters lt(L, cplx);
                    FftPlan pc(cplx ? n : 1);
                    FftPlanR pr(cplx ? 1 : n);
                    lt.dense(x);
                    // the library sees the letter rounded to double; use exactly those values in the oracle
                    for (auto& v : x) v = cld((double)v.real(), (double)v.imag());
                    R = dft_ref(x);
                    if (cplx) run_c(r, pc, x, R, "dense");
                    else run_r(r, pr, x, R, "dense");
                });
            }
            // ---- fft(x, n') / rfft(x, n'): zero-pad or truncate
            if (chk == 4 && ctx.take("fft.resize", P().kv("n", n).kv("input", dom))) {
                begin_case();
                guarded("fft(x,n')", [&] {
                    std::vector<int> targets;
                    if (n <= NRES_ALL) {
                        for (int q = 1; q <= 2 * n; ++q) targets.push_back(q);
                    } else {
                        targets = {1, n - 1, n, n + 1, 2 * n};
                        if (light) targets = {n - 1, n + 1};
                        // short input padded to big lengths, long input truncated to big / small lengths
                        if (n == 100 || n == 500) targets.insert(targets.end(), {4099, 65537, 100000});
                        if (n == 131072 || n == 100000) targets.insert(targets.end(), {4097, 70001});
                    }
                    const ld rho = n > 4 ? 1 - (ld)4 / n : (ld)0.5;
                    const cld amp = cplx ? CAMP : cld(1, 0);
                    for (int q : targets) {
                        const int Lq = std::min(n, q);
                        ctx.note(q < n ? "resize: truncate" : (q == n ? "resize: same length" : "resize: zero-pad"));
                        r.wkey = std::string("fft(x,n') ") + dom + ": rel l2 err/(n' eps)";
                        for (int l = 0; l < 3; ++l) {
                            // l=0: geometric letter amp*rho^j (dense for n <= 64), l=1: impulse at n-1, l=2: impulse at min(n,n')-1
                            std::vector<cld> xin((size_t)n, cld(0)), Rq((size_t)q);
                            std::string name;
                            if (l == 0 && n <= NRES_ALL) {
                                name = "dense";
                                Letters(L, cplx).dense(xin);
                                for (auto& v : xin) v = cld((double)v.real(), (double)v.imag());
                                std::vector<cld> xr(xin.begin(), xin.begin() + Lq);
                                xr.resize((size_t)q, cld(0));
                                Rq = dft_ref(xr);
                            } else if (l == 0) {
                                name = "geo rho^j";
                                for (int j = 0; j < n; ++j) xin[(size_t)j] = amp * powl(rho, (ld)j);
                                const ld rl = powl(rho, (ld)Lq);
                                for (int k = 0; k < q; ++k)
                                    Rq[(size_t)k] = amp * (cld(1) - rl * twid((long long)k * Lq, q)) / (cld(1) - rho * twid(k, q));
                            } else {
                                const int m = l == 1 ? n - 1 : Lq - 1;
                                if (l == 2 && m == n - 1) continue;
                                name = fmt("impulse@%d", m);
                                xin[(size_t)m] = amp;
                                for (int k = 0; k < q; ++k) Rq[(size_t)k] = m < q ? amp * twid((long long)m * k, q) : cld(0);
                            }
                            name += fmt(" n'=%d", q);
                            const ld nR = l2(Rq);
                            if (cplx) {
                                arr_cmplx X = fft(to_arr(xin), q);
                                r.judge("fft(arr_cmplx,n')", X, Rq, nR, q, name);
                            } else {
                                const arr_real a = to_arr_real(xin);
                                arr_cmplx X1 = fft(a, q);
                                bool ok = r.judge("fft(arr_real,n')", X1, Rq, nR, q, name);
                                arr_cmplx X2 = rfft(a, q);
                                r.judge_more("rfft(x,n')", X2, X1, ok, Rq, nR, q, name);
                            }
                        }
                    }
                });
            }
        }
    }

    // ---------------------------------------------------------------- czt / CztPlan against the defining double sum
    {
        struct WS {
            int p, q;
        };   // w = exp(-2 pi i p/q); q == 0 stands for p/q = 1/m (the DFT-zoom spacing)
        const WS ws[12] = {{0, 1}, {1, 2}, {1, 3}, {-1, 4}, {2, 5}, {1, 7}, {3, 8}, {-5, 16}, {1, 64}, {7, 100}, {1, 1000}, {1, 0}};
        const double mags[3] = {0.5, 1.0, 2.0};
        const long double angs[4] = {0.0L, 0.7L, PI_L, -2.1L};
        // a: 3 moduli x 4 angles (the angle pi gives im = -5e-20*|a|, not 0), plus bases on the axes with the other
        // component exactly zero: negative / positive real a (im == 0) and purely imaginary a (re == 0)
        std::vector<cmplx_t> alist;
        for (int ia = 0; ia < 12; ++ia) alist.push_back(cmplx_t((double)(mags[ia / 4] * cosl(angs[ia % 4])), (double)(mags[ia / 4] * sinl(angs[ia % 4]))));
        for (double v : {-1.0, -0.5, -2.0, -1.25, 0.5, 2.0, 1.25}) alist.push_back(cmplx_t(v, 0.0));
        for (double v : {1.0, 0.5, 2.0}) {
            alist.push_back(cmplx_t(0.0, v));
            alist.push_back(cmplx_t(0.0, -v));
        }
        for (int n = 1; n <= NCZT; ++n) {
            for (int m = 1; m <= 2 * n; ++m) {
                for (int iw = 0; iw < 12; ++iw) {
                    const int p = ws[iw].p, q = ws[iw].q ? ws[iw].q : m;
                    if (!ctx.take("czt.def", P().kv("n", n).kv("m", m).kv("p", p).kv("q", q))) continue;
                    if (n >= 2) ctx.nontrivial();
                    r.untick();
                    try {
                        const cld wl = twid(p, q);
                        const cmplx_t w((double)wl.real(), (double)wl.imag());
                        const ld argw = atan2l((ld)w.im, (ld)w.re);
                        std::vector<cld> Wt((size_t)((n - 1) * (m - 1) + 1));
                        for (size_t t = 0; t < Wt.size(); ++t) Wt[t] = cis(argw * (ld)t);
                        int n2 = 1;
                        while (n2 < m + n - 1) n2 *= 2;
                        const ld Lc = (ld)n2 + (ld)std::max(m, n) * std::max(m, n);
                        ctx.note(fmt("czt conv size %d", n2));
                        for (int ia = 0; ia < (int)alist.size(); ++ia) {
                            const cmplx_t a = alist[(size_t)ia];
                            const ld amag = hypotl((ld)a.re, (ld)a.im), aarg = atan2l((ld)a.im, (ld)a.re);
                            std::vector<cld> ainv((size_t)n);
                            for (int j = 0; j < n; ++j) ainv[(size_t)j] = powl(amag, -(ld)j) * cis(-aarg * (ld)j);
                            if (a.re == 1 && a.im == 0) ctx.note("czt a == 1 (no pre-scaling path)");
                            if (a.im == 0 && a.re < 0) ctx.note("czt a negative real (im exactly 0)");
                            if (a.im == 0 && a.re > 0 && a.re != 1) ctx.note("czt a positive real != 1 (im exactly 0)");
                            if (a.re == 0) ctx.note("czt a purely imaginary (re exactly 0)");
                            CztPlan plan(n, m, w, a);
                            if (plan.size() != n) ctx.fail("CztPlan::size()", fmt("%d", plan.size()), fmt("%d", n));
                            for (int l = 0; l < 3; ++l) {
                                std::vector<cld> xs((size_t)n, cld(0));
                                const char* nm[] = {"dense", "impulse@n-1", "constant"};
                                if (l == 0)
                                    for (int j = 0; j < n; ++j) xs[(size_t)j] = cld(lcg_val(3, (uint64_t)j), lcg_val(4, (uint64_t)j));
                                if (l == 1) xs[(size_t)(n - 1)] = CAMP;
                                if (l == 2) xs.assign((size_t)n, CAMP);
                                std::vector<cld> Rm((size_t)m);
                                ld s1 = 0;
                                for (int j = 0; j < n; ++j) s1 += std::abs(xs[(size_t)j] * ainv[(size_t)j]);
                                for (int k = 0; k < m; ++k) {
                                    cld acc = 0;
                                    for (int j = 0; j < n; ++j) acc += xs[(size_t)j] * ainv[(size_t)j] * Wt[(size_t)(j * k)];
                                    Rm[(size_t)k] = acc;
                                }
                                const arr_cmplx xa = to_arr(xs);
                                const ld scale = sqrtl((ld)m) * s1;
                                auto one = [&](const char* site, const arr_cmplx& X) {
                                    r.tick();
                                    if (X.size() != m) {
                                        ctx.fail(site, fmt("result has %d elements", X.size()), fmt("%d elements", m), P().kv("kind", "size"));
                                        return;
                                    }
                                    ld s = 0;
                                    for (int k = 0; k < m; ++k) s += std::norm(cld(X[k].re, X[k].im) - Rm[(size_t)k]);
                                    const double e = (s == s) ? (double)(sqrtl(s) / (Lc * (ld)EPS * scale)) : INFINITY;
                                    if (std::isfinite(e)) ctx.worst("czt: l2 err/((n2+max(m,n)^2) eps sqrt(m) sum|x a^-j|)", e);
                                    const ld nR = l2(Rm);
                                    if (std::isfinite(e) && nR > 0.1L * scale)
                                        ctx.worst("czt (informative, outputs not cancelling): rel l2 err/(n eps)", (double)(sqrtl(s) / (nR * n * (ld)EPS)));
                                    if (!(e <= TOL))
                                        ctx.fail(site, fmt("l2 err = %.3g * (n2+max(m,n)^2)*eps*sqrt(m)*sum|x_j a^-j|, X[0]=%.17g%+.17gi", e, X[0].re, X[0].im),
                                                 fmt("<= %.0f; X[0]=%.17Lg%+.17Lgi", TOL, Rm[0].real(), Rm[0].imag()),
                                                 P().kv("letter", nm[l]).kv("a_re", a.re).kv("a_im", a.im).kv("kind", "value"));
                                };
                                one("CztPlan::solve", plan.solve(xa));
                                if (l == 0) {
                                    one("CztPlan::operator()", plan(xa));
                                    one("czt", czt(xa, m, w, a));
                                }
                            }
                        }
                    } catch (const std::exception& e) {
                        ctx.fail("czt", std::string("exception: ") + e.what(), "a transform", P().kv("kind", "exception"));
                    }
                }
            }
        }
    }
    // ---------------------------------------------------------------- czt / CztPlan with big n or m (sparse grid)
    // Same oracle and tolerance as czt.def; the double sum is evaluated with the long-double recurrence w^(jk) = (w^k)^j
    // (error ~ j*6e-20, far below the tolerance) so that n*m up to 1e8 stays affordable.  |a|^n must stay representable,
    // hence |a| is 1 or 1 + 32/n here.
    {
        struct NM {
            int n, m;
        };
        std::vector<NM> nm = {{5000, 7}, {7, 5000}, {4097, 4097}, {70000, 3}, {3, 70000}};
        if (T) {
            for (int n : {64, 100, 127, 128, 255, 256, 257, 500, 1000, 1024, 2047, 4096, 5000})
                for (int m : {1, 17, n - 1, n, n + 1, 2 * n}) nm.push_back({n, m});
            for (NM e : {NM{8192, 8192}, NM{10000, 9999}, NM{131072, 5}, NM{5, 131072}, NM{65537, 64}, NM{64, 65537}, NM{46341, 3}}) nm.push_back(e);
        }
        const int wsb[3][2] = {{1, 0}, {7, 100}, {1, 1000}};   // q == 0: p/q = 1/m
        for (const NM& e : nm) {
            const int n = e.n, m = e.m;
            for (int iw = 0; iw < 3; ++iw) {
                const int p = wsb[iw][0], q = wsb[iw][1] ? wsb[iw][1] : m;
                if (!ctx.take("czt.big", P().kv("n", n).kv("m", m).kv("p", p).kv("q", q))) continue;
                ctx.nontrivial();
                r.untick();
                try {
                    const cld wl = twid(p, q);
                    const cmplx_t w((double)wl.real(), (double)wl.imag());
                    const ld argw = atan2l((ld)w.im, (ld)w.re);
                    int n2 = 1;
                    while (n2 < m + n - 1) n2 *= 2;
                    const ld Lc = (ld)n2 + (ld)std::max(m, n) * std::max(m, n);
                    ctx.note(fmt("czt.big conv size %d", n2));
                    const double g = 1.0 + 32.0 / n;
                    const cmplx_t as[5] = {cmplx_t(1, 0), cmplx_t(-1, 0), cmplx_t(0.6, 0.8), cmplx_t(-g, 0), cmplx_t(0, 1.0 / g)};
                    for (int ia = 0; ia < 5; ++ia) {
                        const cmplx_t a = as[ia];
                        const ld amag = hypotl((ld)a.re, (ld)a.im), aarg = atan2l((ld)a.im, (ld)a.re);
                        std::vector<cld> ainv((size_t)n);
                        for (int j = 0; j < n; ++j) ainv[(size_t)j] = powl(amag, -(ld)j) * cis(fmodl(-aarg * (ld)j, 2 * PI_L));
                        CztPlan plan(n, m, w, a);
                        for (int l = 0; l < 2; ++l) {
                            std::vector<cld> y((size_t)n, cld(0));   // x_j * a^-j
                            std::vector<cld> xs((size_t)n, cld(0));
                            if (l == 0)
                                for (int j = 0; j < n; ++j) xs[(size_t)j] = cld(lcg_val(3, (uint64_t)j), lcg_val(4, (uint64_t)j));
                            else
                                xs[(size_t)(n - 1)] = CAMP;
                            ld s1 = 0;
                            for (int j = 0; j < n; ++j) {
                                y[(size_t)j] = xs[(size_t)j] * ainv[(size_t)j];
                                s1 += std::abs(y[(size_t)j]);
                            }
                            std::vector<cld> Rm((size_t)m);
                            for (int k = 0; k < m; ++k) {
                                const cld z = cis(fmodl(argw * (ld)k, 2 * PI_L));
                                cld acc = 0, pw = 1;
                                if (l == 1) {
                                    acc = y[(size_t)(n - 1)] * cis(fmodl(argw * (ld)k * (ld)(n - 1), 2 * PI_L));
                                } else {
                                    for (int j = 0; j < n; ++j) {
                                        acc += y[(size_t)j] * pw;
                                        pw *= z;
                                    }
                                }
                                Rm[(size_t)k] = acc;
                            }
                            const arr_cmplx xa = to_arr(xs);
                            const ld scale = sqrtl((ld)m) * s1;
                            auto one = [&](const char* site, const arr_cmplx& X) {
                                r.tick();
                                if (X.size() != m) {
                                    ctx.fail(site, fmt("result has %d elements", X.size()), fmt("%d elements", m), P().kv("kind", "size"));
                                    return;
                                }
                                ld sq = 0;
                                for (int k = 0; k < m; ++k) sq += std::norm(cld(X[k].re, X[k].im) - Rm[(size_t)k]);
                                const double err = (sq == sq) ? (double)(sqrtl(sq) / (Lc * (ld)EPS * scale)) : INFINITY;
                                if (std::isfinite(err)) ctx.worst("czt.big: l2 err/((n2+max(m,n)^2) eps sqrt(m) sum|x a^-j|)", err);
                                const ld nR = l2(Rm);
                                if (std::isfinite(err) && nR > 0.1L * scale)
                                    ctx.worst("czt.big (informative): rel l2 err/eps", (double)(sqrtl(sq) / (nR * (ld)EPS)));
                                if (!(err <= TOL))
                                    ctx.fail(site, fmt("l2 err = %.3g * (n2+max(m,n)^2)*eps*sqrt(m)*sum|x_j a^-j|, X[0]=%.17g%+.17gi", err, X[0].re, X[0].im),
                                             fmt("<= %.0f; X[0]=%.17Lg%+.17Lgi", TOL, Rm[0].real(), Rm[0].imag()),
                                             P().kv("letter", l == 0 ? "dense" : "impulse@n-1").kv("a_re", a.re).kv("a_im", a.im).kv("kind", "value"));
                            };
                            one("CztPlan::solve", plan.solve(xa));
                            if (l == 0 && ia < 2) one("czt", czt(xa, m, w, a));
                        }
                    }
                } catch (const std::exception& ex) {
                    ctx.fail("czt", std::string("exception: ") + ex.what(), "a transform", P().kv("kind", "exception"));
                }
            }
        }
    }
    // ---------------------------------------------------------------- czt with w next to, but not at, a root of unity
    // angle(w) = 2 pi j/base * (1 + d), base in {n, m}: a unit-modulus w that is NOT a root of unity must be used as given
    // (an angle error is multiplied by j*k in the sum).  Oracle: double sum with the actual double w.
    {
        struct NM {
            int n, m;
        };
        std::vector<NM> nm = {{16, 16}, {64, 64}, {100, 100}, {257, 257}, {1000, 1000}, {16, 31}, {64, 63}, {64, 65}, {100, 17}, {48, 96}, {257, 300}, {1000, 999}};
        if (T)
            for (NM e : {NM{32, 32}, NM{128, 128}, NM{500, 500}, NM{2048, 2048}, NM{4096, 4096}, NM{1000, 2000}, NM{4099, 64}, NM{64, 4099}}) nm.push_back(e);
        const ld ds[8] = {1e-8L, -1e-8L, 1e-10L, -1e-10L, 1e-12L, -1e-12L, 4 * (ld)EPS, -4 * (ld)EPS};
        const char* dn[8] = {"+1e-8", "-1e-8", "+1e-10", "-1e-10", "+1e-12", "-1e-12", "+4eps", "-4eps"};
        for (const NM& e : nm) {
            const int n = e.n, m = e.m;
            for (int ib = 0; ib < 2; ++ib) {
                if (ib == 1 && m == n) continue;
                const int base = ib == 0 ? n : m;
                std::set<int> js = {1, 3, base - 1};
                for (int j : js)
                    for (int id = 0; id < 8; ++id) {
                        if (!ctx.take("czt.nearroot", P().kv("n", n).kv("m", m).kv("base", ib == 0 ? "n" : "m").kv("j", j).kv("d", dn[id]))) continue;
                        ctx.nontrivial();
                        r.untick();
                        try {
                            const ld th = 2 * PI_L * (ld)j / (ld)base * (1 + ds[id]);
                            const cmplx_t w((double)cosl(th), (double)-sinl(th));
                            std::vector<cmplx_t> as = {cmplx_t(1, 0), cmplx_t(-1, 0), cmplx_t(0.6, 0.8)};
                            if (n <= 257) as.push_back(cmplx_t(0.5 * std::cos(0.7), 0.5 * std::sin(0.7)));
                            ctx.note(std::string("czt.nearroot d=") + dn[id]);
                            czt_against_sum(ctx, r, n, m, w, as, "czt.nearroot: l2 err/((n2+max(m,n)^2) eps sqrt(m) sum|x a^-j|)");
                        } catch (const std::exception& ex) {
                            ctx.fail("czt", std::string("exception: ") + ex.what(), "a transform", P().kv("kind", "exception"));
                        }
                    }
            }
        }
    }
    // ---------------------------------------------------------------- czt with |a| at the edge of [0.5, 2] and long inputs
    // a^(-j) spans up to 2^(+-n): the result must stay finite and within the usual tolerance whenever sum|x_j a^-j| (times
    // the internal FFT length) is representable in double; cases where it is not are skipped and counted.
    {
        for (int n : {540, 600, 1026, 1100, 2000})
            for (int m : {5, n})
                for (int iw = 0; iw < 2; ++iw)
                    for (int im = 0; im < 4; ++im) {
                        const double mag = im == 0 ? 0.5 : im == 1 ? 0.6 : im == 2 ? 1.5 : 2.0;
                        const int p = iw == 0 ? 1 : 7, q = iw == 0 ? m : 100;
                        if (!ctx.take("czt.amag", P().kv("n", n).kv("m", m).kv("p", p).kv("q", q).kv("amag", mag))) continue;
                        ctx.nontrivial();
                        r.untick();
                        int n2 = 1;
                        while (n2 < m + n - 1) n2 *= 2;
                        // largest term |a|^-(n-1); headroom for n terms and the n2-point convolution
                        if ((ld)(n - 1) * log2l((ld)1 / mag) + log2l((ld)n * n2) > 1000) {
                            ctx.note("czt.amag skipped: sum|x_j a^-j| * n2 not representable in double");
                            r.tick();
                            continue;
                        }
                        try {
                            const cld wl = twid(p, q);
                            const cmplx_t w((double)wl.real(), (double)wl.imag());
                            std::vector<cmplx_t> as = {cmplx_t(mag, 0.0), cmplx_t(-mag, 0.0), cmplx_t(mag * std::cos(0.7), mag * std::sin(0.7)), cmplx_t(0.0, mag)};
                            ctx.note(fmt("czt.amag |a|=%g n=%d", mag, n));
                            czt_against_sum(ctx, r, n, m, w, as, "czt.amag: l2 err/((n2+max(m,n)^2) eps sqrt(m) sum|x a^-j|)");
                        } catch (const std::exception& ex) {
                            ctx.fail("czt", std::string("exception: ") + ex.what(), "a transform", P().kv("kind", "exception"));
                        }
                    }
    }
    return ctx.finish();
}
