// C18 - delay estimators and the preamble detector recover the true offset.
// Engine E1 (bounded-exhaustive enumeration of (length, shift, letter, noise level) / shape tuples / preamble positions).
//
//  delayseq.real / delayseq.cmplx   every (N, d) in a box, index-tag contents, bit-exact against "shift by d, zero fill"
//                                   (the complex instantiation only with -DVERIF_DELAYSEQ_CMPLX, see tools/propdefs/C18.py:
//                                   on the pinned tree delayseq<cmplx_t> does not compile - F26)
//  finddelay.real / finddelay.cmplx finddelay(x, shift(x, d) + noise) == d
//  gccphat / gccphat.multi          |gccphat(shift(x, d) + noise, x, fs).tau * fs - d| <= 0.5
//  peakloc.real                     vertex of the parabola through the three samples around idx (cyclic neighbours)
//  detector.present / .absent       PreambleDetector against the documented formula evaluated in long double
//  detector.reset                   histories on one object: traffic, reset(), stream - the stream is handled as by a fresh detector
//  detector.first                   preamble on samples 0 .. nh-1 of a fresh detector / right after reset(): detection at offset nh-1
//  detector.refscale                reference c*h, c in {1e-3, 0.1, sqrt 2, 10, 1e3}: same behaviour as with h (score is a normalised correlation)
//  detector.gap                     traffic, 1 / 2 / 5 frames that are exactly zero in every sample, traffic (preamble absent / before / after the gap)
//  detector.reject                  a call with a length that is not a multiple of frame_len() throws and leaves the object unchanged
//
// Shifts of complex data are made by the harness itself (own zero-fill shift), real shifts are made by the harness as
// well and delayseq() is compared with them bit-exactly in the same case, so a delayseq defect is not reported as a
// finddelay defect.
#include "vf.hpp"
#include <functional>
#include <memory>
#include <optional>

using namespace vf;
using namespace dsplib;

#define GUARD_BEGIN try {
#define GUARD_END(site)                                                                                                  \
    }                                                                                                                    \
    catch (const std::exception& e) {                                                                                    \
        ctx.fail(site, std::string("exception: ") + e.what(), "returns a value", P().kv("kind", "exception"));           \
    }

// ---------------------------------------------------------------------------------------------- helpers
template<class E>
static base_array<E> shifted(const base_array<E>& x, int d) {
    const int n = x.size();
    base_array<E> r(n);
    for (int i = 0; i < n; ++i) {
        const long long j = (long long)i - d;
        if (j >= 0 && j < n) r[i] = x[(int)j];
        else r[i] = E{};
    }
    return r;
}

static arr_real white_real(int len, int t) {
    arr_real x(len);
    for (int i = 0; i < len; ++i) x[i] = lcg_gauss(180 + t, (uint64_t)i);
    return x;
}
static arr_cmplx white_cmplx(int len, int t) {
    arr_cmplx x(len);
    for (int i = 0; i < len; ++i) x[i] = cmplx_t{lcg_gauss(190 + t, (uint64_t)i), lcg_gauss(195 + t, (uint64_t)i)};
    return x;
}
static double noise_gain(int db) { return db == 0 ? 0.0 : std::pow(10.0, -db / 20.0); }

// ---------------------------------------------------------------------------------------------- delayseq
static void run_delayseq(Ctx& ctx, bool T) {
    const int NMAX = T ? 40 : 16;
    for (int N = 1; N <= NMAX; ++N) {
        for (int d = -N - 2; d <= N + 2; ++d) {
            if (ctx.take("delayseq.real", P().kv("N", N).kv("d", d))) {
                GUARD_BEGIN
                arr_real x(N);
                for (int i = 0; i < N; ++i) x[i] = i + 1;
                arr_real want = shifted(x, d);
                arr_real got = delayseq(x, d);
                if (d != 0 && std::abs(d) < N) ctx.nontrivial();
                ctx.note(d == 0 ? "delayseq d=0" : (std::abs(d) >= N ? "delayseq |d|>=N" : (d > 0 ? "delayseq delay" : "delayseq advance")));
                if (!bitsame(got, want)) ctx.fail("delayseq", show(got), show(want), P().kv("kind", "value"));
                // the same call with the array given as a temporary, as an expression result and as a moved-from copy (an overload
                // that reuses the storage of an rvalue must shift exactly like the copying one), and the input must be untouched
                arr_real g2 = delayseq(arr_real(x), d), g3 = delayseq(x * 1.0, d);
                arr_real xc2 = x;
                arr_real g4 = delayseq(std::move(xc2), d);
                if (!bitsame(g2, want) || !bitsame(g3, want) || !bitsame(g4, want))
                    ctx.fail("delayseq(rvalue)", show(!bitsame(g2, want) ? g2 : (!bitsame(g3, want) ? g3 : g4)), show(want), P().kv("kind", "value").kv("arg", "rvalue"));
                arr_real x0(N);
                for (int i = 0; i < N; ++i) x0[i] = i + 1;
                if (!bitsame(x, x0)) ctx.fail("delayseq", "input modified", "unchanged", P().kv("kind", "input"));
                GUARD_END("delayseq")
            }
#ifdef VERIF_DELAYSEQ_CMPLX
            if (ctx.take("delayseq.cmplx", P().kv("N", N).kv("d", d))) {
                GUARD_BEGIN
                arr_cmplx x(N);
                for (int i = 0; i < N; ++i) x[i] = cmplx_t{(double)(i + 1), -(double)(i + 1) - 0.5};
                arr_cmplx want = shifted(x, d);
                arr_cmplx got = delayseq(x, d);
                if (d != 0 && std::abs(d) < N) ctx.nontrivial();
                ctx.note("delayseq complex instantiation exercised");
                if (!bitsame(got, want)) ctx.fail("delayseq", showc(got), showc(want), P().kv("kind", "value"));
                arr_cmplx g2 = delayseq(arr_cmplx(x), d);
                arr_cmplx xc2 = x;
                arr_cmplx g4 = delayseq(std::move(xc2), d);
                if (!bitsame(g2, want) || !bitsame(g4, want)) ctx.fail("delayseq(rvalue)", showc(!bitsame(g2, want) ? g2 : g4), showc(want), P().kv("kind", "value").kv("arg", "rvalue"));
                GUARD_END("delayseq")
            }
#endif
        }
    }
}

// 100 000-sample arrays: shifts around 65 536 and the array length
static void run_delayseq_big(Ctx& ctx, bool T) {
    (void)T;
    const int N = 100000;
    for (int d : {0, 1, -1, 4096, 65535, 65536, -65536, -65537, 99999, -99999, 100000, 100001}) {
        if (ctx.take("delayseq.big", P().kv("N", N).kv("d", d).kv("type", "real"))) {
            GUARD_BEGIN
            arr_real x(N);
            for (int i = 0; i < N; ++i) x[i] = i + 1;
            ctx.nontrivial();
            if (!bitsame(delayseq(x, d), shifted(x, d))) ctx.fail("delayseq", "differs from x shifted by d with zero fill", "bit-exact shift", P().kv("kind", "value"));
            GUARD_END("delayseq")
        }
#ifdef VERIF_DELAYSEQ_CMPLX
        if (ctx.take("delayseq.big", P().kv("N", N).kv("d", d).kv("type", "cmplx"))) {
            GUARD_BEGIN
            arr_cmplx x(N);
            for (int i = 0; i < N; ++i) x[i] = cmplx_t{(double)(i + 1), -(double)(i + 1) - 0.5};
            ctx.nontrivial();
            if (!bitsame(delayseq(x, d), shifted(x, d))) ctx.fail("delayseq", "differs from x shifted by d with zero fill", "bit-exact shift", P().kv("kind", "value"));
            GUARD_END("delayseq")
        }
#endif
    }
}

// ---------------------------------------------------------------------------------------------- finddelay / gccphat
struct LenSpec {
    int len;
    bool all;       // every shift in [-len/4, len/4] (else 9 boundary shifts)
    int nletters;   // white letters 0 .. nletters-1
    int nnoise;     // noise levels: 3 = {clean, -40 dB, -30 dB}, 2 = {clean, -30 dB}
    int nfs;        // gccphat sampling rates: 3 = {1, 8000, 48000}, 1 = {48000}
    bool big;       // 70 000 / 80 000 samples: shifts {+-1, +-9999, +-len/4}
};

static std::vector<int> shifts_for(const LenSpec& L) {
    std::vector<int> ds;
    const int q = L.len / 4;
    if (L.big) {
        ds = {-q, -9999, -1, 1, 9999, q};
    } else if (L.all) {
        for (int d = -q; d <= q; ++d) ds.push_back(d);
    } else {
        for (int d : {0, 1, L.len / 8, q - 1, q}) {
            ds.push_back(d);
            if (d) ds.push_back(-d);
        }
        std::sort(ds.begin(), ds.end());
    }
    return ds;
}

static void run_delay_estimators(Ctx& ctx, bool T) {
    std::vector<LenSpec> lens;
    if (T) {
        for (int l = 128; l <= 512; ++l) lens.push_back({l, true, 3, 3, 3, false});
        for (int l = 513; l <= 1100; ++l) lens.push_back({l, true, 3, 3, 3, false});   // covers 1000, 1001, 1023, 1024, 1025
        for (int l : {2047, 2048, 2049, 4095, 4096, 5000, 8191, 8192}) lens.push_back({l, true, 1, 2, 3, false});
    } else {
        for (int l : {128, 129, 200, 256, 500}) lens.push_back({l, true, 3, 3, 3, false});
        for (int l : {1000, 5000}) lens.push_back({l, false, 3, 3, 3, false});
    }
    // big signals (FFT length 131072, indices beyond 65536): 70 000 samples with shifts up to +-17 500 = len/4 and 80 000
    // samples with shifts up to +-20 000 = len/4
    for (int l : {70000, 80000}) lens.push_back({l, false, 1, 2, 1, true});
    const int noises3[] = {0, 40, 30}, noises2[] = {0, 30};
    const int fss3[] = {1, 8000, 48000}, fss1[] = {48000};
    for (const LenSpec& L : lens) {
        const std::vector<int> noises(L.nnoise == 3 ? noises3 : noises2, (L.nnoise == 3 ? noises3 : noises2) + L.nnoise);
        const std::vector<int> fss(L.nfs == 3 ? fss3 : fss1, (L.nfs == 3 ? fss3 : fss1) + L.nfs);
        const int len = L.len;
        // letters built lazily, once per length
        std::vector<arr_real> xr;
        std::vector<arr_cmplx> xc;
        arr_real nr;
        arr_cmplx nc;
        auto prep = [&]() {
            if (!xr.empty()) return;
            for (int t = 0; t < 3; ++t) {
                xr.push_back(white_real(len, t));
                xc.push_back(white_cmplx(len, t));
            }
            nr = arr_real(len);
            nc = arr_cmplx(len);
            for (int i = 0; i < len; ++i) {
                nr[i] = lcg_gauss(170, (uint64_t)i);
                nc[i] = cmplx_t{lcg_gauss(171, (uint64_t)i), lcg_gauss(172, (uint64_t)i)};
            }
        };
        for (int d : shifts_for(L)) {
            for (int t = 0; t < L.nletters; ++t) {
                for (int nz : noises) {
                    const double g = noise_gain(nz);
                    if (ctx.take("finddelay.real", P().kv("len", len).kv("d", d).kv("letter", t).kv("noise_db", nz))) {
                        GUARD_BEGIN
                        prep();
                        arr_real y = shifted(xr[t], d);
                        if (t == 0 && nz == 0) {   // the statement composes finddelay with delayseq: they must agree with the own shift
                            arr_real yl = delayseq(xr[t], d);
                            if (!bitsame(yl, y)) ctx.fail("delayseq", "delayseq(x,d) differs from x shifted by d with zero fill", "bit-exact shift", P().kv("kind", "value"));
                        }
                        for (int i = 0; i < len; ++i) y[i] += g * nr[i];
                        const int got = finddelay(xr[t], y);
                        if (d != 0) ctx.nontrivial();
                        if (L.big) ctx.note("finddelay on 70000 / 80000-sample signals");
                        {
                            int p2 = 1;
                            while (p2 < len) p2 <<= 1;
                            if (d > p2 - len) ctx.note("finddelay positive shift larger than nextpow2(len) - len");
                        }
                        ctx.note(d < 0 ? "finddelay negative shift (lag unwrap)" : (d > 0 ? "finddelay positive shift" : "finddelay zero shift"));
                        if (got != d) ctx.fail("finddelay", fmt("%d", got), fmt("%d", d), P().kv("kind", "value").kv("got", got));
                        GUARD_END("finddelay")
                    }
                    if (ctx.take("finddelay.cmplx", P().kv("len", len).kv("d", d).kv("letter", t).kv("noise_db", nz))) {
                        GUARD_BEGIN
                        prep();
                        arr_cmplx y = shifted(xc[t], d);
#ifdef VERIF_DELAYSEQ_CMPLX
                        if (t == 0 && nz == 0) {
                            arr_cmplx yl = delayseq(xc[t], d);
                            if (!bitsame(yl, y)) ctx.fail("delayseq", "delayseq(x,d) differs from x shifted by d with zero fill", "bit-exact shift", P().kv("kind", "value"));
                        }
#endif
                        for (int i = 0; i < len; ++i) y[i] = cmplx_t{y[i].re + g * nc[i].re, y[i].im + g * nc[i].im};
                        const int got = finddelay(xc[t], y);
                        if (d != 0) ctx.nontrivial();
                        if (got != d) ctx.fail("finddelay", fmt("%d", got), fmt("%d", d), P().kv("kind", "value").kv("got", got));
                        GUARD_END("finddelay")
                    }
                    for (int fs : fss) {
                        if (!ctx.take("gccphat", P().kv("len", len).kv("d", d).kv("letter", t).kv("noise_db", nz).kv("fs", fs))) continue;
                        GUARD_BEGIN
                        prep();
                        arr_real y = shifted(xr[t], d);
                        for (int i = 0; i < len; ++i) y[i] += g * nr[i];
                        auto res = gccphat(y, xr[t], fs);
                        if (d != 0) ctx.nontrivial();
                        ctx.note(d < 0 ? "gccphat negative shift (lag unwrap)" : (d > 0 ? "gccphat positive shift" : "gccphat zero shift"));
                        const double dev = std::fabs(res.tau * (double)fs - (double)d);
                        if (!(dev <= 0.5))
                            ctx.fail("gccphat", fmt("tau*fs=%.9g", res.tau * (double)fs), fmt("within 0.5 of %d", d), P().kv("kind", "value"));
                        else
                            ctx.worst("gccphat |tau*fs - d| / 0.5", dev / 0.5);
                        if (res.corr.size() != len) ctx.fail("gccphat", fmt("corr has %d elements", res.corr.size()), fmt("%d", len), P().kv("kind", "size"));
                        GUARD_END("gccphat")
                    }
                }
            }
            // multi-channel form: two channels shifted by d and -d
            if (ctx.take("gccphat.multi", P().kv("len", len).kv("d", d))) {
                GUARD_BEGIN
                prep();
                std::vector<arr_real> ch{shifted(xr[1], d), shifted(xr[1], -d)};
                auto res = gccphat(ch, xr[1], 8000);
                if (d != 0) ctx.nontrivial();
                if (res.tau.size() != 2 || res.corr.size() != 2) {
                    ctx.fail("gccphat", fmt("%d delays, %zu correlations", res.tau.size(), res.corr.size()), "2, 2", P().kv("kind", "size"));
                } else {
                    for (int c = 0; c < 2; ++c) {
                        const int dd = c ? -d : d;
                        const double dev = std::fabs(res.tau[c] * 8000.0 - dd);
                        if (!(dev <= 0.5))
                            ctx.fail("gccphat", fmt("channel %d: tau*fs=%.9g", c, res.tau[c] * 8000.0), fmt("within 0.5 of %d", dd), P().kv("kind", "value").kv("channel", c));
                        else
                            ctx.worst("gccphat |tau*fs - d| / 0.5", dev / 0.5);
                    }
                }
                GUARD_END("gccphat")
            }
        }
    }
}

// ---------------------------------------------------------------------------------------------- shifts beyond len/4 (thorough)
// The statement covers |d| <= len/4.  Larger shifts (up to len/2 - 1) are checked only where the answer is forced for ANY
// estimator that returns the lag of the largest cross-correlation value: the harness computes the linear cross-correlation
// of x and the shifted copy and requires the value at lag d to exceed 4x the magnitude at every other lag (so that no
// circular folding of two lags can reach it).  Pairs without that dominance are skipped and counted.
template<class E>
static bool lag_dominant(const base_array<E>& x, const base_array<E>& y, int d) {
    const int n = x.size();
    auto corr = [&](int lag) {   // sum_i y[i] * conj(x[i - lag])
        double re = 0, im = 0;
        for (int i = std::max(0, lag); i < std::min(n, n + lag); ++i) {
            if constexpr (std::is_same_v<E, cmplx_t>) {
                re += y[i].re * x[i - lag].re + y[i].im * x[i - lag].im;
                im += y[i].im * x[i - lag].re - y[i].re * x[i - lag].im;
            } else {
                re += y[i] * x[i - lag];
            }
        }
        return std::sqrt(re * re + im * im);
    };
    const double peak = corr(d);
    for (int lag = -(n - 1); lag <= n - 1; ++lag)
        if (lag != d && 4 * corr(lag) >= peak) return false;
    return true;
}

static void run_beyond(Ctx& ctx, bool T) {
    if (!T) return;
    for (int len : {128, 255, 256, 257, 511, 512, 513, 1000, 1023, 1024, 2047, 2048}) {
        arr_real xr;
        arr_cmplx xc;
        auto prep = [&]() {
            if (xr.size() == len) return;
            xr = white_real(len, 0);
            xc = white_cmplx(len, 0);
        };
        for (int a = len / 4 + 1; a <= len / 2 - 1; ++a) {
            for (int d : {a, -a}) {
                for (int cplx = 0; cplx < 2; ++cplx) {
                    if (!ctx.take("finddelay.beyond", P().kv("len", len).kv("d", d).kv("type", cplx ? "cmplx" : "real"))) continue;
                    GUARD_BEGIN
                    prep();
                    int got = 0;
                    bool dom = false;
                    if (cplx) {
                        arr_cmplx y = shifted(xc, d);
                        dom = lag_dominant(xc, y, d);
                        if (dom) got = finddelay(xc, y);
                    } else {
                        arr_real y = shifted(xr, d);
                        dom = lag_dominant(xr, y, d);
                        if (dom) got = finddelay(xr, y);
                    }
                    if (!dom) {
                        ctx.note("finddelay.beyond: correlation peak not dominant, skipped");
                        continue;
                    }
                    ctx.nontrivial();
                    ctx.note("finddelay.beyond: checked (len/4 < |d| < len/2, dominant correlation peak)");
                    if (got != d) ctx.fail("finddelay", fmt("%d", got), fmt("%d", d), P().kv("kind", "value").kv("got", got));
                    GUARD_END("finddelay")
                }
            }
        }
    }
}

#ifdef VERIF_GCCPHAT_FRAC
// ---------------------------------------------------------------------------------------------- gccphat, fractional delays
// NOT part of the registered check (the statement quantifies over integer shifts): band-limited circular delay by a
// fractional number of samples, |tau*fs - delta| <= 0.5.  On the pinned tree this FAILS (the sub-sample refinement of
// gccphat moves away from the true delay: delta = 0.375 -> tau = -0.52); enable with -DVERIF_GCCPHAT_FRAC to reproduce.
static void run_gccphat_frac(Ctx& ctx, bool T) {
    for (int N : {255, 256, 257, 500}) {
        if (!T && N > 256) continue;
        arr_real x = white_real(N, 0);
        std::vector<cld> X;
        for (int q = -(N / 4) * 8; q <= (N / 4) * 8; ++q) {
            if (!T && q % 2) continue;
            const double delta = q / 8.0;
            if (N % 2 == 0 && (q % 8 == 4 || q % 8 == -4)) continue;   // half-sample delay zeroes the Nyquist bin: 0/0 in the PHAT weighting
            if (!ctx.take("gccphat.frac", P().kv("len", N).kv("delta", delta))) continue;
            GUARD_BEGIN
            if (X.empty()) X = dft_ref(to_cld(x));
            std::vector<cld> Xs(N);
            for (int k = 0; k < N; ++k) {
                const int ks = (k <= N / 2) ? k : k - N;
                cld ph = cis(-2 * PI_L * (ld)ks * (ld)delta / N);
                if (N % 2 == 0 && k == N / 2) ph = cld(cosl(PI_L * (ld)delta), 0);
                Xs[k] = X[k] * ph;
            }
            std::vector<cld> yy = dft_ref(Xs, +1);
            arr_real y(N);
            for (int m = 0; m < N; ++m) y[m] = (double)(yy[m].real() / N);
            auto r = gccphat(y, x, 1);
            ctx.nontrivial();
            const double dev = std::fabs(r.tau - delta);
            if (!(dev <= 0.5)) ctx.fail("gccphat", fmt("tau=%.6g", r.tau), fmt("within 0.5 of the delay %.3f", delta), P().kv("kind", "value"));
            else ctx.worst("gccphat.frac |tau - delta| / 0.5", dev / 0.5);
            GUARD_END("gccphat")
        }
    }
}
#endif

// ---------------------------------------------------------------------------------------------- peakloc (real)
static void run_peakloc(Ctx& ctx, bool T) {
    const std::vector<int> vals = T ? std::vector<int>{-5, -2, -1, 0, 1, 2, 3, 5} : std::vector<int>{-2, -1, 0, 1, 2, 5};
    const int NMAX = T ? 8 : 6;
    for (int n = 3; n <= NMAX; ++n) {
        for (int idx = 0; idx < n; ++idx) {
            for (int cyc = 0; cyc < 2; ++cyc) {
                for (int yl : vals)
                    for (int yk : vals)
                        for (int yr : vals) {
                            const int curv = yl - 2 * yk + yr;
                            if (curv == 0) continue;   // no parabola vertex (data-independent skip: same in every shard)
                            if (!cyc && (idx == 0 || idx == n - 1)) continue;   // no three samples around idx: statement silent, not checked
                            if (!ctx.take("peakloc.real", P().kv("n", n).kv("idx", idx).kv("cyclic", cyc).kv("yl", yl).kv("yk", yk).kv("yr", yr))) continue;
                            GUARD_BEGIN
                            arr_real x(n);
                            for (int i = 0; i < n; ++i) x[i] = 100 + 7 * i;   // filler that would give a different vertex if mis-indexed
                            x[(idx - 1 + n) % n] = yl;
                            x[(idx + 1) % n] = yr;
                            x[idx] = yk;
                            const double got = peakloc(x, idx, cyc != 0);
                            const ld want = (ld)idx + (ld)(yl - yr) / (2.0L * curv);
                            ctx.nontrivial();
                            ctx.note((idx == 0 || idx == n - 1) ? "peakloc cyclic wrap neighbour" : "peakloc interior");
                            const ld err = fabsl((ld)got - want);
                            const ld tol = 1e-12L * (1 + fabsl(want));
                            if (!(err <= tol))
                                ctx.fail("peakloc", fmt("%.17g", got), fmt("%.17Lg", want), P().kv("kind", "value"));
                            else
                                ctx.worst("peakloc |got-vertex| / (1e-12 (1+|vertex|))", (double)(err / tol));
                            // the vertex does not depend on the scale of the data: the same samples times 2^k (exact, nothing
                            // under- or overflows: |values| <= 156) must give the bit-identical location
                            for (int k : {-1000, -300, -60, -50, -40, 40, 300, 1000}) {
                                arr_real xs(n);
                                for (int i = 0; i < n; ++i) xs[i] = std::ldexp(x[i], k);
                                const double gk = peakloc(xs, idx, cyc != 0);
                                ctx.note("peakloc real: scaled-data evaluations");
                                if (!biteq(gk, got))
                                    ctx.fail("peakloc", fmt("data * 2^%d: %.17g", k, gk), fmt("%.17g as at unit scale (vertex %.17Lg)", got, want), P().kv("kind", "scale").kv("k", k));
                            }
                            GUARD_END("peakloc")
                        }
            }
        }
    }
}

// ---------------------------------------------------------------------------------------------- peakloc (complex): scale only
// The statement defines the real overload (parabola vertex); the complex one (Jacobsen's estimator) is otherwise exercised
// through gccphat, whose PHAT-normalised correlation does not scale with the data.  Here only its scale invariance is
// checked directly: samples times 2^k must give the bit-identical location (k limited to +-300: the complex division squares
// its operands).
static void run_peakloc_cmplx(Ctx& ctx, bool T) {
    const cmplx_t al[6] = {{1, 0}, {0, 1}, {-1, 0}, {1, 1}, {2, -1}, {0.5, 0.25}};
    for (int n : (T ? std::vector<int>{3, 4, 5, 6, 8} : std::vector<int>{3, 5})) {
        for (int idx = 0; idx < n; ++idx) {
            for (int cyc = 0; cyc < 2; ++cyc) {
                if (!cyc && (idx == 0 || idx == n - 1)) continue;
                for (int a = 0; a < 6; ++a)
                    for (int b = 0; b < 6; ++b)
                        for (int c = 0; c < 6; ++c) {
                            const cmplx_t yl = al[a], yk = al[b], yr = al[c];
                            const double dre = 2 * yk.re - yl.re - yr.re, dim = 2 * yk.im - yl.im - yr.im;
                            if (dre == 0 && dim == 0) continue;   // estimator undefined (data-independent skip)
                            if (!ctx.take("peakloc.cmplx.scale", P().kv("n", n).kv("idx", idx).kv("cyclic", cyc).kv("l", a).kv("k", b).kv("r", c))) continue;
                            GUARD_BEGIN
                            arr_cmplx x(n);
                            for (int i = 0; i < n; ++i) x[i] = cmplx_t{100.0 + 7 * i, -3.0 * i};
                            x[(idx - 1 + n) % n] = yl;
                            x[(idx + 1) % n] = yr;
                            x[idx] = yk;
                            const double got = peakloc(x, idx, cyc != 0);
                            ctx.nontrivial();
                            if (!std::isfinite(got)) {
                                ctx.note("peakloc complex: non-finite at unit scale, not compared");
                                continue;
                            }
                            for (int k : {-300, -60, -50, -40, 40, 300}) {
                                arr_cmplx xs(n);
                                for (int i = 0; i < n; ++i) xs[i] = cmplx_t{std::ldexp(x[i].re, k), std::ldexp(x[i].im, k)};
                                const double gk = peakloc(xs, idx, cyc != 0);
                                ctx.note("peakloc complex: scaled-data evaluations");
                                if (!biteq(gk, got))
                                    ctx.fail("peakloc", fmt("data * 2^%d: %.17g", k, gk), fmt("%.17g as at unit scale", got), P().kv("kind", "scale").kv("k", k));
                            }
                            GUARD_END("peakloc")
                        }
            }
        }
    }
}

// ---------------------------------------------------------------------------------------------- PreambleDetector
struct Preamble {
    std::string name;
    arr_cmplx h;
};

static arr_cmplx zadoff_chu(int r, int N) {
    arr_cmplx h(N);
    for (int n = 0; n < N; ++n) {
        long long q = (N % 2) ? (long long)n * (n + 1) : (long long)n * n;
        q = ((long long)r * q) % (2LL * N);
        const ld ang = -PI_L * (ld)q / (ld)N;
        h[n] = cmplx_t{(double)cosl(ang), (double)sinl(ang)};
    }
    return h;
}

// maximal-length sequence of degree m: a[k+m] = xor of a[k+t] over the taps (t = 0 always included)
static std::vector<int> mseq_bits(int m) {
    std::vector<int> taps;
    switch (m) {
    case 5: taps = {0, 2}; break;          // x^5 + x^2 + 1
    case 6: taps = {0, 1}; break;          // x^6 + x + 1
    case 7: taps = {0, 1}; break;          // x^7 + x + 1
    case 8: taps = {0, 2, 3, 4}; break;    // x^8 + x^4 + x^3 + x^2 + 1
    case 9: taps = {0, 4}; break;          // x^9 + x^4 + 1
    }
    const int N = (1 << m) - 1;
    std::vector<int> a(N + m, 0);
    a[0] = 1;
    for (int k = 0; k + m < N + m; ++k) {
        int v = 0;
        for (int t : taps) v ^= a[k + t];
        a[k + m] = v;
    }
    a.resize(N);
    return a;
}
static bool mseq_ok(const std::vector<int>& a) {   // two-valued periodic autocorrelation: N at lag 0, -1 elsewhere
    const int N = (int)a.size();
    for (int lag = 1; lag < N; ++lag) {
        int s = 0;
        for (int i = 0; i < N; ++i) s += (a[i] ^ a[(i + lag) % N]) ? -1 : 1;
        if (s != -1) return false;
    }
    return true;
}

struct DetRef {
    std::vector<ld> res;   // documented detector statistic at every stream index
};

// corr = filter(conj(flip(h)) / (nh * rms(h)), 1, x); pagg = filter(ones(nh)/nh, 1, |x|^2); res = sqrt(|corr|^2 / pagg)
// rms(h) is the library's own rms() (its normalisation is the subject of C17, not of this property)
static DetRef det_reference(const arr_cmplx& h, const arr_cmplx& s, double rms_h) {
    const int nh = h.size(), N = s.size();
    DetRef R;
    R.res.assign(N, 0);
    std::vector<ld> p2(N);
    for (int i = 0; i < N; ++i) p2[i] = (ld)s[i].re * s[i].re + (ld)s[i].im * s[i].im;
    const ld c = (ld)nh * (ld)rms_h;
    for (int i = 0; i < N; ++i) {
        ld pw = 0;
        for (int j = 0; j < nh && i - j >= 0; ++j) pw += p2[i - j];
        if (pw == 0) continue;   // silence in the whole window: statistic defined as 0 (library: 0 / eps)
        cld acc = 0;
        for (int j = 0; j < nh; ++j) {
            const int k = i - nh + 1 + j;
            if (k < 0) continue;
            if (p2[k] == 0) continue;
            acc += cld(h[j].re, -h[j].im) * cld(s[k].re, s[k].im);
        }
        R.res[i] = std::abs(acc / c) / sqrtl(pw / nh);
    }
    return R;
}

static std::vector<int> det_offsets(int fl, int nh, bool all) {
    std::vector<int> o;
    if (all) {
        for (int i = 0; i < fl; ++i) o.push_back(i);
        return o;
    }
    std::set<int> s;
    for (int v : {0, 1, 2, 3, fl - 1, fl - 2, fl - 3, nh - 3, nh - 2, nh - 1, nh, nh + 1, nh / 2 - 1, nh / 2, nh / 2 + 1})
        if (v >= 0 && v < fl) s.insert(v);
    for (int k = 1; (int)s.size() < 32 && k < 64; ++k) {
        int v = (int)((long long)k * fl / 19) % fl;
        s.insert(v);
    }
    return std::vector<int>(s.begin(), s.end());
}

static void run_detector(Ctx& ctx, bool T) {
    std::vector<Preamble> pre;
    std::vector<int> zcl = {17, 31, 63, 64, 127, 139, 256, 512};
    if (T) zcl = {16, 17, 23, 31, 32, 33, 47, 63, 64, 100, 127, 128, 139, 199, 255, 256, 300, 511, 512};   // frame lengths 17 .. 725
    for (int N : zcl) {
        auto gcd = [](int a, int b) {
            while (b) {
                int t = a % b;
                a = b;
                b = t;
            }
            return a;
        };
        const int r2 = gcd(5, N) == 1 ? 5 : (gcd(7, N) == 1 ? 7 : 11);   // second root coprime with N
        for (int r : {1, r2}) pre.push_back({fmt("zc%d_r%d", N, r), zadoff_chu(r, N)});
    }
    for (int m : {5, 6, 7, 8, 9}) {
        auto a = mseq_bits(m);
        if (!mseq_ok(a)) {
            fprintf(stderr, "oracle self-check failed: m-sequence of degree %d\n", m);
            exit(4);
        }
        arr_cmplx h((int)a.size());
        for (size_t i = 0; i < a.size(); ++i) h[(int)i] = cmplx_t{a[i] ? -1.0 : 1.0, 0.0};
        pre.push_back({fmt("mseq%d", (int)a.size()), h});
    }
    const double amps[] = {1e-3, 1.0, 1e3};
    const std::vector<double> thrs = T ? std::vector<double>{0.3, 0.4, 0.5, 0.6, 0.7, 0.8, 0.9, 0.95} : std::vector<double>{0.3, 0.5, 0.7, 0.9};
    const int NFR = 4;
    for (const Preamble& pr : pre) {
        if (!ctx.wants("detector.present") && !ctx.wants("detector.absent") && !ctx.wants("detector.reset") && !ctx.wants("detector.reject") && !ctx.wants("detector.big") && !ctx.wants("detector.gap") && !ctx.wants("detector.refscale") && !ctx.wants("detector.first")) break;
        const int nh = pr.h.size();
        int fl = 0;
        double rms_h = 0;
        try {
            PreambleDetector probe(pr.h, 0.5);
            fl = probe.frame_len();
            rms_h = rms(pr.h);
        } catch (const std::exception&) {
            fl = 0;
        }
        const bool usable = fl >= 1 && fl <= 8192 && rms_h > 0 && std::isfinite(rms_h);
        if (!usable) {
            // one case records the failure, the positions cannot be enumerated without a frame length
            if (ctx.take("detector.present", P().kv("preamble", pr.name).kv("kind", "setup")))
                ctx.fail("PreambleDetector.ctor", fmt("frame_len()=%d rms(h)=%g", fl, rms_h), "1 <= frame_len <= 8192, rms(h) > 0", P().kv("kind", "setup"));
            continue;
        }
        const int N = NFR * fl;
        ld rms_true = 0;
        for (int j = 0; j < nh; ++j) rms_true += (ld)pr.h[j].re * pr.h[j].re + (ld)pr.h[j].im * pr.h[j].im;
        rms_true = sqrtl(rms_true / nh);
        std::vector<int> endframes = T ? std::vector<int>{1, 2} : std::vector<int>{1};
        const std::vector<int> offs = det_offsets(fl, nh, T || nh <= 64);

        auto make_stream = [&](int embed, double A, int start /* <0: no preamble */, int NS = -1) {
            if (NS < 0) NS = N;
            arr_cmplx s(NS);
            const double gf = embed ? 0.01 * A * (double)rms_true / std::sqrt(2.0) : 0.0;   // floor 40 dB below the preamble power
            for (int k = 0; k < NS; ++k) {
                double re = embed ? gf * lcg_gauss(160, (uint64_t)k) : 0.0;
                double im = embed ? gf * lcg_gauss(161, (uint64_t)k) : 0.0;
                if (start >= 0 && k >= start && k < start + nh) {
                    re += A * pr.h[k - start].re;
                    im += A * pr.h[k - start].im;
                }
                s[k] = cmplx_t{re, im};
            }
            return s;
        };

        // runs one detector over the stream, fpc frames per call; e < 0: nothing expected
        // `history` (optional) is applied to the detector object before the stream: earlier traffic followed by reset()
        // it is invoked before every call c of the stream (c = 0: before the stream starts)
        using History = std::function<void(PreambleDetector&, int /*fpc*/, int /*call*/)>;
        auto run_one = [&](const arr_cmplx& s, const DetRef& R, double thr, int fpc, int e, const char* site, const History& history = History(), const arr_cmplx* href = nullptr) {
            // decide whether the documented statistic gives an unambiguous expectation
            bool near = false, other = false;
            const int NS = s.size(), nfr = NS / fl;
            for (int i = 0; i < NS; ++i) {
                const ld v = R.res[i];
                if (fabsl(v - (ld)thr) <= 1e-6L) near = true;
                if (i != e && v > (ld)thr) other = true;
            }
            if (e >= 0 && !(R.res[e] > (ld)thr)) other = true;   // peak itself below the threshold
            if (near || other) {
                ctx.note(fmt("detector config excluded thr=%.2f: %s", thr,
                             near ? "reference within 1e-6 of threshold"
                                  : (e >= 0 ? "reference crosses threshold away from the preamble end" : "reference crosses threshold without preamble")));
                return;
            }
            ctx.note(fmt("detector config checked thr=%.2f (%s%s)", thr, e >= 0 ? "preamble present" : "no preamble", history ? ", with history" : ""));
            PreambleDetector det(href ? *href : pr.h, thr);   // href: the same preamble scaled by a constant (detector.refscale)
            if (det.frame_len() != fl) {
                ctx.fail(site, fmt("frame_len()=%d", det.frame_len()), fmt("%d as for the probe object", fl), P().kv("kind", "setup"));
                return;
            }
            const int blk = fpc * fl;
            const int ce = e >= 0 ? e / blk : -1;
            for (int c = 0; c < nfr / fpc; ++c) {
                arr_cmplx frame(blk);
                for (int i = 0; i < blk; ++i) frame[i] = s[c * blk + i];
                if (history) history(det, fpc, c);
                auto r = det.process(frame);
                P dt;
                dt.kv("thr", thr).kv("fpc", fpc).kv("call", c);
                if (c != ce) {
                    if (r.has_value())
                        ctx.fail(site, fmt("call %d reports a detection at offset %d, score %.9g", c, r->offset, r->score),
                                 e >= 0 ? fmt("nothing (preamble ends in call %d at offset %d)", ce, e - ce * blk) : std::string("nothing (no preamble in the stream)"),
                                 P(dt).kv("kind", "false_detection"));
                    continue;
                }
                if (!r.has_value()) {
                    ctx.fail(site, fmt("call %d reports nothing", c), fmt("detection at offset %d (reference statistic %.9Lg > threshold %g)", e - ce * blk, R.res[e], thr),
                             P(dt).kv("kind", "missed"));
                    continue;
                }
                const int woff = e - ce * blk;
                if (r->offset != woff)
                    ctx.fail(site, fmt("offset %d", r->offset), fmt("%d (index of the preamble's last sample in the frame)", woff), P(dt).kv("kind", "offset").kv("got", r->offset).kv("want", woff));
                if (r->preamble.size() != nh) {
                    ctx.fail(site, fmt("preamble has %d samples", r->preamble.size()), fmt("%d", nh), P(dt).kv("kind", "preamble_size"));
                } else {
                    int bad = -1;
                    for (int j = 0; j < nh && bad < 0; ++j) {
                        const cmplx_t w = s[e - nh + 1 + j];
                        if (!(r->preamble[j].re == w.re && r->preamble[j].im == w.im)) bad = j;
                    }
                    if (bad >= 0)
                        ctx.fail(site, fmt("preamble[%d]=(%.17g,%.17g)", bad, r->preamble[bad].re, r->preamble[bad].im),
                                 fmt("stream[%d]=(%.17g,%.17g)", e - nh + 1 + bad, s[e - nh + 1 + bad].re, s[e - nh + 1 + bad].im), P(dt).kv("kind", "preamble").kv("j", bad));
                }
                const ld se = fabsl((ld)r->score - R.res[e]);
                if (!(se <= 1e-9L) || !(r->score >= 0.95) || !(r->score <= 1 + 1e-9))
                    ctx.fail(site, fmt("score %.12g", r->score), fmt("within 1e-9 of %.12Lg and in [0.95, 1]", R.res[e]), P(dt).kv("kind", "score"));
                else {
                    ctx.worst("detector |score - reference| / 1e-9", (double)(se / 1e-9L));
                    ctx.worst("detector 1 - score (min score = 1 - this)", 1.0 - r->score);
                }
            }
        };

        for (int ef : endframes) {
            for (int off : offs) {
                for (int embed = 0; embed < 2; ++embed) {
                    for (double A : amps) {
                        if (!ctx.take("detector.present", P().kv("preamble", pr.name).kv("endframe", ef).kv("off", off).kv("floor", embed).kv("amp", A))) continue;
                        GUARD_BEGIN
                        const int e = ef * fl + off;
                        const int start = e - nh + 1;
                        if (start < 0 || e >= N) {
                            ctx.cap("detector: position outside the stream (harness bug)");
                            continue;
                        }
                        arr_cmplx s = make_stream(embed, A, start);
                        DetRef R = det_reference(pr.h, s, rms_h);
                        ctx.nontrivial();
                        ctx.note(start / fl != e / fl ? "detector preamble straddles a frame boundary" : "detector preamble inside one frame");
                        if (off == 0) ctx.note("detector preamble ends on first sample of a frame");
                        if (off == fl - 1) ctx.note("detector preamble ends on last sample of a frame");
                        if (start % fl == 0) ctx.note("detector preamble starts on first sample of a frame");
                        if (!embed) ctx.note("detector silence stream: every frame without preamble samples is exactly zero");
                        for (double thr : thrs)
                            for (int fpc : {1, 2}) run_one(s, R, thr, fpc, e, "PreambleDetector.process");
                        GUARD_END("PreambleDetector.process")
                    }
                }
            }
        }
        // ---- histories on ONE detector object: earlier traffic, reset(), then a stream that must be handled exactly as by a
        // fresh detector (same expectations as detector.present: call, offset, bit-exact extract, score within 1e-9 of the
        // reference of the second stream alone).  hist: a = stream with a preamble at another offset (detected), b = noise-only
        // traffic at the preamble's power, c = traffic cut at a frame boundary in the middle of a preamble, d = nothing.
        {
            std::vector<int> roffs;
            if (T) roffs = det_offsets(fl, nh, false);
            else {
                std::set<int> so;
                for (int v : {0, nh / 2, nh - 1, fl - 1})
                    if (v >= 0 && v < fl) so.insert(v);
                roffs.assign(so.begin(), so.end());
            }
            auto feed = [&](PreambleDetector& det, const arr_cmplx& s1, int nframes, int fpc) {
                // nframes frames of s1, fpc frames per call (a remainder is fed frame by frame)
                int done = 0;
                while (done < nframes) {
                    const int nf = (nframes - done >= fpc) ? fpc : 1;
                    arr_cmplx blk(nf * fl);
                    for (int i = 0; i < nf * fl; ++i) blk[i] = s1[done * fl + i];
                    (void)det.process(blk);
                    done += nf;
                }
            };
            const char* HN[4] = {"a", "b", "c", "d"};
            for (int off : roffs) {
                for (int hist = 0; hist < 4; ++hist) {
                    for (int embed = 0; embed < 2; ++embed) {
                        for (double A : amps) {
                            if (!ctx.take("detector.reset", P().kv("preamble", pr.name).kv("hist", HN[hist]).kv("off", off).kv("floor", embed).kv("amp", A))) continue;
                            GUARD_BEGIN
                            const int e = 1 * fl + off;
                            const int start = e - nh + 1;
                            arr_cmplx s = make_stream(embed, A, start);
                            DetRef R = det_reference(pr.h, s, rms_h);
                            ctx.nontrivial();
                            ctx.note(std::string("detector history ") + HN[hist] + " + reset()");
                            arr_cmplx s1;
                            int nfr1 = 0;
                            if (hist == 0) {
                                const int off1 = (off + fl / 3 + 1) % fl;
                                s1 = make_stream(embed, A, fl + off1 - nh + 1);
                                nfr1 = NFR;
                            } else if (hist == 1) {
                                s1 = arr_cmplx(N);
                                const double g = A * (double)rms_true / std::sqrt(2.0);   // noise power = preamble power
                                for (int k = 0; k < N; ++k) s1[k] = cmplx_t{g * lcg_gauss(162, (uint64_t)k), g * lcg_gauss(163, (uint64_t)k)};
                                nfr1 = NFR;
                            } else if (hist == 2) {
                                // preamble occupying the last nh/2 samples of frame 0 and continuing in frame 1; only frame 0 is fed
                                s1 = make_stream(embed, A, fl - nh / 2);
                                nfr1 = 1;
                            }
                            History h = [&](PreambleDetector& det, int fpc, int call) {
                                if (call != 0) return;
                                if (nfr1 > 0) feed(det, s1, nfr1, fpc);
                                det.reset();
                            };
                            for (double thr : thrs)
                                for (int fpc : {1, 2}) run_one(s, R, thr, fpc, e, "PreambleDetector.reset", h);
                            GUARD_END("PreambleDetector.reset")
                        }
                    }
                }
            }
        }
        // ---- rejected calls: process() documents "length of sig must be a multiple of frame_len()" and throws otherwise.  A call
        // that is rejected must leave the object unchanged: the valid frames around it are handled exactly as by a detector
        // that never saw it.  One rejected call of L_bad samples of noise at the preamble's power is placed a = before the
        // stream, b = after the first call, c = right before the call in which the preamble completes (preamble ends in frame 2).
        {
            std::vector<int> roffs;
            if (T) roffs = det_offsets(fl, nh, false);
            else {
                std::set<int> so;
                for (int v : {0, nh / 2, nh - 1, fl - 1})
                    if (v >= 0 && v < fl) so.insert(v);
                roffs.assign(so.begin(), so.end());
            }
            const char* PL[3] = {"a", "b", "c"};
            const int lbads[4] = {1, 5, fl - 1, fl + 1};
            for (int off : roffs) {
                for (int place = 0; place < 3; ++place) {
                    for (int li = 0; li < 4; ++li) {
                        for (int embed = 0; embed < 2; ++embed) {
                            for (double A : amps) {
                                const int lbad = lbads[li];
                                if (!ctx.take("detector.reject", P().kv("preamble", pr.name).kv("place", PL[place]).kv("lbad", lbad).kv("off", off).kv("floor", embed).kv("amp", A))) continue;
                                GUARD_BEGIN
                                if (lbad < 1 || lbad % fl == 0) {
                                    ctx.note("detector.reject: L_bad is a multiple of frame_len, skipped");
                                    continue;
                                }
                                const int e = 2 * fl + off;
                                const int start = e - nh + 1;
                                arr_cmplx s = make_stream(embed, A, start);
                                DetRef R = det_reference(pr.h, s, rms_h);
                                ctx.nontrivial();
                                ctx.note(std::string("detector rejected call placed ") + PL[place]);
                                arr_cmplx bad(lbad);
                                const double g = A * (double)rms_true / std::sqrt(2.0);   // noise power = preamble power
                                for (int k = 0; k < lbad; ++k) bad[k] = cmplx_t{g * lcg_gauss(164, (uint64_t)k), g * lcg_gauss(165, (uint64_t)k)};
                                for (double thr : thrs)
                                    for (int fpc : {1, 2}) {
                                        const int ce = e / (fpc * fl);
                                        const int at = place == 0 ? 0 : (place == 1 ? 1 : ce);
                                        History h = [&](PreambleDetector& det, int, int call) {
                                            if (call != at) return;
                                            bool threw = false;
                                            try {
                                                (void)det.process(bad);
                                            } catch (const std::exception&) {
                                                threw = true;
                                            }
                                            if (!threw)
                                                ctx.fail("PreambleDetector.process", fmt("call with %d samples (frame_len %d) returned", lbad, fl),
                                                         "throws: length is not a multiple of frame_len()", P().kv("kind", "bad_length_accepted").kv("thr", thr).kv("fpc", fpc));
                                            else
                                                ctx.note("detector rejected call threw");
                                        };
                                        run_one(s, R, thr, fpc, e, "PreambleDetector.process.after_reject", h);
                                    }
                                GUARD_END("PreambleDetector.process.after_reject")
                            }
                        }
                    }
                }
            }
        }
        // ---- the preamble occupies the very first nh samples a detector ever sees (no lead-in): samples 0 .. nh-1 of the stream of
        // a FRESH object, and the same right after reset() following earlier traffic (a = stream with a preamble, b = noise at the
        // preamble's power).  Expected: detection in call 0 at offset nh-1 (filters and ring buffer are full exactly there);
        // decidability by the documented statistic as usual.
        {
            const char* HN[3] = {"fresh", "reset_a", "reset_b"};
            for (int hist = 0; hist < 3; ++hist) {
                for (int embed = 0; embed < 2; ++embed) {
                    for (double A : amps) {
                        if (!ctx.take("detector.first", P().kv("preamble", pr.name).kv("hist", HN[hist]).kv("floor", embed).kv("amp", A))) continue;
                        GUARD_BEGIN
                        const int e = nh - 1;
                        arr_cmplx s = make_stream(embed, A, 0);
                        DetRef R = det_reference(pr.h, s, rms_h);
                        ctx.nontrivial();
                        ctx.note(std::string("detector preamble on samples 0..nh-1, ") + HN[hist]);
                        arr_cmplx s1;
                        if (hist == 1) s1 = make_stream(embed, A, fl + fl / 3 - nh + 1 >= 0 ? fl + fl / 3 - nh + 1 : 0);
                        if (hist == 2) {
                            s1 = arr_cmplx(N);
                            const double g = A * (double)rms_true / std::sqrt(2.0);
                            for (int k = 0; k < N; ++k) s1[k] = cmplx_t{g * lcg_gauss(162, (uint64_t)k), g * lcg_gauss(163, (uint64_t)k)};
                        }
                        History h;
                        if (hist > 0)
                            h = [&](PreambleDetector& det, int fpc, int call) {
                                if (call != 0) return;
                                const int blk = fpc * fl;
                                for (int c = 0; c < NFR / fpc; ++c) {
                                    arr_cmplx b(blk);
                                    for (int i = 0; i < blk; ++i) b[i] = s1[c * blk + i];
                                    (void)det.process(b);
                                }
                                det.reset();
                            };
                        for (double thr : thrs)
                            for (int fpc : {1, 2}) run_one(s, R, thr, fpc, e, hist ? "PreambleDetector.reset" : "PreambleDetector.process", h);
                        GUARD_END("PreambleDetector.process")
                    }
                }
            }
        }
        // ---- scale of the REFERENCE handed to the constructor: the score is a normalised correlation, so a detector built from
        // c * h must behave like the one built from h for every c, whether the stream carries c * h or h itself (and must stay
        // silent on a preamble-free stream).  Oracle: the documented statistic evaluated with the scaled reference and the
        // library's rms() of it; offsets / extract / score (within 1e-9, in [0.95, 1]) as in detector.present.
        {
            const double cs[5] = {1e-3, 0.1, std::sqrt(2.0), 10.0, 1e3};
            const char* CN[5] = {"1e-3", "0.1", "sqrt2", "10", "1e3"};
            std::vector<int> roffs;
            if (T) roffs = det_offsets(fl, nh, false);
            else {
                std::set<int> so;
                for (int v : {0, nh / 2, nh - 1, fl - 1})
                    if (v >= 0 && v < fl) so.insert(v);
                roffs.assign(so.begin(), so.end());
            }
            const std::vector<double> rthr = {0.5, 0.9};
            for (int ci = 0; ci < 5; ++ci) {
                arr_cmplx hc(nh);
                for (int j = 0; j < nh; ++j) hc[j] = cmplx_t{cs[ci] * pr.h[j].re, cs[ci] * pr.h[j].im};
                double rms_c = 0;
                bool rms_done = false;
                auto rmsc = [&]() {
                    if (!rms_done) rms_c = rms(hc), rms_done = true;
                    return rms_c;
                };
                // stream kinds: 0 = carries the scaled preamble c*h, 1 = carries the unit-scale preamble h, 2 = no preamble
                for (int kind = 0; kind < 3; ++kind) {
                    for (int off : (kind == 2 ? std::vector<int>{0} : roffs)) {
                        for (int embed = 0; embed < 2; ++embed) {
                            if (kind == 2 && !embed) continue;   // an all-zero stream says nothing about the reference
                            if (!ctx.take("detector.refscale", P().kv("preamble", pr.name).kv("c", CN[ci]).kv("stream", kind == 0 ? "scaled" : (kind == 1 ? "unit" : "none")).kv("off", off).kv("floor", embed)))
                                continue;
                            GUARD_BEGIN
                            const int e = kind == 2 ? -1 : fl + off;
                            const int start = e >= 0 ? e - nh + 1 : -1;
                            const arr_cmplx& tx = kind == 0 ? hc : pr.h;
                            const double lvl = (kind == 0 ? cs[ci] : 1.0) * (double)rms_true;   // rms of what is transmitted
                            arr_cmplx s(N);
                            const double gf = embed ? 0.01 * lvl / std::sqrt(2.0) : 0.0;
                            for (int k = 0; k < N; ++k) {
                                double re = embed ? gf * lcg_gauss(168, (uint64_t)k) : 0.0;
                                double im = embed ? gf * lcg_gauss(169, (uint64_t)k) : 0.0;
                                if (start >= 0 && k >= start && k < start + nh) {
                                    re += tx[k - start].re;
                                    im += tx[k - start].im;
                                }
                                s[k] = cmplx_t{re, im};
                            }
                            const double rc = rmsc();
                            if (!(rc > 0) || !std::isfinite(rc)) {
                                ctx.fail("rms", fmt("rms(c*h)=%g", rc), "positive finite", P().kv("kind", "setup"));
                                continue;
                            }
                            DetRef R = det_reference(hc, s, rc);
                            ctx.nontrivial();
                            ctx.note(std::string("detector reference scaled by ") + CN[ci]);
                            for (double thr : rthr)
                                for (int fpc : {1, 2}) run_one(s, R, thr, fpc, e, "PreambleDetector.process", History(), &hc);
                            GUARD_END("PreambleDetector.process")
                        }
                    }
                }
            }
        }
        // ---- all-zero frames inside the traffic: [2 frames of traffic] [g frames that are EXACTLY zero in every sample] [2 frames of
        // traffic]; traffic = noise 40 dB (variant 0) or 20 dB (variant 1) below the preamble power.  The preamble is a = absent,
        // b1 / b2 = ending on the last sample / in the middle of the last frame before the gap, c = starting on the first sample
        // after the gap.  Oracle as for detector.present / detector.absent (documented statistic over the whole stream).
        {
            const char* KN[4] = {"a", "b1", "b2", "c"};
            for (int kind = 0; kind < 4; ++kind) {
                for (int g : {1, 2, 5}) {
                    for (int variant = 0; variant < 2; ++variant) {
                        for (double A : amps) {
                            if (!ctx.take("detector.gap", P().kv("preamble", pr.name).kv("kind", KN[kind]).kv("gap", g).kv("noise", variant ? "-20dB" : "-40dB").kv("amp", A))) continue;
                            GUARD_BEGIN
                            const int NS = (4 + g) * fl;
                            int e = -1;
                            if (kind == 1) e = 2 * fl - 1;
                            if (kind == 2) e = fl + fl / 2;
                            if (kind == 3) e = (2 + g) * fl + nh - 1;
                            const int start = e >= 0 ? e - nh + 1 : -1;
                            arr_cmplx s(NS);
                            const double gn = (variant ? 0.1 : 0.01) * A * (double)rms_true / std::sqrt(2.0);
                            int zero_frames = 0;
                            for (int k = 0; k < NS; ++k) {
                                const int fr = k / fl;
                                if (fr >= 2 && fr < 2 + g) {
                                    s[k] = cmplx_t{0.0, 0.0};
                                    continue;
                                }
                                double re = gn * lcg_gauss(166, (uint64_t)k), im = gn * lcg_gauss(167, (uint64_t)k);
                                if (start >= 0 && k >= start && k < start + nh) {
                                    re += A * pr.h[k - start].re;
                                    im += A * pr.h[k - start].im;
                                }
                                s[k] = cmplx_t{re, im};
                            }
                            zero_frames = g;
                            DetRef R = det_reference(pr.h, s, rms_h);
                            ctx.nontrivial();
                            ctx.note(fmt("detector stream with %d all-zero frame(s) between traffic, preamble %s", zero_frames, KN[kind]));
                            for (double thr : thrs)
                                for (int fpc : {1, 2}) run_one(s, R, thr, fpc, e, "PreambleDetector.process");
                            GUARD_END("PreambleDetector.process")
                        }
                    }
                }
            }
        }
        // ---- long stream: about 140 000 samples (an even number of frames), the preamble placed at the 65 536 boundary:
        // ending on sample 65 535, starting on sample 65 536, straddling it; one and two frames per call
        if (nh == 139 || nh == 512) {
            int nfrL = (140000 + fl - 1) / fl;
            nfrL += nfrL % 2;
            const int NL = nfrL * fl;
            const int ends[3] = {65535, 65536 + nh - 1, 65536 + nh / 2};
            for (int pi = 0; pi < 3; ++pi) {
                for (int embed = 0; embed < 2; ++embed) {
                    if (!ctx.take("detector.big", P().kv("preamble", pr.name).kv("samples", NL).kv("end", ends[pi]).kv("floor", embed))) continue;
                    GUARD_BEGIN
                    const int e = ends[pi];
                    arr_cmplx s = make_stream(embed, 1.0, e - nh + 1, NL);
                    DetRef R = det_reference(pr.h, s, rms_h);
                    ctx.nontrivial();
                    ctx.note("detector long stream, preamble at the 65536 boundary");
                    for (double thr : {0.5, 0.9})
                        for (int fpc : {1, 2}) run_one(s, R, thr, fpc, e, "PreambleDetector.process");
                    GUARD_END("PreambleDetector.process")
                }
            }
        }
        for (int embed = 0; embed < 2; ++embed) {
            for (double A : amps) {
                if (!ctx.take("detector.absent", P().kv("preamble", pr.name).kv("floor", embed).kv("amp", A))) continue;
                GUARD_BEGIN
                arr_cmplx s = make_stream(embed, A, -1);
                DetRef R = det_reference(pr.h, s, rms_h);
                if (embed) ctx.nontrivial();
                for (double thr : thrs)
                    for (int fpc : {1, 2}) run_one(s, R, thr, fpc, -1, "PreambleDetector.process");
                GUARD_END("PreambleDetector.process")
            }
        }
    }
}

int main(int argc, char** argv) {
    Ctx ctx;
    ctx.parse(argc, argv, "C18");
    const bool T = ctx.thorough();
#ifdef VERIF_DELAYSEQ_CMPLX
    ctx.note("build: delayseq<cmplx_t> compiles, complex delayseq cases enabled");
#else
    ctx.note("build: delayseq<cmplx_t> not instantiated (compile probe failed or not run)");
#endif
    run_delayseq(ctx, T);
    run_delayseq_big(ctx, T);
    run_delay_estimators(ctx, T);
    run_beyond(ctx, T);
#ifdef VERIF_GCCPHAT_FRAC
    run_gccphat_frac(ctx, T);
#endif
    run_peakloc(ctx, T);
    run_peakloc_cmplx(ctx, T);
    run_detector(ctx, T);
    return ctx.finish();
}
