// C07 - FIR filtering and correlation equal their defining sums.
// Engine E1 (bounded-exhaustive shape enumeration).  Every (coefficient length, coefficient letter, input
// length, input letter) of the stated box is run through the real FirFilter<T> / FftFilter / xcorr / MAFilter
// started from rest and compared with the defining sum evaluated in long double:
//     y[i]   = sum_k conj(c[k]) * x[i-k]                      (library convention: coefficients conjugated)
//     r[lag] = sum_n a[n+lag] * conj(b[n]),  lag = -(n2-1) .. n1-1   (output index lag + n2 - 1)
//     ma[i]  = (1/n) * sum_{k<n} x[i-k]
// Tolerances ("to rounding accuracy", weaker reading, see DESIGN 1.3):
//     direct form  |err_i| <= eps * max( 8*|c|_2*|x|_2 , (nh+8) * sum_k |c_k||x_{i-k}| )
//                  (the second term is the rigorous bound of a double dot product in any summation order, the
//                   first is the global l2 bound of the design; a value is wrong only if it exceeds both)
//     FFT forms    |err_i| <= 64*log2(fft_len) * eps * |c|_2*|x|_2          (global l2 norms)
//     FftFilter vs FirFilter: same length floor(len/block)*block and |diff_i| <= sum of the two tolerances
//     MAFilter     |err_i| <= (2n+8) * eps * (1/n) * sum_{k<2n} |x[i-k]|     (running sum is re-accumulated every
//                   n samples, so a rounding residue of a sample that left the window may survive < n further steps)
// Nothing is sampled; dense letters are fixed LCG sequences (vf::lcg_val).
#include "vf.hpp"
#include <array>
#include "ma-filter.h"

using namespace vf;
using dsplib::arr_cmplx;
using dsplib::arr_real;
using dsplib::cmplx_t;

// ------------------------------------------------------------------------------------------------ letters
struct Sig {   // complex sequence in split form (imaginary part all zero for the real variants)
    std::vector<ld> re, im;
    size_t size() const { return re.size(); }
    void resize(size_t n) {
        re.assign(n, 0);
        im.assign(n, 0);
    }
    int nnz() const {
        int c = 0;
        for (size_t i = 0; i < re.size(); ++i) c += (re[i] != 0 || im[i] != 0);
        return c;
    }
    ld norm2() const {
        ld s = 0;
        for (size_t i = 0; i < re.size(); ++i) s += re[i] * re[i] + im[i] * im[i];
        return sqrtl(s);
    }
};

static arr_real to_real(const Sig& s) {
    arr_real a((int)s.size());
    for (size_t i = 0; i < s.size(); ++i) a[(int)i] = (double)s.re[i];
    return a;
}
static arr_cmplx to_cmplx(const Sig& s) {
    arr_cmplx a((int)s.size());
    for (size_t i = 0; i < s.size(); ++i) a[(int)i] = cmplx_t((double)s.re[i], (double)s.im[i]);
    return a;
}
// values are generated in double so that the library sees exactly the numbers the oracle uses
static void put(Sig& s, size_t i, double re, double im, bool cplx) {
    s.re[i] = re;
    s.im[i] = cplx ? im : 0.0;
}
static void rot(double ang, double mag, double& re, double& im) {
    re = mag * std::cos(ang);
    im = mag * std::sin(ang);
}

// coefficient letters: "imp" (delta_j), "sym" (symmetric dense), "sparse", "dense"; complex variants are
// rotated tap by tap (c[k] * e^{i(0.37+0.91k)}) so that a missing conjugate changes every output
static Sig coef_letter(const std::string& kind, int j, int nh, bool cplx) {
    Sig c;
    c.resize((size_t)nh);
    for (int k = 0; k < nh; ++k) {
        double m = 0;
        if (kind == "imp") m = (k == j) ? 1.25 : 0.0;
        else if (kind == "sym") m = lcg_val(701, (uint64_t)std::min(k, nh - 1 - k));
        else if (kind == "sparse") m = (k % 4 == 1 || k == nh - 1) ? lcg_val(702, (uint64_t)k) : 0.0;
        else if (kind == "nearsym") {   // symmetric plus an antisymmetric part of 1e-3 relative size
            const int q = std::min(k, nh - 1 - k);
            const double sg = (k < nh - 1 - k) ? 1.0 : (k > nh - 1 - k ? -1.0 : 0.0);
            m = lcg_val(701, (uint64_t)q) + 1e-3 * sg * lcg_val(704, (uint64_t)q);
        }
        else m = lcg_val(703, (uint64_t)k);
        if (cplx) {
            double re, im;
            rot(0.37 + 0.91 * k, m, re, im);
            put(c, (size_t)k, re, im, true);
        } else {
            put(c, (size_t)k, m, 0, false);
        }
    }
    return c;
}

// input letters: "imp" at position p, "lcg" dense, "two" = dense with magnitudes alternating between 1e+100 and
// 1e-100 in runs of four samples (large dynamic range)
static Sig in_letter(const std::string& kind, int p, int len, bool cplx) {
    Sig x;
    x.resize((size_t)len);
    for (int i = 0; i < len; ++i) {
        double re = 0, im = 0;
        if (kind == "imp") {
            if (i == p) rot(1.1 + 0.3 * p, 0.75, re, im), re = cplx ? re : 0.75;
        } else if (kind == "lcg") {
            re = lcg_val(711, (uint64_t)i);
            im = lcg_val(712, (uint64_t)i);
        } else {
            double sc = ((i >> 2) & 1) ? 1e100 : 1e-100;
            re = lcg_val(713, (uint64_t)i) * sc;
            im = lcg_val(714, (uint64_t)i) * sc;
        }
        put(x, (size_t)i, re, im, cplx);
    }
    return x;
}

// ------------------------------------------------------------------------------------------------ oracles
// y[i] = sum_k conj(c[k]) x[i-k], S[i] = sum_k |c[k]| |x[i-k]|, i = 0..len-1 (zero taps skipped)
static void fir_ref(const Sig& c, const Sig& x, bool cplx, Sig& y, std::vector<double>& S) {
    const size_t n = x.size();
    y.resize(n);
    S.assign(n, 0.0);
    std::vector<double> ax(n);
    for (size_t i = 0; i < n; ++i) ax[i] = (double)sqrtl(x.re[i] * x.re[i] + x.im[i] * x.im[i]);
    for (size_t k = 0; k < c.size() && k < n; ++k) {
        const ld cr = c.re[k], ci = -c.im[k];   // conjugated coefficient
        if (cr == 0 && ci == 0) continue;
        const double ac = (double)sqrtl(cr * cr + ci * ci);
        const ld* xr = x.re.data();
        const ld* xi = x.im.data();
        ld* yr = y.re.data() + k;
        ld* yi = y.im.data() + k;
        double* s = S.data() + k;
        const size_t m = n - k;
        if (cplx) {
            for (size_t i = 0; i < m; ++i) {
                yr[i] += cr * xr[i] - ci * xi[i];
                yi[i] += cr * xi[i] + ci * xr[i];
                s[i] += ac * ax[i];
            }
        } else {
            for (size_t i = 0; i < m; ++i) {
                yr[i] += cr * xr[i];
                s[i] += ac * ax[i];
            }
        }
    }
}

// r[idx], idx = lag + n2 - 1: sum_n a[n+lag] conj(b[n])
static void xcorr_ref(const Sig& a, const Sig& b, Sig& r) {
    const long n1 = (long)a.size(), n2 = (long)b.size();
    r.resize((size_t)(n1 + n2 - 1));
    for (long n = 0; n < n2; ++n) {
        const ld br = b.re[(size_t)n], bi = -b.im[(size_t)n];
        if (br == 0 && bi == 0) continue;
        // a[m] contributes to lag = m - n, idx = m - n + n2 - 1
        ld* rr = r.re.data() + (n2 - 1 - n);
        ld* ri = r.im.data() + (n2 - 1 - n);
        for (long m = 0; m < n1; ++m) {
            const ld ar = a.re[(size_t)m], ai = a.im[(size_t)m];
            rr[m] += ar * br - ai * bi;
            ri[m] += ar * bi + ai * br;
        }
    }
}

static int ilog2(long v) {
    int k = 0;
    while ((1L << k) < v) ++k;
    return k;
}

// ------------------------------------------------------------------------------------------------ comparison
struct Cmp {
    double worst_ratio = 0;   // max err/tol
    long bad = -1;            // first failing index
    double err_at = 0, tol_at = 0;
    bool nonfinite = false;
};

template<class GetRe, class GetIm, class Tol>
static Cmp compare(long n, GetRe gre, GetIm gim, const Sig& ref, Tol tol) {
    Cmp c;
    for (long i = 0; i < n; ++i) {
        const double re = gre(i), im = gim(i);
        if (!std::isfinite(re) || !std::isfinite(im)) {
            c.nonfinite = true;
            if (c.bad < 0) c.bad = i;
            continue;
        }
        const ld dr = (ld)re - ref.re[(size_t)i], di = (ld)im - ref.im[(size_t)i];
        const double e = (double)sqrtl(dr * dr + di * di);
        const double t = tol(i);
        const double ratio = t > 0 ? e / t : (e == 0 ? 0.0 : 1e300);
        if (ratio > c.worst_ratio) c.worst_ratio = ratio;
        if (ratio > 1.0 && c.bad < 0) {
            c.bad = i;
            c.err_at = e;
            c.tol_at = t;
        }
    }
    return c;
}

// ------------------------------------------------------------------------------------------------ FIR case
struct InLetter {
    std::string kind;
    int p;
};

static void fir_case(Ctx& ctx, bool cplx, int nh, const std::string& ck, int cj, int len, int block, int fftlen, int sweep_nh = 16,
                     bool big = false) {
    const Sig c = coef_letter(ck, cj, nh, cplx);
    const double cn = (double)c.norm2();
    std::vector<InLetter> ins;
    if (big) {
        // very long coefficient vector / frame: the dense letter and one impulse behind input index 2^16
        ins.push_back({"imp", std::min(65536, len - 1)});
    } else if (nh <= sweep_nh) {
        for (int p = 0; p < len; ++p) ins.push_back({"imp", p});
    } else {
        std::set<int> ps = {0, 1, nh - 1, nh, block - 1, block, len - nh, len - 1};
        for (int p : ps)
            if (p >= 0 && p < len) ins.push_back({"imp", p});
    }
    ins.push_back({"lcg", 0});
    if (!big) ins.push_back({"two", 0});
    bool nontriv = false;
    for (const auto& il : ins) {
        if (len == 0 && il.kind != "lcg") continue;   // one empty input is enough
        const Sig x = in_letter(il.kind, il.p, len, cplx);
        const double xn = (double)x.norm2();
        Sig ref;
        std::vector<double> S;
        fir_ref(c, x, cplx, ref, S);
        const double g_dir = 8.0 * EPS * cn * xn;
        const double g_fft = 64.0 * ilog2(fftlen) * EPS * cn * xn;
        auto tol_dir = [&](long i) { return std::max(g_dir, (nh + 8.0) * EPS * S[(size_t)i]); };
        auto tol_fft = [&](long) { return g_fft; };
        auto tol_both = [&](long i) { return g_fft + tol_dir(i); };
        const P det = P().kv("in", il.kind).kv("pos", il.p);
        if (c.nnz() >= 2 && x.nnz() >= 2) nontriv = true;
        long nfft = 0;   // floor(len/bs)*bs with bs = the filter's own block_size()

        auto report = [&](const char* site, const char* what, const Cmp& r, long n) {
            if (r.bad >= 0)
                ctx.fail(site,
                         r.nonfinite ? fmt("%s: non-finite output at i=%ld (of %ld)", what, r.bad, n)
                                     : fmt("%s: |y[%ld]-sum| = %.3g", what, r.bad, r.err_at),
                         fmt("<= %.3g (rounding accuracy)", r.tol_at), P(det).kv("i", r.bad).kv("what", what));
        };
        try {
            if (!cplx) {
                arr_real hc = to_real(c), xa = to_real(x);
                dsplib::FirFilterR f(hc);
                arr_real yd = f.process(xa);
                if (yd.size() != len) {
                    ctx.fail("FirFilterR::process", fmt("output length %d", yd.size()), fmt("%d", len), P(det).kv("what", "size"));
                } else {
                    Cmp r = compare(len, [&](long i) { return yd[(int)i]; }, [&](long) { return 0.0; }, ref, tol_dir);
                    report("FirFilterR::process", "direct", r, len);
                    ctx.worst("direct err/tol", r.worst_ratio);
                    if (g_dir > 0) {
                        Cmp r2 = compare(len, [&](long i) { return yd[(int)i]; }, [&](long) { return 0.0; }, ref,
                                         [&](long) { return g_dir / 8.0; });
                        if (!r2.nonfinite) ctx.worst("direct err/(eps*|c|2*|x|2) [design bound 8]", r2.worst_ratio);
                    }
                }
                dsplib::FftFilter ff(hc);
                // "in multiples of its block size": the size the object reports (the enumerated input lengths are placed
                // around 2^nextpow2(2*nh) - nh + 1, the value of the pinned implementation; a different size is only noted)
                const int bs = ff.block_size();
                if (bs < 1) {
                    ctx.fail("FftFilter::block_size", fmt("%d", bs), ">= 1", P(det).kv("what", "block"));
                    continue;
                }
                if (bs != block) ctx.note("FftFilter block_size differs from 2^nextpow2(2nh)-nh+1");
                nfft = (long)(len / bs) * bs;
                arr_real yf = ff.process(xa);
                if (yf.size() != nfft) {
                    ctx.fail("FftFilter::process", fmt("output length %d", yf.size()),
                             fmt("floor(len/block_size)*block_size = %ld", nfft), P(det).kv("what", "size"));
                } else {
                    Cmp r = compare(nfft, [&](long i) { return yf[(int)i]; }, [&](long) { return 0.0; }, ref, tol_fft);
                    report("FftFilter::process", "fft", r, nfft);
                    ctx.worst("fft err/tol", r.worst_ratio);
                    if (yd.size() == len) {
                        Sig dref;
                        dref.resize((size_t)nfft);
                        for (long i = 0; i < nfft; ++i) dref.re[(size_t)i] = yd[(int)i];
                        Cmp q = compare(nfft, [&](long i) { return yf[(int)i]; }, [&](long) { return 0.0; }, dref, tol_both);
                        report("FftFilter::process", "fft-vs-direct", q, nfft);
                    }
                }
            } else {
                arr_cmplx hc = to_cmplx(c), xa = to_cmplx(x);
                dsplib::FirFilterC f(hc);
                arr_cmplx yd = f.process(xa);
                if (yd.size() != len) {
                    ctx.fail("FirFilterC::process", fmt("output length %d", yd.size()), fmt("%d", len), P(det).kv("what", "size"));
                } else {
                    Cmp r = compare(len, [&](long i) { return yd[(int)i].re; }, [&](long i) { return yd[(int)i].im; }, ref, tol_dir);
                    report("FirFilterC::process", "direct", r, len);
                    ctx.worst("direct err/tol", r.worst_ratio);
                    if (g_dir > 0) {
                        Cmp r2 = compare(len, [&](long i) { return yd[(int)i].re; }, [&](long i) { return yd[(int)i].im; }, ref,
                                         [&](long) { return g_dir / 8.0; });
                        if (!r2.nonfinite) ctx.worst("direct err/(eps*|c|2*|x|2) [design bound 8]", r2.worst_ratio);
                    }
                }
                dsplib::FftFilter ff(hc);
                // "in multiples of its block size": the size the object reports (the enumerated input lengths are placed
                // around 2^nextpow2(2*nh) - nh + 1, the value of the pinned implementation; a different size is only noted)
                const int bs = ff.block_size();
                if (bs < 1) {
                    ctx.fail("FftFilter::block_size", fmt("%d", bs), ">= 1", P(det).kv("what", "block"));
                    continue;
                }
                if (bs != block) ctx.note("FftFilter block_size differs from 2^nextpow2(2nh)-nh+1");
                nfft = (long)(len / bs) * bs;
                arr_cmplx yf = ff.process(xa);
                if (yf.size() != nfft) {
                    ctx.fail("FftFilter::process", fmt("output length %d", yf.size()),
                             fmt("floor(len/block_size)*block_size = %ld", nfft), P(det).kv("what", "size"));
                } else {
                    Cmp r = compare(nfft, [&](long i) { return yf[(int)i].re; }, [&](long i) { return yf[(int)i].im; }, ref, tol_fft);
                    report("FftFilter::process", "fft", r, nfft);
                    ctx.worst("fft err/tol", r.worst_ratio);
                    if (yd.size() == len) {
                        Sig dref;
                        dref.resize((size_t)nfft);
                        for (long i = 0; i < nfft; ++i) {
                            dref.re[(size_t)i] = yd[(int)i].re;
                            dref.im[(size_t)i] = yd[(int)i].im;
                        }
                        Cmp q = compare(nfft, [&](long i) { return yf[(int)i].re; }, [&](long i) { return yf[(int)i].im; }, dref, tol_both);
                        report("FftFilter::process", "fft-vs-direct", q, nfft);
                    }
                }
            }
        } catch (const std::exception& e) {
            ctx.fail(cplx ? "FirFilterC/FftFilter" : "FirFilterR/FftFilter", fmt("exception: %s", e.what()), "no exception",
                     P(det).kv("what", "throw"));
        }
    }
    if (nontriv && len > 0) ctx.nontrivial();
    ctx.note(fmt("fir %s sweep:%d len>=block:%d", cplx ? "complex" : "real", (int)(nh <= sweep_nh), (int)(len >= block)));
    if (big) ctx.note(fmt("fir big case nh=%d len=%d", nh, len));
    if (len / block >= 2) ctx.note("fft filter: >= 2 blocks (overlap carried)");
}

// ------------------------------------------------------------------------------------------------ xcorr
static Sig dense_sig(uint64_t tag, int n, bool cplx) {
    Sig s;
    s.resize((size_t)n);
    for (int i = 0; i < n; ++i) put(s, (size_t)i, lcg_val(tag, (uint64_t)i), lcg_val(tag + 1, (uint64_t)i), cplx);
    return s;
}

// compares one xcorr result; returns worst err/tol
static void xcorr_check(Ctx& ctx, const char* site, bool cplx, const Sig& a, const Sig& b, const arr_real* yr, const arr_cmplx* yc,
                        const P& det) {
    const long n1 = (long)a.size(), n2 = (long)b.size(), n = n1 + n2 - 1;
    const long got = cplx ? yc->size() : yr->size();
    if (got != n) {
        ctx.fail(site, fmt("output length %ld", got), fmt("n1+n2-1 = %ld", n), P(det).kv("what", "size"));
        return;
    }
    Sig ref;
    xcorr_ref(a, b, ref);
    const double tol = 64.0 * std::max(1, ilog2(n)) * EPS * (double)a.norm2() * (double)b.norm2();
    Cmp r = cplx ? compare(n, [&](long i) { return (*yc)[(int)i].re; }, [&](long i) { return (*yc)[(int)i].im; }, ref, [&](long) { return tol; })
                 : compare(n, [&](long i) { return (*yr)[(int)i]; }, [&](long) { return 0.0; }, ref, [&](long) { return tol; });
    ctx.worst("xcorr err/tol", r.worst_ratio);
    if (r.bad >= 0)
        ctx.fail(site,
                 r.nonfinite ? fmt("non-finite r at index %ld", r.bad)
                             : fmt("|r[lag=%ld] - sum| = %.3g (n1=%ld n2=%ld)", r.bad - (n2 - 1), r.err_at, n1, n2),
                 fmt("<= %.3g", r.tol_at), P(det).kv("lag", r.bad - (n2 - 1)).kv("what", "value"));
}

static void xcorr_pair_case(Ctx& ctx, int n1, int n2) {
    // all impulse pairs (delta_i, delta_j), complex weights (complex overload) and real weights (real overload)
    try {
        for (int i = 0; i < n1; ++i) {
            for (int j = 0; j < n2; ++j) {
                for (int cplx = 0; cplx < 2; ++cplx) {
                    Sig a, b;
                    a.resize((size_t)n1);
                    b.resize((size_t)n2);
                    double re, im;
                    rot(0.3 + 0.7 * i, 1.5, re, im);
                    put(a, (size_t)i, cplx ? re : 1.5, im, cplx);
                    rot(-0.9 + 0.4 * j, 0.5, re, im);
                    put(b, (size_t)j, cplx ? re : -0.5, im, cplx);
                    const P det = P().kv("letter", "imp").kv("i", i).kv("j", j).kv("cplx", cplx);
                    if (cplx) {
                        arr_cmplx y = dsplib::xcorr(to_cmplx(a), to_cmplx(b));
                        xcorr_check(ctx, "xcorr(arr_cmplx,arr_cmplx)", true, a, b, nullptr, &y, det);
                    } else {
                        arr_real y = dsplib::xcorr(to_real(a), to_real(b));
                        xcorr_check(ctx, "xcorr(arr_real,arr_real)", false, a, b, &y, nullptr, det);
                    }
                }
            }
        }
        // dense letters
        for (int cplx = 0; cplx < 2; ++cplx) {
            Sig a = dense_sig(721, n1, cplx), b = dense_sig(731, n2, cplx);
            const P det = P().kv("letter", "dense").kv("cplx", cplx);
            if (cplx) {
                arr_cmplx y = dsplib::xcorr(to_cmplx(a), to_cmplx(b));
                xcorr_check(ctx, "xcorr(arr_cmplx,arr_cmplx)", true, a, b, nullptr, &y, det);
            } else {
                arr_real y = dsplib::xcorr(to_real(a), to_real(b));
                xcorr_check(ctx, "xcorr(arr_real,arr_real)", false, a, b, &y, nullptr, det);
            }
        }
    } catch (const std::exception& e) {
        ctx.fail("xcorr", fmt("exception: %s", e.what()), "no exception", P().kv("what", "throw"));
    }
    if (n1 >= 2 && n2 >= 2) ctx.nontrivial();
    ctx.note(n1 == n2 ? "xcorr n1==n2" : (n1 < n2 ? "xcorr n1<n2" : "xcorr n1>n2"));
    if (ilog2(n1 + n2 - 1) != ilog2(std::max(n1, n2))) ctx.note("xcorr fft length > nextpow2(max(n1,n2))");
}

static void xcorr_dense_case(Ctx& ctx, int n1, int n2, bool with_two) {
    try {
        for (int cplx = 0; cplx < 2; ++cplx) {
            for (int lt = 0; lt < (with_two ? 2 : 1); ++lt) {
                Sig a = lt ? in_letter("two", 0, n1, cplx) : dense_sig(741, n1, cplx);
                Sig b = dense_sig(751, n2, cplx);
                const P det = P().kv("letter", lt ? "two" : "dense").kv("cplx", cplx);
                if (cplx) {
                    arr_cmplx y = dsplib::xcorr(to_cmplx(a), to_cmplx(b));
                    xcorr_check(ctx, "xcorr(arr_cmplx,arr_cmplx)", true, a, b, nullptr, &y, det);
                } else {
                    arr_real y = dsplib::xcorr(to_real(a), to_real(b));
                    xcorr_check(ctx, "xcorr(arr_real,arr_real)", false, a, b, &y, nullptr, det);
                }
            }
        }
    } catch (const std::exception& e) {
        ctx.fail("xcorr", fmt("exception: %s", e.what()), "no exception", P().kv("what", "throw"));
    }
    if (n1 >= 2 && n2 >= 2) ctx.nontrivial();
}

static void xcorr_auto_case(Ctx& ctx, int n) {
    try {
        for (int cplx = 0; cplx < 2; ++cplx) {
            for (int lt = 0; lt < 2; ++lt) {   // dense, and a single weighted impulse in the middle
                Sig a = dense_sig(761, n, cplx);
                if (lt) {
                    a.resize((size_t)n);
                    double re, im;
                    rot(0.8, 1.25, re, im);
                    put(a, (size_t)(n / 2), cplx ? re : 1.25, im, cplx);
                }
                const P det = P().kv("letter", lt ? "imp" : "dense").kv("cplx", cplx);
                if (cplx) {
                    arr_cmplx y = dsplib::xcorr(to_cmplx(a));
                    xcorr_check(ctx, "xcorr(arr_cmplx)", true, a, a, nullptr, &y, det);
                } else {
                    arr_real y = dsplib::xcorr(to_real(a));
                    xcorr_check(ctx, "xcorr(arr_real)", false, a, a, &y, nullptr, det);
                }
            }
        }
    } catch (const std::exception& e) {
        ctx.fail("xcorr(auto)", fmt("exception: %s", e.what()), "no exception", P().kv("what", "throw"));
    }
    if (n >= 2) ctx.nontrivial();
}

// ------------------------------------------------------------------------------------------------ direct form, large dynamic range
// "FirFilter ... to rounding accuracy for every coefficient vector and input ... large-dynamic-range content": the DIRECT filter
// (process and conv) is held to the per-sample bound |err_i| <= (nh+8)*eps*sum_k |c[k]||x[i-k]| that every double-precision dot
// product meets in any summation order - a loud sample may only disturb the outputs it is a term of.  (FftFilter is allowed its
// block-level bound.)  One call of 16..20 nh samples with nh >= 256.
static void burst_case(Ctx& ctx, bool cplx, int nh, int len, const std::string& letter, int pos, bool equal_taps = false) {
    Sig c = coef_letter("dense", 0, nh, cplx);
    if (equal_taps)   // boxcar: every tap is the same number (the FIR form of a moving average)
        for (int k = 0; k < nh; ++k) put(c, (size_t)k, 1.0 / nh, -0.5 / nh, cplx);
    Sig x;
    x.resize((size_t)len);
    for (int i = 0; i < len; ++i) {
        double re = lcg_val(791, (uint64_t)i), im = lcg_val(792, (uint64_t)i);
        if (letter == "burst100") {
            const double sc = (i >= pos && i < pos + 3) ? 1e100 : 1e-100;
            re *= sc, im *= sc;
        } else if (i == pos) {
            const double v = letter == "spike1e8" ? 1e8 : 1e12;
            re = v, im = -0.5 * v;
        }
        put(x, (size_t)i, re, im, cplx);
    }
    Sig ref;
    std::vector<double> S;
    fir_ref(c, x, cplx, ref, S);
    auto tol = [&](long i) { return (nh + 8.0) * EPS * S[(size_t)i]; };
    const char* sp = cplx ? "FirFilterC::process" : "FirFilterR::process";
    const char* sc = cplx ? "FirFilterC::conv" : "FirFilterR::conv";
    try {
        // process(): len outputs against ref[0..len)
        std::vector<double> re, im;
        if (!cplx) {
            arr_real y = dsplib::FirFilterR(to_real(c)).process(to_real(x));
            for (int i = 0; i < y.size(); ++i) re.push_back(y[i]), im.push_back(0.0);
        } else {
            arr_cmplx y = dsplib::FirFilterC(to_cmplx(c)).process(to_cmplx(x));
            for (int i = 0; i < y.size(); ++i) re.push_back(y[i].re), im.push_back(y[i].im);
        }
        if ((long)re.size() != len) {
            ctx.fail(sp, fmt("output length %zu", re.size()), fmt("%d", len), P().kv("what", "size"));
        } else {
            Cmp q = compare(len, [&](long i) { return re[(size_t)i]; }, [&](long i) { return im[(size_t)i]; }, ref, tol);
            ctx.worst("burst: direct process err / ((nh+8) eps sum|c||x|)", q.worst_ratio < 1e299 ? q.worst_ratio : 0);
            if (q.bad >= 0)
                ctx.fail(sp,
                         q.nonfinite ? fmt("non-finite y[%ld]", q.bad)
                                     : fmt("%s at %d: |y[%ld]-sum| = %.3g = %.3g eps*sum|c||x| of that sample", letter.c_str(), pos, q.bad, q.err_at,
                                           q.err_at / (EPS * S[(size_t)q.bad])),
                         fmt("<= %.3g = (nh+8) eps sum_k|c[k]||x[i-k]| (per-sample rounding bound of the direct form)", q.tol_at), P().kv("i", q.bad).kv("what", "value"));
        }
        // conv(): nx-nh+1 outputs against ref[nh-1..)
        re.clear();
        im.clear();
        if (!cplx) {
            arr_real y = dsplib::FirFilterR::conv(to_real(x), to_real(c));
            for (int i = 0; i < y.size(); ++i) re.push_back(y[i]), im.push_back(0.0);
        } else {
            arr_cmplx y = dsplib::FirFilterC::conv(to_cmplx(x), to_cmplx(c));
            for (int i = 0; i < y.size(); ++i) re.push_back(y[i].re), im.push_back(y[i].im);
        }
        const long n = (long)len - nh + 1;
        if ((long)re.size() != n) {
            ctx.fail(sc, fmt("output length %zu", re.size()), fmt("%ld", n), P().kv("what", "size"));
        } else {
            Sig r;
            r.resize((size_t)n);
            for (long i = 0; i < n; ++i) r.re[(size_t)i] = ref.re[(size_t)(i + nh - 1)], r.im[(size_t)i] = ref.im[(size_t)(i + nh - 1)];
            Cmp q = compare(n, [&](long i) { return re[(size_t)i]; }, [&](long i) { return im[(size_t)i]; }, r, [&](long i) { return tol(i + nh - 1); });
            ctx.worst("burst: direct conv err / ((nh+8) eps sum|c||x|)", q.worst_ratio < 1e299 ? q.worst_ratio : 0);
            if (q.bad >= 0)
                ctx.fail(sc,
                         q.nonfinite ? fmt("non-finite r[%ld]", q.bad)
                                     : fmt("%s at %d: |r[%ld]-sum| = %.3g = %.3g eps*sum|c||x| of that sample", letter.c_str(), pos, q.bad, q.err_at,
                                           q.err_at / (EPS * S[(size_t)(q.bad + nh - 1)])),
                         fmt("<= %.3g = (nh+8) eps sum_k|c[k]||x[i-k]| (per-sample rounding bound of the direct form)", q.tol_at), P().kv("i", q.bad).kv("what", "value"));
        }
    } catch (const std::exception& e) {
        ctx.fail(sp, fmt("exception: %s", e.what()), "no exception", P().kv("what", "throw"));
    }
    ctx.nontrivial();
}

// ------------------------------------------------------------------------------------------------ FirFilter<T>::conv (static)
// conv(x, h) returns the nx-nh+1 "valid" samples r[i] = sum_j conj(h[j]) x[i+nh-1-j], i.e. the filter output without history.
static void conv_case(Ctx& ctx, bool cplx, int nx, int nh) {
    const Sig c = dense_sig(771, nh, cplx), x = dense_sig(781, nx, cplx);
    Sig ref;
    std::vector<double> S;
    fir_ref(c, x, cplx, ref, S);
    const long n = (long)nx - nh + 1;
    Sig r;
    r.resize((size_t)n);
    for (long i = 0; i < n; ++i) r.re[(size_t)i] = ref.re[(size_t)(i + nh - 1)], r.im[(size_t)i] = ref.im[(size_t)(i + nh - 1)];
    const double g = 8.0 * EPS * (double)c.norm2() * (double)x.norm2();
    auto tol = [&](long i) { return std::max(g, (nh + 8.0) * EPS * S[(size_t)(i + nh - 1)]); };
    const char* site = cplx ? "FirFilterC::conv" : "FirFilterR::conv";
    try {
        Cmp q;
        long got;
        if (!cplx) {
            arr_real y = dsplib::FirFilterR::conv(to_real(x), to_real(c));
            got = y.size();
            if (got == n) q = compare(n, [&](long i) { return y[(int)i]; }, [&](long) { return 0.0; }, r, tol);
        } else {
            arr_cmplx y = dsplib::FirFilterC::conv(to_cmplx(x), to_cmplx(c));
            got = y.size();
            if (got == n) q = compare(n, [&](long i) { return y[(int)i].re; }, [&](long i) { return y[(int)i].im; }, r, tol);
        }
        if (got != n) {
            ctx.fail(site, fmt("output length %ld", got), fmt("nx-nh+1 = %ld", n), P().kv("what", "size"));
            return;
        }
        ctx.worst("conv err/tol", q.worst_ratio);
        if (q.bad >= 0)
            ctx.fail(site, q.nonfinite ? fmt("non-finite r[%ld]", q.bad) : fmt("|r[%ld] - sum| = %.3g", q.bad, q.err_at), fmt("<= %.3g", q.tol_at),
                     P().kv("i", q.bad).kv("what", "value"));
    } catch (const std::exception& e) {
        ctx.fail(site, fmt("exception: %s", e.what()), "no exception", P().kv("what", "throw"));
    }
    ctx.nontrivial();
}

// ------------------------------------------------------------------------------------------------ MAFilter
static void ma_case(Ctx& ctx, int n, int len, bool big = false) {
    std::vector<const char*> kinds = {"imp0", "impn", "lcg", "two", "const", "burst"};
    if (big) kinds = {"lcg", "burst"};
    for (int cplx = 0; cplx < 2; ++cplx) {
        for (const char* kd : kinds) {
            std::string k = kd;
            Sig x;
            if (k == "imp0") x = in_letter("imp", 0, len, cplx);
            else if (k == "impn") x = in_letter("imp", std::min(len - 1, n), len, cplx);
            else if (k == "burst") {
                // three samples of magnitude 1e+100 followed by 1e-100 only: the rounding residue they leave in the running
                // sum must be gone (re-accumulation) at the latest n-1 samples after they left the window
                x.resize((size_t)len);
                for (int i = 0; i < len; ++i)
                    put(x, (size_t)i, lcg_val(715, (uint64_t)i) * (i < 3 ? 1e100 : 1e-100), lcg_val(716, (uint64_t)i) * (i < 3 ? 1e100 : 1e-100), cplx);
            } else if (k == "const") {
                x.resize((size_t)len);
                for (int i = 0; i < len; ++i) put(x, (size_t)i, 0.1, -0.3, cplx);
            } else x = in_letter(k, 0, len, cplx);
            if (len == 0 && k != "lcg") continue;
            // reference and tolerance
            Sig ref;
            ref.resize((size_t)len);
            std::vector<double> tol((size_t)len, 0.0);
            std::vector<ld> ax((size_t)len);
            for (int i = 0; i < len; ++i) ax[(size_t)i] = sqrtl(x.re[(size_t)i] * x.re[(size_t)i] + x.im[(size_t)i] * x.im[(size_t)i]);
            ld sr = 0, si = 0;
            for (int i = 0; i < len; ++i) {
                // exact window sum recomputed for every output (no running sum in the oracle)
                sr = 0;
                si = 0;
                for (int q = std::max(0, i - n + 1); q <= i; ++q) {
                    sr += x.re[(size_t)q];
                    si += x.im[(size_t)q];
                }
                ref.re[(size_t)i] = sr / n;
                ref.im[(size_t)i] = si / n;
                ld s2 = 0;
                for (int q = std::max(0, i - 2 * n + 1); q <= i; ++q) s2 += ax[(size_t)q];
                tol[(size_t)i] = (double)((2.0 * n + 8.0) * EPS * s2 / n);
            }
            const P det = P().kv("in", k).kv("cplx", cplx);
            try {
                for (int mode = 0; mode < 2; ++mode) {   // array overload, scalar overload
                    Cmp r;
                    long got = len;
                    if (!cplx) {
                        dsplib::MAFilterR f(n);
                        arr_real xa = to_real(x), y(len);
                        if (mode == 0) y = f.process(xa);
                        else
                            for (int i = 0; i < len; ++i) y[i] = f.process(xa[i]);
                        got = y.size();
                        if (got == len)
                            r = compare(len, [&](long i) { return y[(int)i]; }, [&](long) { return 0.0; }, ref,
                                        [&](long i) { return tol[(size_t)i]; });
                    } else {
                        dsplib::MAFilterC f(n);
                        arr_cmplx xa = to_cmplx(x), y(len);
                        if (mode == 0) y = f.process(xa);
                        else
                            for (int i = 0; i < len; ++i) y[i] = f.process(xa[i]);
                        got = y.size();
                        if (got == len)
                            r = compare(len, [&](long i) { return y[(int)i].re; }, [&](long i) { return y[(int)i].im; }, ref,
                                        [&](long i) { return tol[(size_t)i]; });
                    }
                    const char* site = cplx ? "MAFilterC::process" : "MAFilterR::process";
                    if (got != len) {
                        ctx.fail(site, fmt("output length %ld", got), fmt("%d", len), P(det).kv("what", "size"));
                        continue;
                    }
                    ctx.worst("mafilter err/tol", r.worst_ratio);
                    if (r.bad >= 0)
                        ctx.fail(site,
                                 r.nonfinite ? fmt("non-finite output at i=%ld", r.bad)
                                             : fmt("|y[%ld] - mean of last %d| = %.3g (%s overload)", r.bad, n, r.err_at, mode ? "scalar" : "array"),
                                 fmt("<= %.3g", r.tol_at), P(det).kv("i", r.bad).kv("what", "value").kv("scalar", mode));
                }
            } catch (const std::exception& e) {
                ctx.fail("MAFilter::process", fmt("exception: %s", e.what()), "no exception", P(det).kv("what", "throw"));
            }
        }
    }
    if (n >= 2 && len >= 2) ctx.nontrivial();
    if (len > 2 * n) ctx.note("mafilter: input passes >= 2 re-accumulations");
}

// ------------------------------------------------------------------------------------------------ FirFilter call sequences
// One FirFilter object, several calls with CHANGING frame lengths (including empty frames): every call must return exactly as
// many samples as it was given and these must equal the defining sum over the whole stream fed so far.  One fixed stream per
// input letter; every sequence feeds a prefix of it, so the long-double sums are computed once (the filter is causal).
static void firseq_case(Ctx& ctx, bool cplx, int nh, int ncalls = 3) {
    const Sig c = coef_letter("dense", 0, nh, cplx);
    const double cn = (double)c.norm2();
    std::set<int> vs = {0, 1, 2, nh - 1, nh, nh + 1, 30, 64};
    std::vector<int> vals(vs.begin(), vs.end());
    std::vector<std::vector<int>> seqs;
    for (int a : vals)
        for (int b : vals)
            for (int d : vals) {
                if (ncalls >= 4) {
                    for (int e : vals) seqs.push_back({a, b, d, e});
                } else {
                    seqs.push_back({a, b, d});
                }
            }
    // a few longer histories: alternating lengths and an empty frame after non-empty ones
    seqs.push_back({nh, nh, 0, nh, 1});
    seqs.push_back({1, 2, 1, 2, 1, 2});
    seqs.push_back({30, 30, 30, 7, 30});
    int maxlen = 0;
    for (auto& q : seqs) {
        int t = 0;
        for (int v : q) t += v;
        maxlen = std::max(maxlen, t);
    }
    const char* site = cplx ? "FirFilterC::process" : "FirFilterR::process";
    struct Stream {
        std::string kind;
        int p;
    };
    const Stream streams[] = {{"lcg", 0}, {"imp", 0}, {"imp", nh}};
    double worst = 0;
    long calls = 0;
    for (const auto& st : streams) {
        const Sig x = in_letter(st.kind, st.p, maxlen, cplx);
        Sig ref;
        std::vector<double> S;
        fir_ref(c, x, cplx, ref, S);
        std::vector<double> pn((size_t)maxlen + 1, 0.0);
        {
            ld acc = 0;
            for (int i = 0; i < maxlen; ++i) {
                acc += x.re[(size_t)i] * x.re[(size_t)i] + x.im[(size_t)i] * x.im[(size_t)i];
                pn[(size_t)i + 1] = (double)sqrtl(acc);
            }
        }
        const arr_real xr = to_real(x), hr = to_real(c);
        const arr_cmplx xc = to_cmplx(x), hc = to_cmplx(c);
        for (const auto& sq : seqs) {
            const P det = P().kv("in", st.kind).kv("pos", st.p).list("calls", sq);
            try {
                dsplib::FirFilterR fr(hr);
                dsplib::FirFilterC fc(hc);
                long fed = 0;
                for (size_t ci = 0; ci < sq.size(); ++ci) {
                    const int n = sq[ci];
                    std::vector<double> ore((size_t)n, 0.0), oim((size_t)n, 0.0);
                    long got;
                    if (!cplx) {
                        arr_real in(n);
                        for (int i = 0; i < n; ++i) in[i] = xr[(int)fed + i];
                        arr_real out = fr.process(in);
                        got = out.size();
                        for (int i = 0; i < std::min<long>(got, n); ++i) ore[(size_t)i] = out[i];
                    } else {
                        arr_cmplx in(n);
                        for (int i = 0; i < n; ++i) in[i] = xc[(int)fed + i];
                        arr_cmplx out = fc.process(in);
                        got = out.size();
                        for (int i = 0; i < std::min<long>(got, n); ++i) ore[(size_t)i] = out[i].re, oim[(size_t)i] = out[i].im;
                    }
                    ++calls;
                    if (got != n) {
                        ctx.fail(site, fmt("calls %s: call %zu returned %ld samples", show(sq).c_str(), ci + 1, got), fmt("%d", n),
                                 P(det).kv("call", (long)ci + 1).kv("what", "size"));
                        break;
                    }
                    // compare with the stream reference at offset fed
                    Sig rr;
                    rr.resize((size_t)n);
                    for (int i = 0; i < n; ++i) rr.re[(size_t)i] = ref.re[(size_t)(fed + i)], rr.im[(size_t)i] = ref.im[(size_t)(fed + i)];
                    const double g_dir = 8.0 * EPS * cn * pn[(size_t)(fed + n)];
                    Cmp r = compare(n, [&](long i) { return ore[(size_t)i]; }, [&](long i) { return oim[(size_t)i]; }, rr,
                                    [&](long i) { return std::max(g_dir, (nh + 8.0) * EPS * S[(size_t)(fed + i)]); });
                    worst = std::max(worst, r.worst_ratio);
                    if (r.bad >= 0) {
                        ctx.fail(site,
                                 r.nonfinite ? fmt("calls %s: non-finite output in call %zu", show(sq).c_str(), ci + 1)
                                             : fmt("calls %s: call %zu, |y[%ld]-sum over the stream| = %.3g (stream index %ld)", show(sq).c_str(), ci + 1,
                                                   r.bad, r.err_at, fed + r.bad),
                                 fmt("<= %.3g (rounding accuracy)", r.tol_at), P(det).kv("call", (long)ci + 1).kv("i", r.bad).kv("what", "value"));
                        break;
                    }
                    fed += n;
                }
            } catch (const std::exception& e) {
                ctx.fail(site, fmt("calls %s: exception: %s", show(sq).c_str(), e.what()), "no exception", P(det).kv("what", "throw"));
            }
        }
    }
    ctx.worst("direct multi-call err/tol", worst);
    ctx.note(fmt("firfilter.seq calls %s", cplx ? "complex" : "real"), calls);
    ctx.nontrivial();
}

// ------------------------------------------------------------------------------------------------ FftFilter call sequences
// "the FFT-based filter emits the same sequence as the direct one in multiples of its block size" over several calls, from
// rest: one fixed stream per input letter; every call sequence feeds a prefix of it, so the long-double defining sum and the
// FirFilter output (one call on the whole stream; both are causal) are computed once and compared prefix-wise.  After every
// call the samples emitted so far must number floor(fed/bs)*bs (bs = block_size() as reported) and equal the defining sum.
static void fftseq_case(Ctx& ctx, bool cplx, int nh, int block, int fftlen, bool full) {
    const Sig c = coef_letter("dense", 0, nh, cplx);
    const double cn = (double)c.norm2();
    // call sequences
    std::vector<std::vector<int>> seqs;
    // full: 9 frame lengths (729 sequences), otherwise 6 (216 sequences)
    std::vector<int> vals = full ? std::vector<int>{1, 2, block - 1, block, block + 1, 2 * block - 1, 2 * block, 2 * block + 3, 3 * block}
                                 : std::vector<int>{1, block - 1, block, block + 1, 2 * block, 2 * block + 3};
    {
        std::set<int> u(vals.begin(), vals.end());
        vals.assign(u.begin(), u.end());
    }
    for (int a : vals)
        for (int b : vals)
            for (int d : vals) seqs.push_back({a, b, d});
    for (int r = 1; r <= std::min(block - 1, 8); ++r) seqs.push_back({r, block, block, 2 * block - r});
    const int maxlen = std::max(3 * std::max(2 * block + 3, 3 * block), 4 * block);
    const char* site = "FftFilter::process";
    struct Stream {
        std::string kind;
        int p;
    };
    const Stream streams[] = {{"lcg", 0}, {"imp", 0}, {"imp", block}};
    double worst_fft = 0, worst_vs = 0;
    long calls = 0;
    bool stop = false;
    for (const auto& st : streams) {
        if (stop) break;
        const Sig x = in_letter(st.kind, st.p, maxlen, cplx);
        Sig ref;
        std::vector<double> S;
        fir_ref(c, x, cplx, ref, S);
        // prefix norms of the stream (tolerances use the norm of what has been fed)
        std::vector<double> pn((size_t)maxlen + 1, 0.0);
        {
            ld acc = 0;
            for (int i = 0; i < maxlen; ++i) {
                acc += x.re[(size_t)i] * x.re[(size_t)i] + x.im[(size_t)i] * x.im[(size_t)i];
                pn[(size_t)i + 1] = (double)sqrtl(acc);
            }
        }
        // direct filter on the whole stream
        Sig dir;
        dir.resize((size_t)maxlen);
        bool have_dir = false;
        try {
            if (!cplx) {
                dsplib::FirFilterR f(to_real(c));
                arr_real yd = f.process(to_real(x));
                if (yd.size() == maxlen) {
                    for (int i = 0; i < maxlen; ++i) dir.re[(size_t)i] = yd[i];
                    have_dir = true;
                }
            } else {
                dsplib::FirFilterC f(to_cmplx(c));
                arr_cmplx yd = f.process(to_cmplx(x));
                if (yd.size() == maxlen) {
                    for (int i = 0; i < maxlen; ++i) dir.re[(size_t)i] = yd[i].re, dir.im[(size_t)i] = yd[i].im;
                    have_dir = true;
                }
            }
        } catch (const std::exception&) {
        }
        if (!have_dir) {
            ctx.fail(cplx ? "FirFilterC::process" : "FirFilterR::process", "no output of the stream length", fmt("%d samples", maxlen),
                     P().kv("in", st.kind).kv("pos", st.p).kv("what", "direct"));
            break;
        }
        const arr_real xr = to_real(x), hr = to_real(c);
        const arr_cmplx xc = to_cmplx(x), hc = to_cmplx(c);
        for (const auto& sq : seqs) {
            if (stop) break;
            const P det = P().kv("in", st.kind).kv("pos", st.p).list("calls", sq);
            try {
                dsplib::FftFilter ff = cplx ? dsplib::FftFilter(hc) : dsplib::FftFilter(hr);
                const int bs = ff.block_size();
                if (bs < 1) {
                    ctx.fail("FftFilter::block_size", fmt("%d", bs), ">= 1", P(det).kv("what", "block"));
                    stop = true;
                    break;
                }
                std::vector<double> ore, oim;
                long fed = 0;
                bool bad = false;
                for (size_t ci = 0; ci < sq.size() && !bad; ++ci) {
                    const int n = sq[ci];
                    long got;
                    if (!cplx) {
                        arr_real in(n);
                        for (int i = 0; i < n; ++i) in[i] = xr[(int)fed + i];
                        arr_real out = ff.process(in);
                        got = out.size();
                        for (int i = 0; i < out.size(); ++i) ore.push_back(out[i]), oim.push_back(0.0);
                    } else {
                        arr_cmplx in(n);
                        for (int i = 0; i < n; ++i) in[i] = xc[(int)fed + i];
                        arr_cmplx out = ff.process(in);
                        got = out.size();
                        for (int i = 0; i < out.size(); ++i) ore.push_back(out[i].re), oim.push_back(out[i].im);
                    }
                    fed += n;
                    ++calls;
                    const long want = (fed / bs) * bs;
                    if ((long)ore.size() != want) {
                        ctx.fail(site, fmt("%zu samples emitted after call %zu (this call: %ld), %ld fed", ore.size(), ci + 1, got, fed),
                                 fmt("floor(fed/block_size)*block_size = %ld", want), P(det).kv("call", (long)ci + 1).kv("what", "size"));
                        bad = true;
                    }
                }
                if (bad) continue;
                const long nout = (long)ore.size();
                const double g_fft = 64.0 * ilog2(fftlen) * EPS * cn * pn[(size_t)fed];
                const double g_dir = 8.0 * EPS * cn * pn[(size_t)fed];
                Cmp r = compare(nout, [&](long i) { return ore[(size_t)i]; }, [&](long i) { return oim[(size_t)i]; }, ref, [&](long) { return g_fft; });
                worst_fft = std::max(worst_fft, r.worst_ratio);
                if (r.bad >= 0) {
                    ctx.fail(site,
                             r.nonfinite ? fmt("non-finite output at i=%ld", r.bad)
                                         : fmt("calls %s: |y[%ld]-sum| = %.3g", show(sq).c_str(), r.bad, r.err_at),
                             fmt("<= %.3g (rounding accuracy)", r.tol_at), P(det).kv("i", r.bad).kv("what", "fft"));
                    continue;
                }
                Cmp q = compare(nout, [&](long i) { return ore[(size_t)i]; }, [&](long i) { return oim[(size_t)i]; }, dir,
                                [&](long i) { return g_fft + std::max(g_dir, (nh + 8.0) * EPS * S[(size_t)i]); });
                worst_vs = std::max(worst_vs, q.worst_ratio);
                if (q.bad >= 0)
                    ctx.fail(site, fmt("calls %s: |y[%ld]-FirFilter| = %.3g", show(sq).c_str(), q.bad, q.err_at), fmt("<= %.3g", q.tol_at),
                             P(det).kv("i", q.bad).kv("what", "fft-vs-direct"));
            } catch (const std::exception& e) {
                ctx.fail(site, fmt("exception: %s", e.what()), "no exception", P(det).kv("what", "throw"));
            }
        }
    }
    ctx.worst("fft multi-call err/tol", worst_fft);
    ctx.worst("fft multi-call vs direct diff/tol", worst_vs);
    ctx.note(fmt("fftfilter.seq calls %s", cplx ? "complex" : "real"), calls);
    ctx.nontrivial();
}

// ------------------------------------------------------------------------------------------------ scale invariance
// Every entry point with a linear oracle is scale free: multiplying an operand by a power of two multiplies the exact result by
// the same power of two, and so it does for every rounded intermediate of a threshold-free computation (as long as nothing
// under- or overflows).  For coefficient / operand letters scaled by 2^ec and inputs scaled by 2^ex the output, scaled back
// exactly, must (a) meet the a-priori rounding bound of the unit-scale case (that bound is relative to |c| |x|, i.e. scale
// free) and (b) for |ec+ex| <= 700 equal the unit-scale output bit for bit.
enum Entry { E_FIR = 0, E_CONV, E_FFT, E_XCORR, E_XAUTO, E_MA };
static const char* ENAME[] = {"FirFilter::process", "FirFilter::conv", "FftFilter::process", "xcorr(a,b)", "xcorr(a)", "MAFilter::process"};

static Sig scaled(const Sig& s, int e) {
    Sig r = s;
    for (size_t i = 0; i < r.size(); ++i) {
        r.re[i] = (ld)std::ldexp((double)s.re[i], e);   // exact: the letters are doubles of magnitude 1e-6 .. 2
        r.im[i] = (ld)std::ldexp((double)s.im[i], e);
    }
    return r;
}
struct SOut {
    std::vector<double> re, im;
    std::string err;
};
static SOut call_entry(Entry en, bool cplx, const Sig& c, const Sig& x, int n_ma) {
    SOut o;
    auto putr = [&](const arr_real& y) {
        for (int i = 0; i < y.size(); ++i) o.re.push_back(y[i]), o.im.push_back(0.0);
    };
    auto putc = [&](const arr_cmplx& y) {
        for (int i = 0; i < y.size(); ++i) o.re.push_back(y[i].re), o.im.push_back(y[i].im);
    };
    try {
        switch (en) {
        case E_FIR:
            if (cplx) putc(dsplib::FirFilterC(to_cmplx(c)).process(to_cmplx(x)));
            else putr(dsplib::FirFilterR(to_real(c)).process(to_real(x)));
            break;
        case E_CONV:
            if (cplx) putc(dsplib::FirFilterC::conv(to_cmplx(x), to_cmplx(c)));
            else putr(dsplib::FirFilterR::conv(to_real(x), to_real(c)));
            break;
        case E_FFT:
            if (cplx) putc(dsplib::FftFilter(to_cmplx(c)).process(to_cmplx(x)));
            else putr(dsplib::FftFilter(to_real(c)).process(to_real(x)));
            break;
        case E_XCORR:
            if (cplx) putc(dsplib::xcorr(to_cmplx(c), to_cmplx(x)));
            else putr(dsplib::xcorr(to_real(c), to_real(x)));
            break;
        case E_XAUTO:
            if (cplx) putc(dsplib::xcorr(to_cmplx(c)));
            else putr(dsplib::xcorr(to_real(c)));
            break;
        case E_MA:
            if (cplx) putc(dsplib::MAFilterC(n_ma).process(to_cmplx(x)));
            else putr(dsplib::MAFilterR(n_ma).process(to_real(x)));
            break;
        }
    } catch (const std::exception& e) {
        o.err = e.what();
    }
    return o;
}

// c: coefficient vector / first operand (unused for E_MA), x: input / second operand (unused for E_XAUTO)
static void scale_case(Ctx& ctx, Entry en, bool cplx, const std::string& letter, int n1, int n2) {
    const char* site = ENAME[en];
    Sig c, x;
    if (en != E_MA) c = letter == "tap0" ? coef_letter("imp", 0, n1, cplx) : letter == "tapL" ? coef_letter("imp", n1 - 1, n1, cplx) : coef_letter(letter, 0, n1, cplx);
    if (en == E_MA) x = letter == "tap0" ? coef_letter("imp", 0, n2, cplx) : letter == "tapL" ? coef_letter("imp", n2 - 1, n2, cplx) : coef_letter(letter, 0, n2, cplx);
    else if (en != E_XAUTO) x = in_letter("lcg", 0, n2, cplx);
    // unit-scale reference and tolerance
    Sig ref;
    std::vector<double> tol;
    if (en == E_FIR || en == E_CONV || en == E_FFT) {
        Sig full;
        std::vector<double> S;
        fir_ref(c, x, cplx, full, S);
        const double cn = (double)c.norm2(), xn = (double)x.norm2();
        const int fftlen = 1 << ilog2(2L * n1);
        const long off = en == E_CONV ? n1 - 1 : 0;
        long n = en == E_CONV ? (long)n2 - n1 + 1 : n2;
        ref.resize((size_t)n);
        tol.resize((size_t)n);
        for (long i = 0; i < n; ++i) {
            ref.re[(size_t)i] = full.re[(size_t)(i + off)];
            ref.im[(size_t)i] = full.im[(size_t)(i + off)];
            tol[(size_t)i] = en == E_FFT ? 64.0 * ilog2(fftlen) * EPS * cn * xn : std::max(8.0 * EPS * cn * xn, (n1 + 8.0) * EPS * S[(size_t)(i + off)]);
        }
    } else if (en == E_XCORR || en == E_XAUTO) {
        const Sig& b = en == E_XAUTO ? c : x;
        xcorr_ref(c, b, ref);
        tol.assign(ref.size(), 64.0 * std::max(1, ilog2((long)ref.size())) * EPS * (double)c.norm2() * (double)b.norm2());
    } else {
        const int n = n1, len = n2;
        ref.resize((size_t)len);
        tol.assign((size_t)len, 0.0);
        for (int i = 0; i < len; ++i) {
            ld sr = 0, si = 0, s2 = 0;
            for (int q = std::max(0, i - n + 1); q <= i; ++q) sr += x.re[(size_t)q], si += x.im[(size_t)q];
            for (int q = std::max(0, i - 2 * n + 1); q <= i; ++q) s2 += sqrtl(x.re[(size_t)q] * x.re[(size_t)q] + x.im[(size_t)q] * x.im[(size_t)q]);
            ref.re[(size_t)i] = sr / n;
            ref.im[(size_t)i] = si / n;
            tol[(size_t)i] = (double)((2.0 * n + 8.0) * EPS * s2 / n);
        }
    }
    const SOut y1 = call_entry(en, cplx, c, x, n1);
    if (!y1.err.empty()) {
        ctx.fail(site, "exception at unit scale: " + y1.err, "no exception", P().kv("what", "throw").kv("ec", 0).kv("ex", 0));
        return;
    }
    // the FFT filter emits floor(len/bs)*bs samples: compare what it emits (its length is checked by the 'fir' cases)
    const long n = en == E_FFT ? (long)y1.re.size() : (long)ref.size();
    if ((long)y1.re.size() != n || n > (long)ref.size()) {
        ctx.fail(site, fmt("output length %zu at unit scale", y1.re.size()), fmt("%zu", ref.size()), P().kv("what", "size").kv("ec", 0).kv("ex", 0));
        return;
    }
    const int exps[] = {0, -60, -200, -600, 200};
    std::vector<std::pair<int, int>> combos;
    for (int ec : exps)
        for (int ex : exps) {
            if (en == E_MA && ec != 0) continue;
            if (en == E_XAUTO && ex != 0) continue;
            combos.push_back({ec, ex});
        }
    if (en == E_XCORR) {
        combos.push_back({600, -600});
        combos.push_back({-600, 600});
        combos.push_back({400, -600});
    }
    long nbit = 0, napr = 0;
    double worst = 0;
    for (auto& cb : combos) {
        const int ec = cb.first, ex = cb.second;
        const int e = en == E_XAUTO ? 2 * ec : ec + ex;
        if (e < -850 || e > 800) continue;   // result (or its rounding residues) would under- / overflow: out of domain
        const SOut ys = call_entry(en, cplx, en == E_MA ? c : scaled(c, ec), en == E_XAUTO ? x : scaled(x, ex), n1);
        const P det = P().kv("ec", ec).kv("ex", ex);
        if (!ys.err.empty()) {
            ctx.fail(site, fmt("operands scaled by 2^%d, 2^%d: exception: %s", ec, ex, ys.err.c_str()), "no exception", P(det).kv("what", "throw"));
            continue;
        }
        if ((long)ys.re.size() != (long)y1.re.size()) {
            ctx.fail(site, fmt("operands scaled by 2^%d, 2^%d: output length %zu", ec, ex, ys.re.size()), fmt("%zu as at unit scale", y1.re.size()),
                     P(det).kv("what", "size"));
            continue;
        }
        // (a) a-priori bound on the output scaled back exactly
        Cmp r = compare(n, [&](long i) { return (double)ldexpl((ld)ys.re[(size_t)i], -e); }, [&](long i) { return (double)ldexpl((ld)ys.im[(size_t)i], -e); }, ref,
                        [&](long i) { return tol[(size_t)i]; });
        ++napr;
        worst = std::max(worst, r.worst_ratio);
        if (r.bad >= 0) {
            ctx.fail(site,
                     r.nonfinite ? fmt("operands scaled by 2^%d, 2^%d: non-finite output at %ld", ec, ex, r.bad)
                                 : fmt("%s letter, operands scaled by 2^%d, 2^%d: |y[%ld]*2^%d - sum| = %.3g (unit-scale sum)", letter.c_str(), ec, ex, r.bad, -e,
                                       r.err_at),
                     fmt("<= %.3g (rounding accuracy, relative to |c| |x|)", r.tol_at), P(det).kv("i", r.bad).kv("what", "value"));
            continue;
        }
        // (b) bit-exact scaling
        if (e >= -700 && e <= 700 && !(ec == 0 && ex == 0)) {
            ++nbit;
            long bi = -1;
            for (long i = 0; i < n && bi < 0; ++i)
                if (!biteq(ys.re[(size_t)i], std::ldexp(y1.re[(size_t)i], e)) || !biteq(ys.im[(size_t)i], std::ldexp(y1.im[(size_t)i], e))) bi = i;
            if (bi >= 0)
                ctx.fail(site,
                         fmt("%s letter, operands scaled by 2^%d, 2^%d: y[%ld] = %.17g is not the unit-scale output %.17g times 2^%d", letter.c_str(), ec, ex, bi,
                             ys.re[(size_t)bi], y1.re[(size_t)bi], e),
                         "bit-identical scaling (power-of-two scaling commutes with every rounding of a threshold-free computation)",
                         P(det).kv("i", bi).kv("what", "bitscale"));
        }
    }
    ctx.worst(fmt("scale: err/tol %s", ENAME[en]), worst);
    ctx.note(fmt("scale: a-priori comparisons %s", ENAME[en]), napr);
    ctx.note(fmt("scale: bit-exact comparisons %s", ENAME[en]), nbit);
    ctx.nontrivial();
}

// ------------------------------------------------------------------------------------------------ FirFilter retuned through coeffs()
// The non-const coeffs() accessor is the public way to change the taps of a live filter ("for every coefficient vector"
// covers vectors installed that way).  (a) h1 installed before any processing, (b) installed mid-stream after frames were
// processed with h0, (c) h0 installed back: every output must equal the defining sum of the taps in force over the TRUE
// input history (the delay line holds past input samples, which is what the unchanged tree does).
static Sig retune_letter(const std::string& name, int nh, bool cplx) {
    if (name == "zeros") {
        Sig z;
        z.resize((size_t)nh);
        return z;
    }
    if (name == "tap0") return coef_letter("imp", 0, nh, cplx);
    if (name == "tapL") return coef_letter("imp", nh - 1, nh, cplx);
    if (name == "sparse") return coef_letter("sparse", 0, nh, cplx);
    Sig d = coef_letter("dense", 0, nh, cplx);
    if (name == "lead0")
        for (int k = 0; k < (nh + 1) / 2; ++k) d.re[(size_t)k] = 0, d.im[(size_t)k] = 0;
    if (name == "trail0")
        for (int k = nh / 2; k < nh; ++k) d.re[(size_t)k] = 0, d.im[(size_t)k] = 0;
    if (name == "dense*2^-60") d = scaled(d, -60);
    if (name == "dense*2^200") d = scaled(d, 200);
    return d;
}

template<class F, class A>
static void install(F& f, const A& h, int mode) {
    if (mode == 0) {
        f.coeffs() = h;   // whole-array assignment (same length)
    } else {
        for (int k = 0; k < h.size(); ++k) f.coeffs()[k] = h[k];   // element-wise writes
    }
}

static void retune_case(Ctx& ctx, bool cplx, int nh, const std::string& n0, const std::string& n1, int mode) {
    const char* site = cplx ? "FirFilterC::coeffs/process" : "FirFilterR::coeffs/process";
    const Sig h0 = retune_letter(n0, nh, cplx), h1 = retune_letter(n1, nh, cplx);
    const std::vector<int> pre = {nh + 2, 3}, post = {1, nh + 4, 0, 7}, back = {nh + 1, 2};
    int total = 0;
    for (int v : pre) total += v;
    for (int v : post) total += v;
    for (int v : back) total += v;
    const char* streams[] = {"lcg", "imp"};
    double worst = 0;
    for (const char* sk : streams) {
        const Sig x = in_letter(sk, 0, total, cplx);
        Sig r0, r1;
        std::vector<double> S0, S1;
        fir_ref(h0, x, cplx, r0, S0);
        fir_ref(h1, x, cplx, r1, S1);
        const double c0 = (double)h0.norm2(), c1 = (double)h1.norm2();
        const arr_real xr = to_real(x), h0r = to_real(h0), h1r = to_real(h1);
        const arr_cmplx xc = to_cmplx(x), h0c = to_cmplx(h0), h1c = to_cmplx(h1);
        for (int variant = 0; variant < 2; ++variant) {   // 0: h1 installed before any processing, 1: mid-stream (and back)
            try {
                dsplib::FirFilterR fr(h0r);
                dsplib::FirFilterC fc(h0c);
                long fed = 0;
                bool stop = false;
                // feeds the frames and compares with the sums of the taps in force (which: 0 = h0, 1 = h1)
                auto feed = [&](const std::vector<int>& frames, int which, const char* phase) {
                    const Sig& ref = which ? r1 : r0;
                    const std::vector<double>& S = which ? S1 : S0;
                    const double cn = which ? c1 : c0;
                    for (size_t ci = 0; ci < frames.size() && !stop; ++ci) {
                        const int n = frames[ci];
                        std::vector<double> ore((size_t)n, 0.0), oim((size_t)n, 0.0);
                        long got;
                        if (!cplx) {
                            arr_real in(n);
                            for (int i = 0; i < n; ++i) in[i] = xr[(int)fed + i];
                            arr_real out = fr.process(in);
                            got = out.size();
                            for (int i = 0; i < std::min<long>(got, n); ++i) ore[(size_t)i] = out[i];
                        } else {
                            arr_cmplx in(n);
                            for (int i = 0; i < n; ++i) in[i] = xc[(int)fed + i];
                            arr_cmplx out = fc.process(in);
                            got = out.size();
                            for (int i = 0; i < std::min<long>(got, n); ++i) ore[(size_t)i] = out[i].re, oim[(size_t)i] = out[i].im;
                        }
                        const P det = P().kv("in", sk).kv("variant", variant).kv("phase", phase).kv("frame", (long)ci);
                        if (got != n) {
                            ctx.fail(site, fmt("%s: frame of %d samples returned %ld", phase, n, got), fmt("%d", n), P(det).kv("what", "size"));
                            stop = true;
                            break;
                        }
                        Sig rr;
                        rr.resize((size_t)n);
                        double xn2 = 0;
                        for (long i = 0; i < fed + n; ++i) xn2 += (double)(x.re[(size_t)i] * x.re[(size_t)i] + x.im[(size_t)i] * x.im[(size_t)i]);
                        for (int i = 0; i < n; ++i) rr.re[(size_t)i] = ref.re[(size_t)(fed + i)], rr.im[(size_t)i] = ref.im[(size_t)(fed + i)];
                        const double g = 8.0 * EPS * cn * std::sqrt(xn2);
                        Cmp q = compare(n, [&](long i) { return ore[(size_t)i]; }, [&](long i) { return oim[(size_t)i]; }, rr,
                                        [&](long i) { return std::max(g, (nh + 8.0) * EPS * S[(size_t)(fed + i)]); });
                        if (q.worst_ratio < 1e299) worst = std::max(worst, q.worst_ratio);
                        if (q.bad >= 0) {
                            ctx.fail(site,
                                     q.nonfinite ? fmt("%s: non-finite output", phase)
                                                 : fmt("taps %s -> %s (%s), %s, frame %zu: |y[%ld] - sum with the installed taps| = %.3g (stream index %ld)", n0.c_str(),
                                                       n1.c_str(), mode ? "element-wise" : "assignment", phase, ci, q.bad, q.err_at, fed + q.bad),
                                     fmt("<= %.3g (rounding accuracy)", q.tol_at), P(det).kv("i", q.bad).kv("what", "value"));
                            stop = true;
                        }
                        fed += n;
                    }
                };
                if (variant == 0) {
                    if (cplx) install(fc, h1c, mode);
                    else install(fr, h1r, mode);
                    feed(pre, 1, "h1 installed at rest");
                    feed(post, 1, "h1 installed at rest, later frames");
                } else {
                    feed(pre, 0, "before the switch");
                    if (cplx) install(fc, h1c, mode);
                    else install(fr, h1r, mode);
                    feed(post, 1, "after the mid-stream switch to h1");
                    if (cplx) install(fc, h0c, mode);
                    else install(fr, h0r, mode);
                    feed(back, 0, "after switching back to h0");
                }
                // the accessor must report what was installed
                const bool okc = cplx ? bitsame(static_cast<const dsplib::FirFilterC&>(fc).coeffs(), variant ? h0c : h1c)
                                      : bitsame(static_cast<const dsplib::FirFilterR&>(fr).coeffs(), variant ? h0r : h1r);
                if (!okc) ctx.fail(site, "coeffs() const does not return the installed taps", "the installed taps", P().kv("in", sk).kv("variant", variant).kv("what", "readback"));
            } catch (const std::exception& e) {
                ctx.fail(site, fmt("taps %s -> %s: exception: %s", n0.c_str(), n1.c_str(), e.what()), "no exception",
                         P().kv("in", sk).kv("variant", variant).kv("what", "throw"));
            }
        }
    }
    ctx.worst("retune err/tol", worst);
    ctx.nontrivial();
}

// ------------------------------------------------------------------------------------------------ main
int main(int argc, char** argv) {
    Ctx ctx;
    ctx.parse(argc, argv, "C07");
    const bool T = ctx.thorough();

    // ---- FirFilter / FftFilter
    if (ctx.wants("fir")) {
        std::vector<int> nhs;
        const int NHX = T ? 128 : 64;     // every nh up to NHX with every unit-impulse coefficient vector
        const int SWEEP = T ? 32 : 16;    // every input length 0..3*block+2 and every impulse position up to this nh
        for (int nh = 1; nh <= NHX; ++nh) nhs.push_back(nh);   // nh = 1: a one-tap filter is a gain
        if (T) {
            for (int nh : {129, 255, 256, 257, 512, 1024, 2048}) nhs.push_back(nh);
        } else {
            for (int nh : {100, 127, 128, 129, 255, 256, 257, 512, 1024}) nhs.push_back(nh);
        }
        const int BIG = T ? 100000 : 20000;
        // two passes: the long input is enumerated separately so that the heavy cases are consecutive case ordinals
        // (and therefore spread evenly over the shards)
        for (int pass = 0; pass < 2; ++pass) {
            for (int cplx = 0; cplx < 2; ++cplx) {
                for (int nh : nhs) {
                    const int fftlen = 1 << ilog2(2L * nh);
                    const int block = fftlen - nh + 1;
                    std::vector<int> lens;
                    if (pass == 1) {
                        if (nh > SWEEP) lens = {BIG};
                    } else if (nh <= SWEEP) {
                        for (int l = 0; l <= 3 * block + 2; ++l) lens.push_back(l);
                    } else {
                        lens = {0, 1, block - 1, block, block + 1, 2 * block, 3 * block + 1};
                    }
                    std::vector<std::pair<std::string, int>> cl;
                    if (nh <= NHX) {
                        for (int j = 0; j < nh; ++j) cl.push_back({"imp", j});
                    } else {
                        cl.push_back({"imp", 0});
                        cl.push_back({"imp", nh - 1});
                    }
                    cl.push_back({"sym", 0});
                    cl.push_back({"sparse", 0});
                    cl.push_back({"dense", 0});
                    for (auto& c : cl) {
                        for (int len : lens) {
                            // quick tier: the long input only with the end taps and the dense letters
                            if (!T && len == BIG && c.first == "imp" && c.second != 0 && c.second != nh - 1) continue;
                            // thorough tier: the long input with every delta_j up to nh = 96, above that with 5 positions of j
                            if (T && len == BIG && nh > 96 && c.first == "imp" && c.second > 1 && c.second < nh - 2 && c.second != nh / 2) continue;
                            if (!ctx.take("fir", P().kv("cplx", cplx).kv("nh", nh).kv("c", c.first).kv("j", c.second).kv("len", len))) continue;
                            fir_case(ctx, cplx != 0, nh, c.first, c.second, len, block, fftlen, SWEEP);
                        }
                    }
                }
            }
        }
    }

    // ---- big sizes (both tiers): one frame of 70000 samples, coefficient vectors of 4097 and 5000 taps
    for (int cplx = 0; cplx < 2; ++cplx)
        for (int nh : {33, 4097, 5000}) {
            if (!ctx.take("fir.big", P().kv("cplx", cplx).kv("nh", nh).kv("c", "dense").kv("len", 70000))) continue;
            const int fftlen = 1 << ilog2(2L * nh);
            fir_case(ctx, cplx != 0, nh, "dense", 0, 70000, fftlen - nh + 1, fftlen, 16, true);
        }
    for (int cplx = 0; cplx < 2; ++cplx) {
        const int cv[][2] = {{70000, 9}, {9999, 5000}, {4097, 4097}};
        for (auto& b : cv) {
            if (!ctx.take("conv.big", P().kv("cplx", cplx).kv("nx", b[0]).kv("nh", b[1]))) continue;
            conv_case(ctx, cplx != 0, b[0], b[1]);
        }
    }

    // ---- direct form with large dynamic range inside one long call (per-sample bound)
    for (int cplx = 0; cplx < 2; ++cplx)
        for (int nh : {256, 257, 512})
            for (int len : {16 * nh, 18 * nh + 5, 20 * nh})
                for (const char* lt : {"spike1e8", "spike1e12", "burst100"})
                    for (int pos : {nh / 2, 5 * nh + 3, len - 2 * nh}) {
                        if (!ctx.take("fir.burst", P().kv("cplx", cplx).kv("nh", nh).kv("len", len).kv("in", lt).kv("pos", pos))) continue;
                        burst_case(ctx, cplx != 0, nh, len, lt, pos);
                    }

    // ---- the same with all-equal taps (boxcar / moving-average coefficient vectors, 8..512 taps)
    for (int cplx = 0; cplx < 2; ++cplx)
        for (int nh : {8, 9, 16, 64, 257, 512})
            for (const char* lt : {"spike1e8", "spike1e12", "burst100"})
                for (int pos : {nh / 2, 5 * nh + 3}) {
                    const int len = 18 * nh + 5;
                    if (!ctx.take("fir.burst", P().kv("cplx", cplx).kv("nh", nh).kv("len", len).kv("in", lt).kv("pos", pos).kv("taps", "equal"))) continue;
                    burst_case(ctx, cplx != 0, nh, len, lt, pos, true);
                }

    // ---- FirFilter fed in several calls with changing frame lengths
    {
        std::vector<int> nhs = {1, 2, 3, 4, 5, 8, 16, 17, 31, 32, 33, 64, 100, 257};
        if (T) nhs = {1, 2, 3, 4, 5, 6, 7, 8, 9, 15, 16, 17, 24, 31, 32, 33, 48, 63, 64, 65, 100, 128, 257};
        for (int nh : nhs)
            for (int cplx = 0; cplx < 2; ++cplx) {
                if (!ctx.take("firfilter.seq", P().kv("cplx", cplx).kv("nh", nh).kv("calls", T ? 4 : 3))) continue;
                firseq_case(ctx, cplx != 0, nh, T ? 4 : 3);
            }
    }

    // ---- FftFilter fed in several calls (pending samples, aligned and unaligned frames)
    {
        std::vector<int> nhs;
        for (int nh = 1; nh <= (T ? 128 : 64); ++nh) nhs.push_back(nh);
        if (T) {
            for (int nh : {129, 255, 256, 257, 512, 1024, 2048}) nhs.push_back(nh);
        } else {
            for (int nh : {100, 127, 128, 129, 255, 256, 257, 512, 1024}) nhs.push_back(nh);
        }
        for (int nh : nhs)
            for (int cplx = 0; cplx < 2; ++cplx) {
                if (!ctx.take("fftfilter.seq", P().kv("cplx", cplx).kv("nh", nh).kv("lens", T ? 9 : 6))) continue;
                const int fftlen = 1 << ilog2(2L * nh);
                fftseq_case(ctx, cplx != 0, nh, fftlen - nh + 1, fftlen, T);
            }
    }

    // ---- xcorr: all length pairs with all impulse pairs + dense letters
    {
        const int N = T ? 96 : 16;
        for (int n1 = 1; n1 <= N; ++n1)
            for (int n2 = 1; n2 <= N; ++n2) {
                if (!ctx.take("xcorr.pairs", P().kv("n1", n1).kv("n2", n2))) continue;
                xcorr_pair_case(ctx, n1, n2);
            }
        const int big[][2] = {{5000, 1}, {1, 5000}, {4097, 4096}, {2500, 2500}, {64, 65}, {1000, 25}, {25, 1000},
                              {70000, 9}, {9, 70000}, {5000, 5000}, {65536, 2}, {65537, 1}};
        for (auto& b : big) {
            if (!ctx.take("xcorr.dense", P().kv("n1", b[0]).kv("n2", b[1]))) continue;
            xcorr_dense_case(ctx, b[0], b[1], true);
        }
        std::vector<int> an;
        for (int n = 1; n <= N; ++n) an.push_back(n);
        for (int n : {64, 65, 1000, 2500, 4097, 5000}) an.push_back(n);
        for (int n : an) {
            if (!ctx.take("xcorr.auto", P().kv("n", n))) continue;
            xcorr_auto_case(ctx, n);
        }
    }

    // ---- MAFilter(n) against the FIR with n taps 1/n
    {
        std::vector<int> ns;
        for (int n = 1; n <= (T ? 128 : 64); ++n) ns.push_back(n);
        if (!T) ns.push_back(100);
        ns.push_back(1000);
        const int SW = T ? 32 : 16;
        for (int n : ns) {
            std::vector<int> lens;
            if (n <= SW) {
                for (int l = 0; l <= 3 * n + 2; ++l) lens.push_back(l);
            } else {
                lens = {0, 1, n - 1, n, n + 1, 2 * n, 3 * n + 1, 5 * n + 3};
            }
            for (int len : lens) {
                if (!ctx.take("mafilter", P().kv("n", n).kv("len", len))) continue;
                ma_case(ctx, n, len);
            }
        }
        // big sizes (both tiers): 70000 samples through one filter object
        for (int n : {7, 100, 1000, 4097}) {
            if (!ctx.take("mafilter.big", P().kv("n", n).kv("len", 70000))) continue;
            ma_case(ctx, n, 70000, true);
        }
    }
    // ---- FirFilter retuned through the non-const coeffs() accessor (FftFilter has no setter)
    {
        const char* pairs[][2] = {{"zeros", "dense"},  {"dense", "zeros"}, {"lead0", "dense"}, {"trail0", "dense"},      {"dense", "sparse"},
                                  {"sparse", "dense"}, {"tap0", "tapL"},   {"tapL", "tap0"},   {"dense", "dense*2^-60"}, {"dense*2^200", "dense"},
                                  {"dense", "lead0"},  {"dense", "trail0"}};
        for (int cplx = 0; cplx < 2; ++cplx)
            for (int nh : {1, 2, 3, 5, 8, 16, 33})
                for (auto& pr : pairs)
                    for (int mode = 0; mode < 2; ++mode) {
                        if (!ctx.take("firfilter.retune", P().kv("cplx", cplx).kv("nh", nh).kv("h0", pr[0]).kv("h1", pr[1]).kv("mode", mode ? "elem" : "assign"))) continue;
                        retune_case(ctx, cplx != 0, nh, pr[0], pr[1], mode);
                    }
    }

    // ---- scale invariance of every linear entry point
    {
        const char* letters[] = {"dense", "sparse", "nearsym", "tap0", "tapL"};
        std::vector<int> nhs = {1, 2, 3, 8, 17, 64, 129};
        if (T) nhs = {1, 2, 3, 4, 5, 7, 8, 16, 17, 31, 33, 64, 100, 129, 257};
        for (int en = E_FIR; en <= E_FFT; ++en)
            for (int cplx = 0; cplx < 2; ++cplx)
                for (int nh : nhs)
                    for (const char* lt : letters) {
                        const int block = (1 << ilog2(2L * nh)) - nh + 1, len = 3 * block + 1;
                        if (!ctx.take("scale", P().kv("entry", ENAME[en]).kv("cplx", cplx).kv("letter", lt).kv("n1", nh).kv("n2", len))) continue;
                        scale_case(ctx, (Entry)en, cplx != 0, lt, nh, len);
                    }
        std::vector<std::array<int, 2>> xs = {{5, 3}, {16, 16}, {33, 20}, {100, 129}, {300, 7}};
        if (T) xs = {{1, 1}, {2, 1}, {1, 2}, {5, 3}, {3, 5}, {16, 16}, {17, 16}, {33, 20}, {20, 33}, {64, 65}, {100, 129}, {300, 7}, {7, 300}, {1000, 1000}};
        for (int cplx = 0; cplx < 2; ++cplx)
            for (auto& a : xs)
                for (const char* lt : letters) {
                    if (!ctx.take("scale", P().kv("entry", ENAME[E_XCORR]).kv("cplx", cplx).kv("letter", lt).kv("n1", a[0]).kv("n2", a[1]))) continue;
                    scale_case(ctx, E_XCORR, cplx != 0, lt, a[0], a[1]);
                }
        std::vector<int> as = {5, 16, 33, 129, 300};
        if (T) as = {1, 2, 3, 5, 16, 17, 33, 64, 65, 129, 300, 1000};
        for (int cplx = 0; cplx < 2; ++cplx)
            for (int n : as)
                for (const char* lt : letters) {
                    if (!ctx.take("scale", P().kv("entry", ENAME[E_XAUTO]).kv("cplx", cplx).kv("letter", lt).kv("n1", n).kv("n2", 0))) continue;
                    scale_case(ctx, E_XAUTO, cplx != 0, lt, n, 0);
                }
        std::vector<int> ms = {1, 2, 7, 16, 64, 129};
        if (T) ms = {1, 2, 3, 4, 7, 8, 16, 17, 33, 64, 100, 129, 1000};
        for (int cplx = 0; cplx < 2; ++cplx)
            for (int n : ms)
                for (const char* lt : letters) {
                    if (!ctx.take("scale", P().kv("entry", ENAME[E_MA]).kv("cplx", cplx).kv("letter", lt).kv("n1", n).kv("n2", 3 * n + 5))) continue;
                    scale_case(ctx, E_MA, cplx != 0, lt, n, 3 * n + 5);
                }
    }
    return ctx.finish();
}
