// C06 - streaming processors are invariant to how the stream is framed; instances are isolated.
// Engine E2 (history exploration on real objects): for every processor configuration and data letter
//   mode "comp":  ALL 2^(k-1) compositions of a k-granule stream, each replayed on a fresh object;
//   mode "pair":  longer stream (K2 granules): every (prefix p consumed granule-by-granule, next frame of f granules),
//                 remainder as one frame and granule-by-granule;
//   mode "iso":   2 (and 3) separately constructed instances driven in EVERY interleaving of 3 frames each, against solo runs.
// Oracle: concatenated output has the same length as the one-call output and |delta| <= 1e-9 * max|y| (the property does not promise
// bit-identity).  Private state after each prefix is hashed (-fno-access-control) to count canonical states: with the property true
// there are k+1 of them per (configuration, letter); the count is evidence only, never an alarm.
#include "vf.hpp"
#include <thread>
#include <set>
#include "ma-filter.h"
#include <memory>
#include <numeric>

using namespace vf;
using namespace dsplib;

// ------------------------------------------------------------------ hashing helpers
static uint64_t hb(const void* p, size_t n, uint64_t h) {
    const unsigned char* b = (const unsigned char*)p;
    for (size_t i = 0; i < n; ++i) {
        h ^= b[i];
        h *= 1099511628211ULL;
    }
    return h;
}
static uint64_t HS(const arr_real& a, uint64_t h = 7) { return hb(a.data(), (size_t)a.size() * 8, mix(h, (uint64_t)a.size())); }
static uint64_t HS(const arr_cmplx& a, uint64_t h = 7) { return hb(a.data(), (size_t)a.size() * 16, mix(h, (uint64_t)a.size())); }
static uint64_t HS(double v, uint64_t h = 7) { return hb(&v, 8, h); }
static uint64_t HS(cmplx_t v, uint64_t h = 7) { return hb(&v, 16, h); }

// ------------------------------------------------------------------ processor adapters
// a stream is a sequence of "units" of `width` doubles (1 = real sample, 2 = complex sample or real (x,d) pair, 4 = complex (x,d))
struct Proc {
    virtual ~Proc() {}
    virtual void run(const double* in, int units, std::vector<double>& out, std::vector<double>& out2) = 0;
    virtual uint64_t state() { return 0; }
    // a call that the processor must reject for a reason other than the frame length (-1: none defined, 1: threw, 0: accepted)
    virtual int misuse() { return -1; }
    // copy semantics (mode copy): a copy-constructed / copy-assigned processor; nullptr / false if the class is not copyable
    virtual std::unique_ptr<Proc> clone() { return nullptr; }
    virtual bool assign_from(Proc&) { return false; }
    virtual std::unique_ptr<Proc> move_clone() { return nullptr; }   // move-constructed from this object (which is then only destroyed)
};
#define VF_COPY_OPS(Self, ObjT)                                                                      \
    std::unique_ptr<Proc> clone() override {                                                          \
        if constexpr (std::is_copy_constructible_v<ObjT>) return std::unique_ptr<Proc>(new Self(*this)); \
        else return nullptr;                                                                          \
    }                                                                                                 \
    std::unique_ptr<Proc> move_clone() override {                                                     \
        if constexpr (std::is_move_constructible_v<ObjT>) return std::unique_ptr<Proc>(new Self(std::move(*this))); \
        else return nullptr;                                                                          \
    }                                                                                                 \
    bool assign_from(Proc& src) override {                                                            \
        if constexpr (std::is_copy_assignable_v<ObjT>) {                                              \
            o = static_cast<Self&>(src).o;                                                            \
            return true;                                                                              \
        } else {                                                                                      \
            (void)src;                                                                                \
            return false;                                                                             \
        }                                                                                             \
    }

static arr_real mkreal(const double* in, int n, int stride = 1, int off = 0) {
    arr_real x(n);
    for (int i = 0; i < n; ++i) x[i] = in[(size_t)i * stride + off];
    return x;
}
static arr_cmplx mkcmplx(const double* in, int n, int stride = 2, int off = 0) {
    arr_cmplx x(n);
    for (int i = 0; i < n; ++i) x[i] = cmplx_t(in[(size_t)i * stride + off], in[(size_t)i * stride + off + 1]);
    return x;
}
static void put(std::vector<double>& o, const arr_real& y) { o.insert(o.end(), y.begin(), y.end()); }
static void put(std::vector<double>& o, const arr_cmplx& y) {
    for (int i = 0; i < y.size(); ++i) {
        o.push_back(y[i].re);
        o.push_back(y[i].im);
    }
}

template<class Obj, class StateFn>
struct RR : Proc {   // real in, real/complex out via process()
    Obj o;
    StateFn sf;
    RR(Obj ob, StateFn s) : o(std::move(ob)), sf(s) {}
    void run(const double* in, int n, std::vector<double>& out, std::vector<double>&) override { put(out, o.process(mkreal(in, n))); }
    uint64_t state() override { return sf(o); }
    VF_COPY_OPS(RR, Obj)
};
template<class Obj, class StateFn>
struct CC : Proc {   // complex in
    Obj o;
    StateFn sf;
    CC(Obj ob, StateFn s) : o(std::move(ob)), sf(s) {}
    void run(const double* in, int n, std::vector<double>& out, std::vector<double>&) override { put(out, o.process(mkcmplx(in, n))); }
    uint64_t state() override { return sf(o); }
    VF_COPY_OPS(CC, Obj)
};
template<class Obj, class StateFn>
struct RG : Proc {   // real in, result struct {out, gain}
    Obj o;
    StateFn sf;
    RG(Obj ob, StateFn s) : o(std::move(ob)), sf(s) {}
    void run(const double* in, int n, std::vector<double>& out, std::vector<double>& out2) override {
        auto r = o.process(mkreal(in, n));
        put(out, r.out);
        put(out2, r.gain);
    }
    uint64_t state() override { return sf(o); }
    VF_COPY_OPS(RG, Obj)
};
template<class Obj, class StateFn>
struct CG : Proc {   // complex in, result struct {out, gain}
    Obj o;
    StateFn sf;
    CG(Obj ob, StateFn s) : o(std::move(ob)), sf(s) {}
    void run(const double* in, int n, std::vector<double>& out, std::vector<double>& out2) override {
        auto r = o.process(mkcmplx(in, n));
        put(out, r.out);
        put(out2, r.gain);
    }
    uint64_t state() override { return sf(o); }
    VF_COPY_OPS(CG, Obj)
};
template<class Obj, class StateFn>
struct AR : Proc {   // adaptive, real (x,d) pairs -> {y,e}
    Obj o;
    StateFn sf;
    AR(Obj ob, StateFn s) : o(std::move(ob)), sf(s) {}
    void run(const double* in, int n, std::vector<double>& out, std::vector<double>& out2) override {
        auto r = o.process(mkreal(in, n, 2, 0), mkreal(in, n, 2, 1));
        put(out, r.y);
        put(out2, r.e);
    }
    uint64_t state() override { return sf(o); }
    VF_COPY_OPS(AR, Obj)
    int misuse() override {   // x and d of different length
        try {
            o.process(arr_real{0.5, -0.25, 4.0}, arr_real{1.0, 2.0});
        } catch (const std::exception&) {
            return 1;
        }
        return 0;
    }
};
template<class Obj, class StateFn>
struct AC : Proc {   // adaptive, complex (x,d)
    Obj o;
    StateFn sf;
    AC(Obj ob, StateFn s) : o(std::move(ob)), sf(s) {}
    void run(const double* in, int n, std::vector<double>& out, std::vector<double>& out2) override {
        auto r = o.process(mkcmplx(in, n, 4, 0), mkcmplx(in, n, 4, 2));
        put(out, r.y);
        put(out2, r.e);
    }
    uint64_t state() override { return sf(o); }
    VF_COPY_OPS(AC, Obj)
    int misuse() override {
        try {
            o.process(arr_cmplx{cmplx_t(0.5, 1), cmplx_t(-3, 0.25)}, arr_cmplx{cmplx_t(1, 1)});
        } catch (const std::exception&) {
            return 1;
        }
        return 0;
    }
};
// MAFilter is an internal class (lib/ma-filter.h) with process(array)
template<class T>
struct MAP : Proc {
    MAFilter<T> o;
    explicit MAP(int n) : o(n) {}
    void run(const double* in, int n, std::vector<double>& out, std::vector<double>&) override {
        if constexpr (std::is_same_v<T, real_t>) put(out, o.process(mkreal(in, n)));
        else put(out, o.process(mkcmplx(in, n)));
    }
    uint64_t state() override { auto& oo = o; return VF_TRY(oo, (uint64_t)HS(o._accum, mix(HS(o._buf), (uint64_t)o._pos)), (uint64_t)0); }
    VF_COPY_OPS(MAP, MAFilter<T>)
};

// one FftFilter fed through BOTH overloads: frames of odd length go through process(arr_cmplx) (real part kept), even ones through
// process(arr_real); the two overloads share one object, so its state must be one state
struct FFMix : Proc {
    FftFilter o;
    explicit FFMix(FftFilter f) : o(std::move(f)) {}
    void run(const double* in, int n, std::vector<double>& out, std::vector<double>&) override {
        if (n % 2 == 1) {
            arr_cmplx x(n);
            for (int i = 0; i < n; ++i) x[i] = cmplx_t(in[i], 0);
            arr_cmplx y = o.process(x);
            for (int i = 0; i < y.size(); ++i) out.push_back(y[i].re);
        } else {
            put(out, o.process(mkreal(in, n)));
        }
    }
    uint64_t state() override { auto& oo = o; return VF_TRY(oo, (uint64_t)(mix(HS(o._x), mix(HS(o._olap), (uint64_t)o._nx))), (uint64_t)0); }
    VF_COPY_OPS(FFMix, FftFilter)
};

struct Config {
    std::string name;
    int width;     // doubles per unit
    int granule;   // units per granule
    std::function<std::unique_ptr<Proc>()> make;
    bool heavy = false;   // skip in the quadratic modes of the quick tier
    bool strict = false;  // the processor documents that frame lengths must be a multiple of the granule (decimating converters)
};

template<template<class, class> class A, class Obj, class SF>
static std::function<std::unique_ptr<Proc>()> mk(std::function<Obj()> ctor, SF sf) {
    return [ctor, sf]() -> std::unique_ptr<Proc> { return std::unique_ptr<Proc>(new A<Obj, SF>(ctor(), sf)); };
}

static arr_real lcg_arr(int n, uint64_t tag) {
    arr_real x(n);
    for (int i = 0; i < n; ++i) x[i] = lcg_val(tag, (uint64_t)i);
    return x;
}
static arr_cmplx lcg_carr(int n, uint64_t tag) {
    arr_cmplx x(n);
    for (int i = 0; i < n; ++i) x[i] = cmplx_t(lcg_val(tag, (uint64_t)i), lcg_val(tag + 1, (uint64_t)i));
    return x;
}
static arr_real sym_h(int n, uint64_t tag) {   // symmetric coefficient letter
    arr_real h(n);
    for (int i = 0; i < (n + 1) / 2; ++i) h[i] = h[n - 1 - i] = 0.1 + std::abs(lcg_val(tag, (uint64_t)i));
    return h;
}

static std::vector<Config> make_configs(bool T) {
    std::vector<Config> C;
    auto add = [&](const std::string& nm, int width, int gran, std::function<std::unique_ptr<Proc>()> f, bool heavy = false) {
        Config c{nm, width, gran, f, heavy, false};
        c.strict = gran > 1 && (nm.rfind("FIRDecimator", 0) == 0 || nm.rfind("FIRRateConverter", 0) == 0 || nm.rfind("FIRResampler", 0) == 0);
        C.push_back(c);
    };
    // ---- direct FIR
    for (int nh : {2, 3, 4, 5, 7, 8, 16, 17, 31, 32, 33, 64, 100, 300}) {
        add(fmt("FirFilterR(%d)", nh), 1, 1,
            mk<RR, FirFilterR>([nh] { return FirFilterR(lcg_arr(nh, 1000 + (uint64_t)nh)); }, [](FirFilterR& f) { return VF_TRY(f, (uint64_t)(HS(o._d)), (uint64_t)0); }), nh > 64);
        add(fmt("FirFilterC(%d)", nh), 2, 1,
            mk<CC, FirFilterC>([nh] { return FirFilterC(lcg_carr(nh, 2000 + (uint64_t)nh)); }, [](FirFilterC& f) { return VF_TRY(f, (uint64_t)(HS(o._d)), (uint64_t)0); }), nh > 64);
    }
    // ---- FFT FIR: granules chosen so that k granules cross several block boundaries
    for (int nh : {1, 2, 3, 31, 32, 33, 100, 129}) {
        int block = (1 << nextpow2(2 * nh)) - nh + 1;
        for (int g : {1, 7, block / 2 + 1}) {
            auto sf = [](FftFilter& f) { return VF_TRY(f, (uint64_t)(mix(HS(o._x), mix(HS(o._olap), (uint64_t)o._nx))), (uint64_t)0); };
            add(fmt("FftFilter(real h%d,g%d)", nh, g), 1, g, mk<RR, FftFilter>([nh] { return FftFilter(lcg_arr(nh, 3000 + (uint64_t)nh)); }, sf), nh > 33);
            if (g == 1) add(fmt("FftFilter(real h%d, both overloads)", nh), 1, 1, [nh]() -> std::unique_ptr<Proc> { return std::unique_ptr<Proc>(new FFMix(FftFilter(lcg_arr(nh, 3000 + (uint64_t)nh)))); }, nh > 33);
            add(fmt("FftFilter(cmplx h%d,g%d)", nh, g), 2, g, mk<CC, FftFilter>([nh] { return FftFilter(lcg_carr(nh, 3500 + (uint64_t)nh)); }, sf), nh > 33);
        }
    }
    // ---- multirate
    auto sfd = [](FIRDecimator& f) { return VF_TRY(f, (uint64_t)(HS(o.d_)), (uint64_t)0); };
    auto sfi = [](FIRInterpolator& f) { return VF_TRY(f, (uint64_t)(HS(o.d_)), (uint64_t)0); };
    auto sfr = [](FIRRateConverter& f) { return VF_TRY(f, (uint64_t)(HS(o.d_)), (uint64_t)0); };
    for (int M = 1; M <= 12; ++M) {
        add(fmt("FIRDecimator(%d)", M), 1, M, mk<RR, FIRDecimator>([M] { return FIRDecimator(M); }, sfd));
        add(fmt("FIRDecimator(%d,h)", M), 1, M, mk<RR, FIRDecimator>([M] { return FIRDecimator(M, sym_h(4 * M + 1, 41)); }, sfd));
        add(fmt("FIRInterpolator(%d)", M), 1, 1, mk<RR, FIRInterpolator>([M] { return FIRInterpolator(M); }, sfi));
        add(fmt("FIRInterpolator(%d,h)", M), 1, 1, mk<RR, FIRInterpolator>([M] { return FIRInterpolator(M, sym_h(4 * M + 1, 42)); }, sfi));
    }
    std::vector<std::pair<int, int>> LM;
    for (int L = 1; L <= 12; ++L)
        for (int M = 1; M <= 12; ++M)
            if (std::gcd(L, M) == 1 && L != 1 && M != 1) LM.push_back({L, M});
    LM.push_back({160, 441});
    LM.push_back({441, 160});
    LM.push_back({147, 160});
    for (auto [L, M] : LM) {
        bool big = L > 12 || M > 12;
        add(fmt("FIRRateConverter(%d,%d)", L, M), 1, M, mk<RR, FIRRateConverter>([L = L, M = M] { return FIRRateConverter(L, M); }, sfr), big);
        if (!big)
            add(fmt("FIRRateConverter(%d,%d,h)", L, M), 1, M,
                mk<RR, FIRRateConverter>([L = L, M = M] { return FIRRateConverter(L, M, sym_h(4 * std::max(L, M) + 1, 43)); }, sfr));
    }
    auto sfw = [](FIRResampler&) { return (uint64_t)0; };
    for (auto [o, i] : std::vector<std::pair<int, int>>{{1, 1}, {1, 4}, {3, 1}, {3, 2}, {2, 3}, {160, 441}, {48000, 16000}, {44100, 48000}}) {
        auto [m, d] = IResampler::simplify(o, i);
        add(fmt("FIRResampler(%d,%d)", o, i), 1, d, mk<RR, FIRResampler>([m = m, d = d] { return FIRResampler(m, d); }, sfw), m > 12 || d > 12);
    }
    // ---- delay, median, moving average
    for (int n : {1, 2, 5, 17}) {
        add(fmt("DelayReal(%d)", n), 1, 1, mk<RR, DelayReal>([n] { return DelayReal(n); }, [](DelayReal& d) { return VF_TRY(d, (uint64_t)(HS(o._buffer)), (uint64_t)0); }));
        add(fmt("DelayCmplx(init %d)", n), 2, 1,
            mk<CC, DelayCmplx>([n] { return DelayCmplx(lcg_carr(n, 51)); }, [](DelayCmplx& d) { return VF_TRY(d, (uint64_t)(HS(o._buffer)), (uint64_t)0); }));
    }
    for (int ord : {3, 4, 5, 6, 7, 8, 9, 16, 33})
        for (double init : {0.0, -1.0})
            add(fmt("MedianFilter(%d,%g)", ord, init), 1, 1,
                mk<RR, MedianFilter>([ord, init] { return MedianFilter(ord, init); },
                                     [](MedianFilter& m) { return VF_TRY(m, (uint64_t)(mix(HS(o._d), mix(HS(o._s), (uint64_t)o._i))), (uint64_t)0); }));
    for (int n : {1, 2, 3, 7, 100}) {
        add(fmt("MAFilterR(%d)", n), 1, 1, [n]() -> std::unique_ptr<Proc> { return std::unique_ptr<Proc>(new MAP<real_t>(n)); });
        add(fmt("MAFilterC(%d)", n), 2, 1, [n]() -> std::unique_ptr<Proc> { return std::unique_ptr<Proc>(new MAP<cmplx_t>(n)); });
    }
    // ---- hilbert, tuner
    for (int fl : {31, 32, 51})
        add(fmt("HilbertFilter(%d)", fl), 1, 1,
            mk<RR, HilbertFilter>([fl] { return HilbertFilter(fl, 0.05); },
                                  [](HilbertFilter& h) { return VF_TRY(h, (uint64_t)(mix(HS(o._fir._d), HS(o._d._buffer))), (uint64_t)0); }));
    // neighbouring transition widths of one length, in both construction orders (mode sibling; a design cache keyed too coarsely)
    for (double tw : {0.0100, 0.0108, 0.0100, 0.0125})
        add(fmt("HilbertFilter(51,tw%g)", tw), 1, 1,
            mk<RR, HilbertFilter>([tw] { return HilbertFilter(51, tw); },
                                  [](HilbertFilter& h) { return VF_TRY(h, (uint64_t)(mix(HS(o._fir._d), HS(o._d._buffer))), (uint64_t)0); }));
    for (auto [fs, f] : std::vector<std::pair<int, double>>{{8, 1.0}, {8, -3.0}, {9, 2.0}, {8, 0.5}, {9, 4.4}, {5, 1.25}, {8000, 440.0}})
        add(fmt("Tuner(%d,%g)", fs, f), 2, fs <= 9 ? 3 : 1500,
            mk<CC, Tuner>([fs = fs, f = f] { return Tuner(fs, f); }, [](Tuner& t) { return VF_TRY(t, (uint64_t)((uint64_t)o._phase), (uint64_t)0); }), fs > 9);
    // ---- AGC and dynamics
    auto sfa = [](Agc& a) { return VF_TRY(a, (uint64_t)((uint64_t)0 * (uint64_t)(uintptr_t)&a), (uint64_t)0); };
    for (int avg : {1, 3, 100}) {
        add(fmt("Agc(real,avg%d)", avg), 1, 1, mk<RG, Agc>([avg] { return Agc(1.0, 60.0, avg, 0.05, 0.02); }, sfa));
        add(fmt("Agc(cmplx,avg%d)", avg), 2, 1, mk<CG, Agc>([avg] { return Agc(0.5, 40.0, avg); }, sfa));
    }
    for (int zero = 0; zero < 2; ++zero) {
        double at = zero ? 0.0 : 0.001, rt = zero ? 0.0 : 0.002;
        add(fmt("Compressor(tc%d)", !zero), 1, 1,
            mk<RG, Compressor>([at, rt] { return Compressor(8000, -20.0, 4, 6.0, at, rt); }, [](Compressor& c) { return VF_TRY(c, (uint64_t)(HS(o.gs_)), (uint64_t)0); }));
        add(fmt("Limiter(tc%d)", !zero), 1, 1,
            mk<RG, Limiter>([at, rt] { return Limiter(8000, -15.0, 4.0, at, rt); }, [](Limiter& c) { return VF_TRY(c, (uint64_t)(HS(o.gs_)), (uint64_t)0); }));
        add(fmt("NoiseGate(tc%d)", !zero), 1, 1,
            mk<RG, NoiseGate>([at, rt, zero] { return NoiseGate(8000, -12.0, at, rt, zero ? 0.0 : 0.0005); },
                              [](NoiseGate& c) { return VF_TRY(c, (uint64_t)(HS(o.lg_, (uint64_t)o.cA_)), (uint64_t)0); }));
    }
    // gate with zero release (the gain returns to exactly 1) and a hold that several short dips must add up to
    for (int g : {1, 4})
        for (double at : {0.0, 0.001}) {
            add(fmt("NoiseGate(rel0,hold4,att%g,g%d)", at, g), 1, g,
                mk<RG, NoiseGate>([at] { return NoiseGate(8000, -12.0, at, 0.0, 0.0005); }, [](NoiseGate& c) { return VF_TRY(c, (uint64_t)(HS(o.lg_, (uint64_t)o.cA_)), (uint64_t)0); }));
            add(fmt("NoiseGate(rel0,hold9,att%g,g%d)", at, g), 1, g,
                mk<RG, NoiseGate>([at] { return NoiseGate(8000, -12.0, at, 0.0, 0.0011); }, [](NoiseGate& c) { return VF_TRY(c, (uint64_t)(HS(o.lg_, (uint64_t)o.cA_)), (uint64_t)0); }));
        }
    // dynamics again with 16-sample granules: k granules span several release times, so a gain recovery sits inside the stream
    add("Compressor(tc1,g16)", 1, 16, mk<RG, Compressor>([] { return Compressor(8000, -20.0, 4, 6.0, 0.0005, 0.002); }, [](Compressor& c) { return VF_TRY(c, (uint64_t)(HS(o.gs_)), (uint64_t)0); }));
    add("Compressor(hard,g16)", 1, 16, mk<RG, Compressor>([] { return Compressor(8000, -12.0, 8, 0.0, 0.0, 0.004); }, [](Compressor& c) { return VF_TRY(c, (uint64_t)(HS(o.gs_)), (uint64_t)0); }));
    add("Limiter(tc1,g16)", 1, 16, mk<RG, Limiter>([] { return Limiter(8000, -15.0, 4.0, 0.0, 0.002); }, [](Limiter& c) { return VF_TRY(c, (uint64_t)(HS(o.gs_)), (uint64_t)0); }));
    add("NoiseGate(tc1,g16)", 1, 16, mk<RG, NoiseGate>([] { return NoiseGate(8000, -12.0, 0.001, 0.002, 0.002); }, [](NoiseGate& c) { return VF_TRY(c, (uint64_t)(HS(o.lg_, (uint64_t)o.cA_)), (uint64_t)0); }));
    add("Agc(real,avg10,g16)", 1, 16, mk<RG, Agc>([] { return Agc(1.0, 40.0, 10, 0.05, 0.02); }, sfa));
    // adaptive filters that are trained on a fixed sequence and then LOCKED: the locked filter is a streaming FIR
    for (int len : {2, 5}) {
        add(fmt("LMS<real>(%d,locked)", len), 2, 1, mk<AR, LmsFilterR>([=] {
                LmsFilterR f(len, 0.05, LmsType::LMS, 0.999);
                arr_real x(64), d(64);
                for (int i = 0; i < 64; ++i) { x[i] = lcg_val(700, (uint64_t)i); d[i] = lcg_val(701, (uint64_t)i); }
                f.process(x, d);
                f.set_lock_coeffs(true);
                return f; }, [](LmsFilterR& f) { return VF_TRY(f, (uint64_t)(mix(HS(o._u), HS(o._w))), (uint64_t)0); }));
        add(fmt("NLMS<cmplx>(%d,locked)", len), 4, 1, mk<AC, LmsFilterC>([=] {
                LmsFilterC f(len, 0.5, LmsType::NLMS, 0.99);
                arr_cmplx x(64), d(64);
                for (int i = 0; i < 64; ++i) { x[i] = cmplx_t(lcg_val(702, (uint64_t)i), lcg_val(703, (uint64_t)i)); d[i] = cmplx_t(lcg_val(704, (uint64_t)i), 0.5); }
                f.process(x, d);
                f.set_lock_coeffs(true);
                return f; }, [](LmsFilterC& f) { return VF_TRY(f, (uint64_t)(mix(HS(o._u), HS(o._w))), (uint64_t)0); }));
        add(fmt("RLS<real>(%d,locked)", len), 2, 1, mk<AR, RlsFilterR>([=] {
                RlsFilterR f(len, 0.98, 10.0);
                arr_real x(64), d(64);
                for (int i = 0; i < 64; ++i) { x[i] = lcg_val(705, (uint64_t)i); d[i] = lcg_val(706, (uint64_t)i); }
                f.process(x, d);
                f.set_lock_coeffs(true);
                return f; }, [](RlsFilterR& f) { return VF_TRY(f, (uint64_t)(mix(HS(o._u), mix(HS(o._w), HS(o._p)))), (uint64_t)0); }));
    }
    // ---- adaptive filters
    for (int len : {2, 4, 8}) {
        for (int nl = 0; nl < 2; ++nl) {
            LmsType ty = nl ? LmsType::NLMS : LmsType::LMS;
            double mu = nl ? 0.5 : 0.05;
            add(fmt("%s<real>(%d)", nl ? "NLMS" : "LMS", len), 2, 1,
                mk<AR, LmsFilterR>([=] { return LmsFilterR(len, mu, ty, 0.999); }, [](LmsFilterR& f) { return VF_TRY(f, (uint64_t)(mix(HS(o._u), HS(o._w))), (uint64_t)0); }));
            add(fmt("%s<cmplx>(%d)", nl ? "NLMS" : "LMS", len), 4, 1,
                mk<AC, LmsFilterC>([=] { return LmsFilterC(len, mu, ty, 1.0); }, [](LmsFilterC& f) { return VF_TRY(f, (uint64_t)(mix(HS(o._u), HS(o._w))), (uint64_t)0); }));
        }
        add(fmt("RLS<real>(%d)", len), 2, 1,
            mk<AR, RlsFilterR>([=] { return RlsFilterR(len, 0.98, 10.0); }, [](RlsFilterR& f) { return VF_TRY(f, (uint64_t)(mix(HS(o._u), mix(HS(o._w), HS(o._p)))), (uint64_t)0); }));
        add(fmt("RLS<real>(%d,defaults)", len), 2, 1,
            mk<AR, RlsFilterR>([=] { return RlsFilterR(len); }, [](RlsFilterR& f) { return VF_TRY(f, (uint64_t)(mix(HS(o._u), mix(HS(o._w), HS(o._p)))), (uint64_t)0); }));
        add(fmt("RLS<cmplx>(%d)", len), 4, 1,
            mk<AC, RlsFilterC>([=] { return RlsFilterC(len, 0.95, 1.0); }, [](RlsFilterC& f) { return VF_TRY(f, (uint64_t)(mix(HS(o._u), mix(HS(o._w), HS(o._p)))), (uint64_t)0); }));
    }
    (void)T;
    return C;
}

// ------------------------------------------------------------------ data letters (per unit component)
static double letter_val(int letter, int comp, long long i) {
    switch (letter) {
    case 0: return lcg_val(600 + (uint64_t)comp, (uint64_t)i);                       // dense
    case 1: return (i % 5 == 2) ? (comp == 0 ? 1.0 : -0.5) : 0.0;                    // impulse train
    case 2: return (i >= 7) ? (comp % 2 == 0 ? 0.75 : 0.25) : 0.0;                   // step
    case 3: return (i == 5 && comp % 2 == 0) ? 1e6 : 1e-3 * lcg_val(650 + (uint64_t)comp, (uint64_t)i);   // 180 dB click in low-level noise
    case 4: return (i < 24) ? 0.9 * (i % 2 ? -1.0 : 1.0) : 0.05 * lcg_val(660 + (uint64_t)comp, (uint64_t)i);     // loud burst, then a quiet passage
    default: return (i % 11 >= 4 && i % 11 <= 6) ? 1e-3 * lcg_val(670 + (uint64_t)comp, (uint64_t)i) : 0.9 * (i % 2 ? -1.0 : 1.0);   // loud, with a 3-sample dip every 11 samples
    }
}
static std::vector<double> make_stream(const Config& c, int granules, int letter, int tagshift = 0) {
    long long units = (long long)granules * c.granule;
    std::vector<double> s((size_t)units * c.width);
    for (long long i = 0; i < units; ++i)
        for (int k = 0; k < c.width; ++k) s[(size_t)i * c.width + k] = letter_val(letter, k + tagshift * 8, i);
    return s;
}

struct RunOut {
    std::vector<double> out, out2;   // second channel (gain / error) is appended to the first when the run is complete
    std::string err;
    void seal() {
        out.push_back((double)out.size());   // channel boundary is part of the comparison
        out.insert(out.end(), out2.begin(), out2.end());
        out2.clear();
    }
};
// frames: granule counts; state hashes after each frame are pushed to st (if not null)
static RunOut run_frames(const Config& c, const std::vector<double>& stream, const std::vector<int>& frames, std::vector<uint64_t>* st) {
    RunOut r;
    try {
        auto p = c.make();
        long long pos = 0;
        for (int f : frames) {
            long long units = (long long)f * c.granule;
            p->run(stream.data() + (size_t)pos * c.width, (int)units, r.out, r.out2);
            pos += units;
            if (st) st->push_back(p->state());
        }
        r.seal();
    } catch (const std::exception& e) {
        r.err = e.what();
    }
    return r;
}

static double maxabs(const std::vector<double>& v) {
    double m = 0;
    for (double x : v)
        if (std::isfinite(x)) m = std::max(m, std::abs(x));
    return m;
}
// returns "" if equal within tolerance
static std::string cmp(const std::vector<double>& ref, const std::vector<double>& got, double& worst, bool& bitid) {
    if (ref.size() != got.size()) return fmt("output length %zu instead of %zu", got.size(), ref.size());
    double tol = 1e-9 * std::max(maxabs(ref), 1e-300);
    if (!std::isfinite(tol)) tol = 1e300;
    for (size_t i = 0; i < ref.size(); ++i) {
        if (biteq(ref[i], got[i]) || (std::isnan(ref[i]) && std::isnan(got[i]))) continue;   // identical (also inf == inf, nan == nan)
        double d = std::abs(ref[i] - got[i]);
        if (!(d <= tol)) return fmt("output[%zu] = %.17g, one-call output %.17g (|delta| %.3g > %.3g)", i, got[i], ref[i], d, tol);
        if (d > 0 || !biteq(ref[i], got[i])) bitid = bitid && (ref[i] == got[i]);
        worst = std::max(worst, d / tol);
    }
    return "";
}

int main(int argc, char** argv) {
    Ctx ctx;
    ctx.parse(argc, argv, "C06");
    const bool T = ctx.thorough();
    auto C = make_configs(T);
    const int K1 = T ? 16 : 11;
    const int K2 = T ? 128 : 40;
    for (size_t ci = 0; ci < C.size(); ++ci) {
        const Config& c = C[ci];
        const uint64_t chash = fnv(c.name);
        for (int letter = 0; letter < 6; ++letter) {
            // ---------------- mode comp: all compositions of K1 granules
            if (ctx.take("frame.comp", P().kv("config", c.name).kv("letter", letter).kv("k", K1))) {
                auto stream = make_stream(c, K1, letter);
                RunOut ref = run_frames(c, stream, {K1}, nullptr);
                if (!ref.err.empty()) {
                    ctx.fail("one-call", "the one-call run threw: " + ref.err, "processes the whole stream");
                } else {
                    std::set<uint64_t> states_here;
                    uint64_t nfr = 0;
                    bool bitid = true;
                    double worst = 0;
                    int reported = 0;
                    for (unsigned m = 0; m < (1u << (K1 - 1)); ++m) {
                        std::vector<int> frames;
                        int cur = 1;
                        for (int b = 0; b < K1 - 1; ++b) {
                            if (m >> b & 1) {
                                frames.push_back(cur);
                                cur = 1;
                            } else
                                ++cur;
                        }
                        frames.push_back(cur);
                        std::vector<uint64_t> st;
                        RunOut r = run_frames(c, stream, frames, &st);
                        ++ctx.traces;
                        nfr += frames.size();
                        int pref = 0;
                        for (size_t i = 0; i < st.size(); ++i) {
                            pref += frames[i];
                            uint64_t h = mix(mix(chash, (uint64_t)letter * 131 + (uint64_t)pref), st[i]);
                            states_here.insert(h);
                            ctx.state(h);
                        }
                        std::string e = r.err.empty() ? cmp(ref.out, r.out, worst, bitid) : ("threw: " + r.err);
                        if (!e.empty() && reported < 3) {
                            ++reported;
                            ctx.fail(c.name.substr(0, c.name.find('(')).c_str(), fmt("framing %s: %s", show(frames, 16).c_str(), e.c_str()),
                                     "same concatenated output as one call on the whole stream", P().list("frames", frames).kv("mode", "comp"));
                        }
                    }
                    ctx.transitions += nfr;
                    ctx.evaluations += (1u << (K1 - 1)) - 1;
                    ctx.checks["frame.comp"].evals += (1u << (K1 - 1)) - 1;
                    for (unsigned m = 1; m < (1u << (K1 - 1)); ++m) ctx.nontrivial_key(mix(ctx.cur_hash, m));
                    ctx.worst("comp: |delta|/tol", worst);
                    ctx.note(bitid ? "comp: configs bit-identical across all framings" : "comp: configs equal within tolerance only");
                    if ((int)states_here.size() == K1 || states_here.size() == 1) ctx.note("comp: (config,letter) with exactly one canonical state per prefix");
                    else ctx.note("comp: (config,letter) with framing-dependent private state (evidence only)");
                }
            }
            // ---------------- mode pair: prefix granule-by-granule, one frame of f granules, remainder (two ways)
            if (letter == 0 && !(c.heavy && !T)) {
                if (ctx.take("frame.pair", P().kv("config", c.name).kv("k", K2))) {
                    auto stream = make_stream(c, K2, 0);
                    RunOut ref = run_frames(c, stream, {K2}, nullptr);
                    if (!ref.err.empty()) {
                        ctx.fail("one-call", "the one-call run threw: " + ref.err, "processes the whole stream");
                    } else {
                        uint64_t runs = 0, nfr = 0;
                        int reported = 0;
                        bool bitid = true;
                        double worst = 0;
                        for (int p = 0; p < K2; ++p) {
                            for (int f = 1; p + f <= K2; ++f) {
                                for (int tail = 0; tail < 2; ++tail) {
                                    int rest = K2 - p - f;
                                    if (tail == 1 && rest <= 1) continue;
                                    std::vector<int> frames((size_t)p, 1);
                                    frames.push_back(f);
                                    if (rest > 0) {
                                        if (tail == 0) frames.push_back(rest);
                                        else frames.insert(frames.end(), (size_t)rest, 1);
                                    }
                                    RunOut r = run_frames(c, stream, frames, nullptr);
                                    ++runs;
                                    nfr += frames.size();
                                    std::string e = r.err.empty() ? cmp(ref.out, r.out, worst, bitid) : ("threw: " + r.err);
                                    if (!e.empty() && reported < 3) {
                                        ++reported;
                                        ctx.fail(c.name.substr(0, c.name.find('(')).c_str(),
                                                 fmt("prefix %d x 1 granule, frame of %d, %s: %s", p, f, tail ? "rest granule-by-granule" : "rest in one frame",
                                                     e.c_str()),
                                                 "same concatenated output as one call on the whole stream",
                                                 P().kv("p", p).kv("f", f).kv("tail", tail).kv("mode", "pair"));
                                    }
                                }
                            }
                        }
                        ctx.traces += runs;
                        ctx.transitions += nfr;
                        ctx.evaluations += runs - 1;
                        ctx.checks["frame.pair"].evals += runs - 1;
                        for (uint64_t m = 1; m < runs; ++m) ctx.nontrivial_key(mix(ctx.cur_hash, m));
                        ctx.worst("pair: |delta|/tol", worst);
                    }
                }
            }
        }
        // ---------------- mode reject: a frame of a non-documented granularity is rejected and must leave the object unchanged
        const bool has_misuse = (c.name.find("LMS") != std::string::npos || c.name.find("RLS") != std::string::npos);
        if ((c.strict || has_misuse) && ctx.take("frame.reject", P().kv("config", c.name))) {
            const int G = 6;
            auto stream = make_stream(c, G, 0);
            RunOut ref = run_frames(c, stream, {G}, nullptr);
            std::vector<double> junk((size_t)(2 * c.granule + 2) * c.width, 0.125);
            RunOut got;
            uint64_t attempts = 0, rejected = 0;
            try {
                auto p = c.make();
                for (int g = 0; g < G; ++g) {
                    if (has_misuse) {
                        ++attempts;
                        if (p->misuse() == 1) ++rejected;
                    }
                    for (int bad : {c.granule - 1, c.granule + 1, 1, 2 * c.granule + 1}) {
                        if (!c.strict || bad <= 0 || bad % c.granule == 0) continue;
                        ++attempts;
                        std::vector<double> o1, o2;
                        try {
                            p->run(junk.data(), bad, o1, o2);
                        } catch (const std::exception&) {
                            ++rejected;
                        }
                    }
                    p->run(stream.data() + (size_t)g * c.granule * c.width, c.granule, got.out, got.out2);
                }
                got.seal();
            } catch (const std::exception& e) {
                got.err = e.what();
            }
            ctx.transitions += attempts + G;
            ++ctx.traces;
            ctx.nontrivial();
            double worst = 0;
            bool bitid = true;
            if (rejected != attempts) {
                ctx.fail(c.name.substr(0, c.name.find('(')).c_str(), fmt("%llu of %llu calls that must be rejected (frame length not a multiple of the granularity / x and d of different length) were accepted",
                                                                         (unsigned long long)(attempts - rejected), (unsigned long long)attempts),
                         "rejected with an exception", P().kv("mode", "reject"));
            } else {
                std::string e = !ref.err.empty() ? ("one-call run threw: " + ref.err) : (got.err.empty() ? cmp(ref.out, got.out, worst, bitid) : ("threw: " + got.err));
                if (!e.empty())
                    ctx.fail(c.name.substr(0, c.name.find('(')).c_str(), "valid frames interleaved with rejected frames: " + e,
                             "a rejected call leaves the object unchanged: same output as the valid frames alone", P().kv("mode", "reject"));
            }
        }
        // ---------------- mode long: a stream of > 70 000 samples (16-bit counters / offsets wrap at 65 536) under five framings
        {
            static std::set<std::string> seen_kind;
            const std::string kind = c.name.substr(0, c.name.find('('));
            const bool first_of_kind = seen_kind.insert(kind).second;
            if ((T || first_of_kind) && ctx.take("frame.long", P().kv("config", c.name))) {
                const int GL = (int)((70001 + c.granule - 1) / c.granule) + 3;
                auto stream = make_stream(c, GL, 0);
                RunOut ref = run_frames(c, stream, {GL}, nullptr);
                if (!ref.err.empty()) {
                    ctx.fail("one-call", "the one-call run threw: " + ref.err, "processes the whole stream");
                } else {
                    ctx.nontrivial();
                    const int g65 = (int)(65535 / c.granule);
                    std::vector<std::vector<int>> framings;
                    framings.push_back({g65, 1, GL - g65 - 1});                       // a boundary right before / after sample 65 536
                    framings.push_back({3, GL - 3});                                    // short frame, then one frame longer than 65 536
                    {
                        std::vector<int> f;                                             // uniform frames of about 1000 samples
                        const int u = std::max(1, 1000 / c.granule);
                        for (int done = 0; done < GL; done += u) f.push_back(std::min(u, GL - done));
                        framings.push_back(f);
                    }
                    {
                        std::vector<int> f;                                             // alternating 1 / 64 granules
                        for (int done = 0, k = 0; done < GL; ++k) {
                            int u = std::min((k % 2) ? 64 : 1, GL - done);
                            f.push_back(u);
                            done += u;
                        }
                        framings.push_back(f);
                    }
                    framings.push_back({GL - 1, 1});
                    double worst = 0;
                    bool bitid = true;
                    int reported = 0;
                    for (size_t fi = 0; fi < framings.size(); ++fi) {
                        RunOut r = run_frames(c, stream, framings[fi], nullptr);
                        ++ctx.traces;
                        ctx.transitions += framings[fi].size();
                        std::string e = r.err.empty() ? cmp(ref.out, r.out, worst, bitid) : ("threw: " + r.err);
                        if (!e.empty() && reported < 2) {
                            ++reported;
                            ctx.fail(kind.c_str(), fmt("stream of %lld samples, framing #%zu (%zu frames, first %d granules): %s", (long long)GL * c.granule, fi,
                                                       framings[fi].size(), framings[fi][0], e.c_str()),
                                     "same concatenated output as one call on the whole stream", P().kv("framing", (int)fi).kv("mode", "long"));
                        }
                    }
                    ctx.worst("long: |delta|/tol", worst);
                }
            }
        }
        // ---------------- mode pause: dense signal, a long stretch of exact digital silence, dense signal again (adaptive filters
        // without excitation, smoothers released to the floor, holds expired) - with frame boundaries before, inside and after the pause
        if (ctx.take("frame.pause", P().kv("config", c.name))) {
            const int A = std::max(1, 300 / c.granule), Z = std::max(1, 1200 / c.granule), GL = 2 * A + Z;
            auto stream = make_stream(c, GL, 0);
            for (long long i = (long long)A * c.granule; i < (long long)(A + Z) * c.granule; ++i)
                for (int k = 0; k < c.width; ++k) stream[(size_t)i * c.width + k] = 0.0;
            RunOut ref = run_frames(c, stream, {GL}, nullptr);
            if (!ref.err.empty()) {
                ctx.fail("one-call", "the one-call run threw: " + ref.err, "processes the whole stream");
            } else {
                ctx.nontrivial();
                std::vector<std::vector<int>> framings;
                framings.push_back({A, Z, A});
                for (int cut : {A + Z / 24, A + Z / 6, A + Z / 3, A + Z / 2, A + (3 * Z) / 4, A + Z - 1, A + Z + 1})
                    if (cut > 0 && cut < GL) framings.push_back({cut, GL - cut});
                {
                    std::vector<int> f;
                    const int u = std::max(1, 100 / c.granule);
                    for (int done = 0; done < GL; done += u) f.push_back(std::min(u, GL - done));
                    framings.push_back(f);
                }
                double worst = 0;
                bool bitid = true;
                int reported = 0;
                for (size_t fi = 0; fi < framings.size(); ++fi) {
                    RunOut r = run_frames(c, stream, framings[fi], nullptr);
                    ++ctx.traces;
                    ++ctx.evaluations;
                    ++ctx.checks["frame.pause"].evals;
                    ctx.transitions += framings[fi].size();
                    std::string e = r.err.empty() ? cmp(ref.out, r.out, worst, bitid) : ("threw: " + r.err);
                    if (!e.empty() && reported < 2) {
                        ++reported;
                        ctx.fail(c.name.substr(0, c.name.find('(')).c_str(),
                                 fmt("dense %d / silent %d / dense %d granules, framing #%zu (first frame %d granules): %s", A, Z, A, fi, framings[fi][0], e.c_str()),
                                 "same concatenated output as one call on the whole stream", P().kv("framing", (int)fi).kv("mode", "pause"));
                    }
                }
                ctx.worst("pause: |delta|/tol", worst);
            }
        }
        // ---------------- mode copy: copies of a processor.  The statement does not say whether a copy is an independent value or a
        // handle to the same processor (the library has both kinds: arrays held by value, and shared_ptr pimpl classes), so both are
        // accepted - but it must be ONE of them, consistently, for every call of the history: a copy that shares part of its state
        // with its source (or keeps pointers into it) follows neither semantics.  Expectations are computed on the implementation
        // itself: "value" = each object alone, fed its own calls (a copy inherits the calls made before it was taken); "handle" = one
        // object fed all calls of the history in their global order.
        if (ctx.take("instance.copy", P().kv("config", c.name))) {
            const int G = 2;
            auto sA = make_stream(c, 4 * G, 0);
            auto sB = make_stream(c, 4 * G, 3, 5);
            struct Step {
                int obj;   // 0 = source, 1 = copy
                int st;    // 0 = stream A, 1 = stream B
                int frame;
            };
            struct Hist {
                const char* name;
                std::vector<Step> steps;
                size_t copy_at;      // the copy is taken before step copy_at
                bool by_assign;      // copy-assigned onto an object that has already processed a frame
                bool destroy_src;    // the source is destroyed right after the copy (and another object is created and used)
                bool by_move = false;   // the second object is move-constructed from the source, which is then destroyed
            };
            const std::vector<Hist> H = {
                {"copy after 2 frames, source destroyed, copy continues", {{0, 0, 0}, {0, 0, 1}, {1, 0, 2}, {1, 0, 3}}, 2, false, true},
                {"copy after 2 frames, only the copy continues", {{0, 0, 0}, {0, 0, 1}, {1, 0, 2}, {1, 0, 3}}, 2, false, false},
                {"copy after 2 frames, source fed other data, then the copy, then the source", {{0, 0, 0}, {0, 0, 1}, {0, 1, 0}, {0, 1, 1}, {1, 0, 2}, {1, 0, 3}, {0, 1, 2}}, 2, false, false},
                {"copy after 2 frames, interleaved continuation", {{0, 0, 0}, {0, 0, 1}, {1, 0, 2}, {0, 0, 2}, {0, 0, 3}, {1, 0, 3}}, 2, false, false},
                {"copy-assigned onto a used object after 2 frames, source fed other data", {{0, 0, 0}, {0, 0, 1}, {0, 1, 0}, {1, 0, 2}, {0, 1, 1}, {1, 0, 3}}, 2, true, false},
                {"copy-assigned onto a used object, source destroyed", {{0, 0, 0}, {0, 0, 1}, {1, 0, 2}, {1, 0, 3}}, 2, true, true},
                {"copy of a fresh object, source used first", {{0, 1, 0}, {0, 1, 1}, {1, 0, 0}, {1, 0, 1}}, 0, false, false},
                {"moved after 2 frames (source destroyed), target continues", {{0, 0, 0}, {0, 0, 1}, {1, 0, 2}, {1, 0, 3}}, 2, false, true, true},
                {"moved when fresh (source destroyed), target runs the stream", {{1, 0, 0}, {1, 0, 1}, {1, 0, 2}}, 0, false, true, true},
            };
            auto feed = [&](Proc& p, const Step& st, std::vector<double>& o) {
                std::vector<double> o1, o2;
                const std::vector<double>& S = st.st == 0 ? sA : sB;
                p.run(S.data() + (size_t)st.frame * G * c.granule * c.width, G * c.granule, o1, o2);
                o = o1;
                o.push_back((double)o1.size());
                o.insert(o.end(), o2.begin(), o2.end());
            };
            bool copyable = true;
            try {
                auto probe = c.make();
                if (!probe->clone()) copyable = false;
            } catch (const std::exception&) {
                copyable = false;
            }
            if (!copyable) ctx.note("copy: configurations whose class is not copyable (skipped)");
            else {
                ctx.nontrivial();
                int reported = 0;
                for (const Hist& h : H) {
                    std::string err;
                    std::vector<std::vector<double>> act(h.steps.size()), ev(h.steps.size()), eh(h.steps.size());
                    bool assign_ok = true;
                    try {
                        // actual
                        {
                            std::unique_ptr<Proc> p = c.make(), q, filler;
                            if (h.by_assign) {
                                q = c.make();
                                std::vector<double> junk;
                                feed(*q, Step{1, 1, 3}, junk);
                            }
                            for (size_t i = 0; i < h.steps.size(); ++i) {
                                if (i == h.copy_at) {
                                    if (h.by_move) {
                                        q = p->move_clone();
                                        if (!q) assign_ok = false;
                                    } else if (h.by_assign) assign_ok = q->assign_from(*p);
                                    else q = p->clone();
                                    if (h.destroy_src) {
                                        p.reset();
                                        filler = c.make();
                                        std::vector<double> junk;
                                        feed(*filler, Step{0, 1, 3}, junk);
                                    }
                                }
                                if (!assign_ok) break;
                                feed(h.steps[i].obj == 0 ? *p : *q, h.steps[i], act[i]);
                            }
                        }
                        if (!assign_ok) continue;   // not copy-assignable
                        // value semantics: each object alone
                        for (int who = 0; who < 2; ++who) {
                            auto r = c.make();
                            for (size_t i = 0; i < h.steps.size(); ++i) {
                                const bool inherited = who == 1 && i < h.copy_at && h.steps[i].obj == 0;
                                if (h.steps[i].obj != who && !inherited) continue;
                                std::vector<double> o;
                                feed(*r, h.steps[i], o);
                                if (h.steps[i].obj == who) ev[i] = o;
                            }
                        }
                        // handle semantics: one object, global order
                        {
                            auto r = c.make();
                            for (size_t i = 0; i < h.steps.size(); ++i) feed(*r, h.steps[i], eh[i]);
                        }
                    } catch (const std::exception& e) {
                        err = e.what();
                    }
                    ++ctx.traces;
                    ctx.transitions += 3 * h.steps.size();
                    std::string ve, he;
                    double worst = 0;
                    bool bitid = true;
                    for (size_t i = 0; i < h.steps.size() && err.empty(); ++i) {
                        if (ve.empty()) {
                            std::string e = cmp(ev[i], act[i], worst, bitid);
                            if (!e.empty()) ve = fmt("call %zu (%s, stream %c frame %d): %s", i, h.steps[i].obj ? "copy" : "source", "AB"[h.steps[i].st], h.steps[i].frame, e.c_str());
                        }
                        if (he.empty()) {
                            std::string e = cmp(eh[i], act[i], worst, bitid);
                            if (!e.empty()) he = fmt("call %zu (%s): %s", i, h.steps[i].obj ? "copy" : "source", e.c_str());
                        }
                    }
                    if (!err.empty() || (!ve.empty() && !he.empty())) {
                        if (reported++ < 3)
                            ctx.fail(c.name.substr(0, c.name.find('(')).c_str(),
                                     !err.empty() ? std::string(h.name) + ": threw: " + err
                                                  : std::string(h.name) + ": the outputs follow neither an independent copy [" + ve + "] nor a handle to the same processor [" + he + "]",
                                     "a copy is an independent value or a handle to the same processor, consistently for every call of the history",
                                     P().kv("history", h.name).kv("mode", "copy"));
                    } else {
                        ctx.note(ve.empty() ? "copy: histories consistent with value semantics" : "copy: histories consistent with handle semantics only");
                    }
                }
            }
        }
        // ---------------- mode sibling: a DIFFERENTLY configured processor of the same class constructed (and used) first in the same
        // thread, still alive while this one is constructed and run; reference: this configuration alone in a fresh thread
        // quick: the preceding configuration of the catalogue; thorough: EVERY other configuration of the same class
        for (size_t pj = 0; pj < C.size(); ++pj) {
            if (pj == ci || (!T && pj + 1 != ci)) continue;
            const Config& pc = C[pj];
            const std::string kind = c.name.substr(0, c.name.find('(')), pkind = pc.name.substr(0, pc.name.find('('));
            if (kind == pkind && ctx.take("instance.sibling", P().kv("config", c.name).kv("first", pc.name))) {
                const int G = 24;
                auto stream = make_stream(c, G, 0), pstream = make_stream(pc, 6, 0, 3);
                RunOut solo, pair;
                std::thread t1([&] { solo = run_frames(c, stream, {G}, nullptr); });
                t1.join();
                std::thread t2([&] {
                    try {
                        auto p0 = pc.make();
                        std::vector<double> o1, o2;
                        p0->run(pstream.data(), 6 * pc.granule, o1, o2);
                        pair = run_frames(c, stream, {G}, nullptr);
                        p0->run(pstream.data(), 6 * pc.granule, o1, o2);
                    } catch (const std::exception& e) {
                        pair.err = e.what();
                    }
                });
                t2.join();
                ++ctx.traces;
                ++ctx.evaluations;
                ++ctx.checks["instance.sibling"].evals;
                ctx.nontrivial();
                const bool same = solo.err.empty() && pair.err.empty() && solo.out.size() == pair.out.size() &&
                                  (solo.out.empty() || memcmp(solo.out.data(), pair.out.data(), solo.out.size() * 8) == 0);
                if (!same) {
                    size_t d = 0;
                    while (d < solo.out.size() && d < pair.out.size() && memcmp(&solo.out[d], &pair.out[d], 8) == 0) ++d;
                    ctx.fail(kind.c_str(),
                             !pair.err.empty() || !solo.err.empty() ? "threw: " + pair.err + solo.err
                                                                    : fmt("after %s was constructed and used in the same thread: output[%zu] = %.17g, alone %.17g", pc.name.c_str(), d,
                                                                          d < pair.out.size() ? pair.out[d] : NAN, d < solo.out.size() ? solo.out[d] : NAN),
                             "bit-identical to the processor constructed alone in a fresh thread", P().kv("mode", "sibling"));
                }
            }
        }
        // ---------------- mode iso: instance isolation
        for (int ninst = 2; ninst <= 3; ++ninst) {
            if (ninst == 3 && !T && (ci % 2 != 0)) continue;
            if (!ctx.take("instance.iso", P().kv("config", c.name).kv("instances", ninst))) continue;
            const int NF = 3, G = 2;   // 3 frames of 2 granules per instance
            std::vector<std::vector<double>> streams, solo;
            bool ok = true;
            for (int i = 0; i < ninst; ++i) {
                streams.push_back(make_stream(c, NF * G, 0, i + 1));
                RunOut r = run_frames(c, streams.back(), std::vector<int>(NF, G), nullptr);
                if (!r.err.empty()) {
                    ctx.fail("solo", "solo run threw: " + r.err, "runs");
                    ok = false;
                }
                solo.push_back(r.out);
            }
            if (!ok) continue;
            // every interleaving = every sequence over instances with NF occurrences each
            std::vector<int> order;
            for (int i = 0; i < ninst; ++i) order.insert(order.end(), NF, i);
            uint64_t runs = 0;
            int reported = 0;
            do {
                std::vector<std::unique_ptr<Proc>> ps;
                std::vector<std::vector<double>> outs((size_t)ninst), outs2((size_t)ninst);
                std::vector<int> nextf((size_t)ninst, 0);
                std::string err;
                try {
                    for (int i = 0; i < ninst; ++i) ps.push_back(c.make());
                    for (int who : order) {
                        long long pos = (long long)nextf[(size_t)who]++ * G * c.granule;
                        ps[(size_t)who]->run(streams[(size_t)who].data() + (size_t)pos * c.width, G * c.granule, outs[(size_t)who], outs2[(size_t)who]);
                    }
                    for (int i = 0; i < ninst; ++i) {
                        outs[(size_t)i].push_back((double)outs[(size_t)i].size());
                        outs[(size_t)i].insert(outs[(size_t)i].end(), outs2[(size_t)i].begin(), outs2[(size_t)i].end());
                    }
                } catch (const std::exception& e) {
                    err = e.what();
                }
                ++runs;
                for (int i = 0; i < ninst && reported < 3; ++i) {
                    bool same = err.empty() && outs[(size_t)i].size() == solo[(size_t)i].size() &&
                                (solo[(size_t)i].empty() || memcmp(outs[(size_t)i].data(), solo[(size_t)i].data(), solo[(size_t)i].size() * 8) == 0);
                    if (!same) {
                        ++reported;
                        ctx.fail(c.name.substr(0, c.name.find('(')).c_str(),
                                 fmt("interleaving %s: output of instance %d differs from its solo run%s", show(order, 12).c_str(), i,
                                     err.empty() ? "" : (" (threw: " + err + ")").c_str()),
                                 "instances do not influence one another (bit-identical to the solo run)", P().list("order", order).kv("mode", "iso"));
                    }
                }
            } while (std::next_permutation(order.begin(), order.end()));
            ctx.traces += runs;
            ctx.transitions += runs * (uint64_t)(ninst * NF);
            ctx.evaluations += runs - 1;
            ctx.checks["instance.iso"].evals += runs - 1;
            for (uint64_t m = 1; m < runs; ++m) ctx.nontrivial_key(mix(ctx.cur_hash, m));
        }
    }
    if (vf::private_state_missing()) ctx.note("private state of some configurations is not readable in this tree (renamed members): state counts degraded, verdict unaffected");
    return ctx.finish();
}
