// C18 compile probe (F26): this translation unit must compile.  It instantiates dsplib::delayseq for complex arrays.
// tools/propdefs/C18.py compiles it with -fsyntax-only; success enables -DVERIF_DELAYSEQ_CMPLX in C18_delay_detect.cpp,
// failure is reported as check delayseq.cmplx.compiles (a compile-time fact, no run-time case exists).
#include <dsplib.h>
dsplib::arr_cmplx c18_probe(const dsplib::arr_cmplx& x, int d) { return dsplib::delayseq(x, d); }
int main() { return c18_probe(dsplib::arr_cmplx(4), 1).size() == 4 ? 0 : 1; }
