// C15 - prime and power-of-two helpers agree with number theory and terminate.
// Engine E1 (bounded-exhaustive enumeration), every block of arguments runs in a forked child with a
// watchdog (a non-terminating call is an observed outcome).  Oracles: sieve of Eratosthenes, deterministic
// Miller-Rabin, 64-bit trial division; cost oracle: the trial-division counter of the DSPLIB_VERIF hook.
#include "vf_fork.hpp"

namespace dsplib { namespace verif { uint64_t prime_steps_read(); } }

using namespace vf;
using dsplib::arr_int;

// ---- calls made BEFORE main(): this translation unit is linked in front of the library archive, so the constructor below runs
// before the dynamic initialisers of the library's own translation units.  The helpers must already answer correctly then (they
// are plain functions of their argument; an application may well size its buffers from a static initialiser).
struct PreMainCalls {
    struct R {
        uint32_t n;
        bool ip, ip2;
        std::vector<long long> f, pr;
        uint32_t np;
        int np2;
    };
    std::vector<R> rs;
    static const std::vector<uint32_t>& args() {
        static const std::vector<uint32_t> a = {0, 1, 2, 3, 4, 9, 97, 221, 1001, 4096, 65521, 65536, 65537, 360360, 16769023, 2147483647u, 4292870399u, 4294967291u, 4294967295u};
        return a;
    }
    static R call(uint32_t n) {
        R r;
        r.n = n;
        r.ip = dsplib::isprime(n);
        if (n >= 2) {
            arr_int f = dsplib::factor(n);
            for (int i = 0; i < f.size(); ++i) r.f.push_back((long long)(uint32_t)f[i]);   // factors above INT_MAX come back as negative ints
        }
        r.np = n <= 4294967291u ? dsplib::nextprime(n) : 0;
        arr_int pr = dsplib::primes(std::min<uint32_t>(n, 70000));
        r.pr.assign(pr.begin(), pr.end());
        const int m = (int)std::min<uint32_t>(std::max<uint32_t>(n, 1), 0x7FFFFFFFu);
        r.np2 = dsplib::nextpow2(m);
        r.ip2 = dsplib::ispow2(m);
        return r;
    }
    PreMainCalls() {
        for (uint32_t n : args()) rs.push_back(call(n));
    }
};
static PreMainCalls g_premain;

static std::vector<uint32_t> g_spf;       // smallest prime factor, n <= SIEVE_N
static std::vector<uint32_t> g_small;     // primes <= 65536
static uint32_t SIEVE_N = 0;

static void build_sieve(uint32_t n) {
    SIEVE_N = n;
    g_spf.assign((size_t)n + 1, 0);
    for (uint64_t i = 2; i <= n; ++i) {
        if (g_spf[i] == 0) {
            for (uint64_t j = i; j <= n; j += i)
                if (g_spf[j] == 0) g_spf[j] = (uint32_t)i;
        }
    }
    for (uint32_t i = 2; i <= 65536 && i <= n; ++i)
        if (g_spf[i] == i) g_small.push_back(i);
}

static uint64_t mulmod(uint64_t a, uint64_t b, uint64_t m) { return (unsigned __int128)a * b % m; }
static uint64_t powmod(uint64_t a, uint64_t e, uint64_t m) {
    uint64_t r = 1;
    a %= m;
    while (e) {
        if (e & 1) r = mulmod(r, a, m);
        a = mulmod(a, a, m);
        e >>= 1;
    }
    return r;
}
static bool mr_prime(uint64_t n) {   // deterministic for n < 3.4e14 with these bases
    if (n < 2) return false;
    for (uint64_t p : {2, 3, 5, 7, 11, 13, 17}) {
        if (n % p == 0) return n == p;
    }
    uint64_t d = n - 1;
    int s = 0;
    while ((d & 1) == 0) {
        d >>= 1;
        ++s;
    }
    for (uint64_t a : {2, 3, 5, 7, 11, 13, 17}) {
        uint64_t x = powmod(a, d, n);
        if (x == 1 || x == n - 1) continue;
        bool comp = true;
        for (int i = 1; i < s; ++i) {
            x = mulmod(x, x, n);
            if (x == n - 1) {
                comp = false;
                break;
            }
        }
        if (comp) return false;
    }
    return true;
}
static bool ref_prime(uint64_t n) { return n <= SIEVE_N ? (n >= 2 && g_spf[n] == n) : mr_prime(n); }
static std::vector<uint64_t> ref_factor(uint64_t n) {
    std::vector<uint64_t> f;
    if (n <= SIEVE_N) {
        while (n > 1) {
            f.push_back(g_spf[n]);
            n /= g_spf[n];
        }
        return f;
    }
    for (uint32_t p : g_small) {
        if ((uint64_t)p * p > n) break;
        while (n % p == 0) {
            f.push_back(p);
            n /= p;
        }
    }
    if (n > 1) f.push_back(n);
    return f;
}

static double budget(uint64_t n) { return 32.0 * std::sqrt((double)n) + 4096.0; }

// one argument of isprime / factor
static void check_pf(ChildCtx& c, uint32_t n) {
    fb::shm()->prog[0] = n;
    fb::label("isprime");
    uint64_t s0 = dsplib::verif::prime_steps_read();
    bool got = dsplib::isprime(n);
    uint64_t s1 = dsplib::verif::prime_steps_read();
    bool ref = ref_prime(n);
    ++c.evals;
    if (got != ref) c.fail("isprime", fmt("isprime(%u)=%d", n, (int)got), fmt("%d", (int)ref), P().kv("n", (long long)n));
    if ((double)(s1 - s0) > budget(n))
        c.fail("isprime.cost", fmt("isprime(%u) used %llu trial divisions", n, (unsigned long long)(s1 - s0)),
               fmt("<= 32*sqrt(n)+4096 = %.0f", budget(n)), P().kv("n", (long long)n));
    c.worst("isprime steps/sqrt(n)", (double)(s1 - s0) / (std::sqrt((double)n) + 1));
    if (n >= 2) {
        fb::label("factor");
        s0 = dsplib::verif::prime_steps_read();
        arr_int f = dsplib::factor(n);
        s1 = dsplib::verif::prime_steps_read();
        auto rf = ref_factor(n);
        ++c.evals;
        bool ok = (size_t)f.size() == rf.size();
        for (int i = 0; ok && i < f.size(); ++i) ok = (uint64_t)(uint32_t)f[i] == rf[(size_t)i];
        if (!ok) {
            std::vector<long long> g(f.begin(), f.end()), r(rf.begin(), rf.end());
            c.fail("factor", fmt("factor(%u)=%s", n, show(g).c_str()), show(r), P().kv("n", (long long)n));
        }
        if ((double)(s1 - s0) > budget(n))
            c.fail("factor.cost", fmt("factor(%u) used %llu trial divisions", n, (unsigned long long)(s1 - s0)),
                   fmt("<= 32*sqrt(n)+4096 = %.0f", budget(n)), P().kv("n", (long long)n));
        if (rf.size() >= 2 || ref) ++c.nontriv;
    }
}

// run [lo, hi) (step st) through check_pf in children, resuming after a hang; gives up after 3 hangs
static void sweep(Ctx& ctx, const char* check, uint64_t lo, uint64_t hi, uint64_t st, double tmo, int& hangs) {
    uint64_t cur = lo;
    while (cur < hi && hangs < 3) {
        auto o = forked(ctx, "isprime/factor", tmo, [&](ChildCtx& c) {
            for (uint64_t n = cur; n < hi; n += st) check_pf(c, (uint32_t)n);
        });
        if (!o.abnormal) break;
        ++hangs;
        uint64_t at = (uint64_t)o.r.prog[0];
        cur = at + st;   // resume after the argument that did not come back
    }
    if (hangs >= 3) ctx.cap(std::string(check) + ": stopped after 3 abnormal outcomes");
}

int main(int argc, char** argv) {
    Ctx ctx;
    ctx.parse(argc, argv, "C15");
    const bool T = ctx.thorough();
    const uint32_t N = T ? (1u << 26) : (1u << 20);
    build_sieve(std::max<uint32_t>(N, 1u << 20) + 70000);
    // oracle self-check: the two independent references must agree where both apply
    for (uint32_t n = 0; n <= SIEVE_N; n += (n < 70000 ? 1 : 37)) {
        if ((g_spf[n] == n && n >= 2) != mr_prime(n)) {
            fprintf(stderr, "oracle self-check failed at %u\n", n);
            return 4;
        }
    }
    const double TMO = 8.0;   // a call takes < 2 ms on this machine; see DESIGN C15

    // ---- the answers given before main() (static initialisation of the application) against the oracles and against the same calls now
    for (size_t k = 0; k < g_premain.rs.size(); ++k) {
        const PreMainCalls::R& r = g_premain.rs[k];
        if (!ctx.take("prime.premain", P().kv("n", (long long)r.n))) continue;
        ctx.evaluations += 6;
        ctx.checks["prime.premain"].evals += 6;
        PreMainCalls::R now = PreMainCalls::call(r.n);
        auto rf = r.n >= 2 ? ref_factor(r.n) : std::vector<uint64_t>{};
        std::vector<long long> rfl(rf.begin(), rf.end());
        uint64_t np = r.n;
        while (!ref_prime(np)) ++np;
        std::vector<long long> prs;
        for (uint32_t v = 2; v <= std::min<uint32_t>(r.n, 70000); ++v)
            if (g_spf[v] == v) prs.push_back(v);
        const int m = (int)std::min<uint32_t>(std::max<uint32_t>(r.n, 1), 0x7FFFFFFFu);
        int np2 = 0;
        while ((1ll << np2) < m) ++np2;
        std::string bad;
        if (r.ip != ref_prime(r.n)) bad = fmt("isprime(%u)=%d", r.n, (int)r.ip);
        else if (r.f != rfl) bad = fmt("factor(%u)=%s (expected %s)", r.n, show(r.f).c_str(), show(rfl).c_str());
        else if (r.n <= 4294967291u && r.np != np) bad = fmt("nextprime(%u)=%u (expected %llu)", r.n, r.np, (unsigned long long)np);
        else if (r.pr != prs) bad = fmt("primes(%u) has %zu entries (expected %zu)", std::min<uint32_t>(r.n, 70000), r.pr.size(), prs.size());
        else if (r.np2 != np2 || r.ip2 != ((1ll << np2) == m)) bad = fmt("nextpow2(%d)=%d ispow2=%d", m, r.np2, (int)r.ip2);
        else if (now.ip != r.ip || now.f != r.f || now.np != r.np || now.pr != r.pr || now.np2 != r.np2 || now.ip2 != r.ip2) bad = fmt("answers for %u differ between the call before main() and the call now", r.n);
        if (!bad.empty())
            ctx.fail("static initialisation", "asked before main(): " + bad, "the number-theoretic answer, whenever the helper is called", P().kv("n", (long long)r.n));
        if (r.n > 3) ctx.nontrivial();
    }
    // ---- isprime / factor: every n in [0, N]
    {
        int hangs = 0;
        const uint32_t B = T ? 65536 : 4096;
        for (uint64_t lo = 0; lo <= N; lo += B) {
            uint64_t hi = std::min<uint64_t>(lo + B, (uint64_t)N + 1);
            if (!ctx.take("prime.sweep", P().kv("lo", (long long)lo).kv("hi", (long long)hi))) continue;
            sweep(ctx, "prime.sweep", lo, hi, 1, TMO, hangs);
        }
    }
    // ---- boundary windows
    {
        const uint64_t centres[] = {1ull << 16, 1ull << 24, 1ull << 31, 65521ull * 65521ull, 0xFFFFFFFFull};
        const uint64_t W = T ? 4096 : 1024, B = 128;
        for (uint64_t cen : centres) {
            int hangs = 0;
            uint64_t lo0 = cen - W, hi0 = std::min<uint64_t>(cen + W, 0xFFFFFFFFull) + 1;
            for (uint64_t lo = lo0; lo < hi0; lo += B) {
                uint64_t hi = std::min(lo + B, hi0);
                if (!ctx.take("prime.window", P().kv("centre", (long long)cen).kv("lo", (long long)lo).kv("hi", (long long)hi)))
                    continue;
                sweep(ctx, "prime.window", lo, hi, 1, TMO, hangs);
            }
        }
    }
    // ---- arithmetic lattice over the whole 32-bit range (thorough) / coarser lattice (quick)
    {
        const uint64_t step = T ? 4099 : 4099 * 64, B = 512;
        int hangs = 0;
        for (uint64_t k0 = 0;; k0 += B) {
            uint64_t lo = step * k0 + 17;
            if (lo > 0xFFFFFFFFull) break;
            uint64_t hi = std::min<uint64_t>(step * (k0 + B) + 17, 0x100000000ull);
            if (!ctx.take("prime.lattice", P().kv("lo", (long long)lo).kv("hi", (long long)hi).kv("step", (long long)step)))
                continue;
            sweep(ctx, "prime.lattice", lo, hi, step, TMO, hangs);
        }
    }
    // ---- squares and products of primes next to 2^16
    {
        std::vector<uint64_t> ps;
        for (uint64_t p = 65536; ps.size() < 20; --p)
            if (mr_prime(p)) ps.push_back(p);
        for (uint64_t p = 65537; ps.size() < 40; ++p)
            if (mr_prime(p)) ps.push_back(p);
        std::sort(ps.begin(), ps.end());
        int hangs = 0;
        for (size_t i = 0; i < ps.size(); ++i) {
            if (!ctx.take("prime.semiprime", P().kv("p", (long long)ps[i]))) continue;
            std::vector<uint64_t> ns;
            for (size_t j = i; j < ps.size(); ++j)
                if (ps[i] * ps[j] <= 0xFFFFFFFFull) ns.push_back(ps[i] * ps[j]);
            size_t cur = 0;
            while (cur < ns.size() && hangs < 3) {
                auto o = forked(ctx, "isprime/factor", TMO, [&](ChildCtx& c) {
                    for (size_t k = cur; k < ns.size(); ++k) {
                        fb::shm()->prog[1] = (long long)k;
                        check_pf(c, (uint32_t)ns[k]);
                    }
                });
                if (!o.abnormal) break;
                ++hangs;
                cur = (size_t)o.r.prog[1] + 1;
            }
        }
    }
    // ---- adversarial composites: the numbers that fool probabilistic / shortcut primality tests
    //   A: p*q with q-1 = m(p-1)  (the shape of almost every strong pseudoprime)
    //   B: p*q*r with (r-1) | (pq-1)  (contains every 3-factor Carmichael number with p,q below the bound)
    //   C: published strong pseudoprimes / Carmichael numbers
    //   D (thorough): every odd composite n < 2^32 with 2^(n-1) = 1 (mod n), found by scanning all odd n
    {
        auto mul32 = [](uint64_t a, uint64_t b, uint64_t m) { return a * b % m; };   // operands < 2^32
        auto run_list = [&](const char* check, const P& prm, const std::vector<uint64_t>& ns) {
            int hangs = 0;
            size_t cur = 0;
            while (cur < ns.size() && hangs < 3) {
                auto o = forked(ctx, "isprime/factor", TMO, [&](ChildCtx& c) {
                    for (size_t k = cur; k < ns.size(); ++k) {
                        fb::shm()->prog[1] = (long long)k;
                        check_pf(c, (uint32_t)ns[k]);
                    }
                });
                if (!o.abnormal) break;
                ++hangs;
                cur = (size_t)o.r.prog[1] + 1;
            }
            if (hangs >= 3) ctx.cap(std::string(check) + ": stopped after 3 abnormal outcomes");
            (void)prm;
        };
        // A
        const uint64_t MA = T ? 64 : 16;
        for (size_t b = 0; b < g_small.size(); b += 512) {
            P prm = P().kv("family", "pq").kv("first_p", (long long)g_small[b]);
            if (!ctx.take("prime.adversarial", prm)) continue;
            std::vector<uint64_t> ns;
            for (size_t i = b; i < std::min(g_small.size(), b + 512); ++i) {
                uint64_t p = g_small[i];
                for (uint64_t m = 2; m <= MA; ++m) {
                    uint64_t q = m * (p - 1) + 1;
                    if (p * q > 0xFFFFFFFFull) break;
                    if (p >= 3 && mr_prime(q)) ns.push_back(p * q);
                }
            }
            run_list("prime.adversarial", prm, ns);
        }
        // B
        const uint32_t PB = T ? 6000 : 2000;
        for (size_t i = 1; i < g_small.size() && g_small[i] < PB; ++i) {
            uint64_t p = g_small[i];
            P prm = P().kv("family", "pqr").kv("p", (long long)p);
            if (!ctx.take("prime.adversarial", prm)) continue;
            std::vector<uint64_t> ns;
            for (size_t j = i + 1; j < g_small.size() && g_small[j] < PB; ++j) {
                uint64_t q = g_small[j];
                if (p * q * (q + 2) > 0xFFFFFFFFull) break;
                uint64_t L = p * q - 1;
                std::vector<uint64_t> divs{1};
                auto f = ref_factor(L);
                for (size_t a = 0; a < f.size();) {
                    size_t e = a;
                    while (e < f.size() && f[e] == f[a]) ++e;
                    size_t base = divs.size();
                    uint64_t pw = 1;
                    for (size_t k = a; k < e; ++k) {
                        pw *= f[a];
                        for (size_t d = 0; d < base; ++d) divs.push_back(divs[d] * pw);
                    }
                    a = e;
                }
                for (uint64_t d : divs) {
                    uint64_t r = d + 1;
                    if (r > q && p * q * r <= 0xFFFFFFFFull && mr_prime(r)) ns.push_back(p * q * r);
                }
            }
            run_list("prime.adversarial", prm, ns);
        }
        // C
        {
            P prm = P().kv("family", "published");
            if (ctx.take("prime.adversarial", prm)) {
                std::vector<uint64_t> ns = {
                    // strong pseudoprimes to base 2; to bases 2,3; 2,3,5; 2,3,5,7
                    2047, 3277, 4033, 4681, 8321, 15841, 29341, 42799, 49141, 52633, 65281, 74665, 80581, 85489, 88357, 90751,
                    1373653, 1530787, 1987021, 2284453, 3116107, 5173601, 6787327, 11541307, 13694761, 15978007, 16070429,
                    16879501, 25326001, 27509653, 27664033, 28527049, 54029741, 61832377, 66096253, 74927161, 80375707,
                    95452781, 161304001, 960946321, 1157839381, 3215031751ull, 3697278427ull,
                    // strong pseudoprimes to single bases 3, 5, 7, 11, 13
                    121, 703, 1891, 3281, 8401, 8911, 781, 1541, 5461, 5611, 7813, 25, 325, 2101, 29857, 133, 793, 2353, 4577,
                    85, 1099, 5149, 7107, 10261, 276, 341, 561, 645, 1105, 1387, 1729, 1905, 2465, 2701, 2821, 6601,
                    // Carmichael numbers
                    10585, 15841, 29341, 41041, 46657, 52633, 62745, 63973, 75361, 101101, 115921, 126217, 162401, 172081,
                    188461, 252601, 278545, 294409, 314821, 334153, 340561, 399001, 410041, 449065, 488881, 512461, 825265,
                    321197185, 4294967295ull /* 3*5*17*257*65537 */, 4294967297ull % 0x100000000ull,
                    // squares / cubes of primes, Mersenne and Fermat neighbours
                    65521ull * 65521ull, 65519ull * 65521ull, 46337ull * 46337ull, 1619ull * 1619 * 1619, 2147483647ull,
                    2147483649ull, 4294967291ull, 4294967293ull, 4293001441ull, 3825123056546413051ull % 0x100000000ull,
                };
                run_list("prime.adversarial", prm, ns);
            }
        }
        // D
        if (T) {
            const uint64_t BLK = 1ull << 25;
            for (uint64_t lo = 1; lo < 0x100000000ull; lo += BLK) {
                P prm = P().kv("family", "fermat2").kv("lo", (long long)lo);
                if (!ctx.take("prime.adversarial", prm)) continue;
                std::vector<uint64_t> ns;
                for (uint64_t n = std::max<uint64_t>(lo, 3); n < lo + BLK; n += 2) {
                    uint64_t e = n - 1, r = 1, a = 2;
                    while (e) {
                        if (e & 1) r = mul32(r, a, n);
                        a = mul32(a, a, n);
                        e >>= 1;
                    }
                    if (r == 1 && !mr_prime(n)) ns.push_back(n);
                }
                ctx.note("base-2 Fermat pseudoprimes found by the 32-bit scan", (long long)ns.size());
                run_list("prime.adversarial", prm, ns);
            }
        }
    }
    // ---- primes(n)
    {
        std::vector<uint32_t> args;
        for (uint32_t n = 0; n <= (T ? 4096u : 1024u); ++n) args.push_back(n);
        for (uint32_t n : {65535u, 65536u, 65537u, 1u << 20}) args.push_back(n);
        const size_t B = 64;
        for (size_t b = 0; b < args.size(); b += B) {
            if (!ctx.take("primes.list", P().kv("first", (long long)args[b]).kv("count", (long long)std::min(B, args.size() - b))))
                continue;
            forked(ctx, "primes", 30.0, [&](ChildCtx& c) {
                for (size_t k = b; k < std::min(args.size(), b + B); ++k) {
                    uint32_t n = args[k];
                    fb::shm()->prog[0] = n;
                    fb::label("primes");
                    arr_int pr = dsplib::primes(n);
                    ++c.evals;
                    size_t cnt = 0;
                    bool ok = true;
                    for (uint32_t v = 2; v <= n; ++v) {
                        if (g_spf[v] == v) {
                            if ((int)cnt >= pr.size() || (uint32_t)pr[(int)cnt] != v) ok = false;
                            ++cnt;
                        }
                    }
                    if ((size_t)pr.size() != cnt) ok = false;
                    if (!ok)
                        c.fail("primes", fmt("primes(%u) has %d entries, last %d", n, pr.size(), pr.size() ? pr[pr.size() - 1] : -1),
                               fmt("exactly the %zu primes <= n", cnt), P().kv("n", (long long)n));
                    if (cnt >= 2) ++c.nontriv;
                }
            });
        }
    }
    // ---- nextprime(n): every n <= 2^16 (quick 2^13) and windows where the answer is representable
    {
        struct Rng {
            uint64_t lo, hi;
        };
        std::vector<Rng> rs;
        rs.push_back({0, T ? 262145u : 8193u});
        const uint64_t W = T ? 256 : 48;
        for (uint64_t cen : {1ull << 16, 1ull << 20, 1ull << 24, 1ull << 31, 65521ull * 65521ull})
            rs.push_back({cen - W, cen + W});
        rs.push_back({4294967291ull - 2 * W, 4294967291ull + 1});   // largest 32-bit prime is 4294967291
        const uint64_t B = 64;
        for (auto& r : rs) {
            int hangs = 0;
            for (uint64_t lo = r.lo; lo < r.hi; lo += (r.lo == 0 ? 1024 : B)) {
                uint64_t hi = std::min(lo + (r.lo == 0 ? 1024 : B), r.hi);
                if (!ctx.take("nextprime", P().kv("lo", (long long)lo).kv("hi", (long long)hi))) continue;
                uint64_t cur = lo;
                while (cur < hi && hangs < 3) {
                    auto o = forked(ctx, "nextprime", TMO, [&](ChildCtx& c) {
                        for (uint64_t n = cur; n < hi; ++n) {
                            fb::shm()->prog[0] = (long long)n;
                            fb::label("nextprime");
                            uint64_t ref = n;
                            while (!ref_prime(ref)) ++ref;
                            uint64_t s0 = dsplib::verif::prime_steps_read();
                            uint32_t got = dsplib::nextprime((uint32_t)n);
                            uint64_t s1 = dsplib::verif::prime_steps_read();
                            ++c.evals;
                            if (got != ref)
                                c.fail("nextprime", fmt("nextprime(%llu)=%u", (unsigned long long)n, got),
                                       fmt("%llu", (unsigned long long)ref), P().kv("n", (long long)n));
                            // each candidate in [n, ref] may cost one primality test
                            double bud = (double)(ref - n + 1) * budget(ref);
                            if ((double)(s1 - s0) > bud)
                                c.fail("nextprime.cost",
                                       fmt("nextprime(%llu) used %llu trial divisions", (unsigned long long)n,
                                           (unsigned long long)(s1 - s0)),
                                       fmt("<= (gap+1)*(32*sqrt(n)+4096) = %.0f", bud), P().kv("n", (long long)n));
                            c.worst("nextprime steps/((gap+1)*sqrt(n))", (double)(s1 - s0) / ((double)(ref - n + 1) * (std::sqrt((double)ref) + 1)));
                            if (ref != n) ++c.nontriv;
                        }
                    });
                    if (!o.abnormal) break;
                    ++hangs;
                    cur = (uint64_t)o.r.prog[0] + 1;
                }
                if (hangs >= 3) ctx.cap("nextprime: stopped a window after 3 abnormal outcomes");
            }
        }
    }
    // ---- nextpow2 / ispow2: every m in [1, 2^22] (quick 2^18), windows around 2^k and INT_MAX
    {
        const long long M = T ? (1 << 26) : (1 << 20), B = T ? (1 << 20) : 65536;
        auto one = [](ChildCtx& c, long long m) {
            fb::shm()->prog[0] = m;
            fb::label("nextpow2");
            int ref = 0;
            while ((1ll << ref) < m) ++ref;
            bool rp = (1ll << ref) == m;
            int got = dsplib::nextpow2((int)m);
            bool gp = dsplib::ispow2((int)m);
            ++c.evals;
            if (got != ref) c.fail("nextpow2", fmt("nextpow2(%lld)=%d", m, got), fmt("%d", ref), P().kv("m", m));
            if (gp != rp) c.fail("ispow2", fmt("ispow2(%lld)=%d", m, (int)gp), fmt("%d", (int)rp), P().kv("m", m));
            if (m > 2) ++c.nontriv;
        };
        for (long long lo = 1; lo <= M; lo += B) {
            long long hi = std::min(lo + B, M + 1);
            if (!ctx.take("pow2.sweep", P().kv("lo", lo).kv("hi", hi))) continue;
            forked(ctx, "nextpow2/ispow2", TMO, [&](ChildCtx& c) {
                for (long long m = lo; m < hi; ++m) one(c, m);
            });
        }
        for (int k = 1; k <= 31; ++k) {
            long long cen = (k == 31) ? 0x7FFFFFFFll : (1ll << k);
            long long lo = std::max(1ll, cen - 256), hi = std::min(cen + 256, 0x7FFFFFFFll) + 1;
            if (!ctx.take("pow2.window", P().kv("k", k).kv("lo", lo).kv("hi", hi))) continue;
            forked(ctx, "nextpow2/ispow2", TMO, [&](ChildCtx& c) {
                for (long long m = lo; m < hi; ++m) one(c, m);
            });
        }
    }
    return ctx.finish();
}
